#!/bin/sh
# MANIFEST.setup_cmd: build the Lean project (model, theorems, drivers) and the Rust runner, offline.
# Every check rebuilds what it needs itself (lake build of its own targets, cargo build of the
# runner against /repo's working tree), so this only warms the caches; it fails only if the
# toolchains themselves do not work.
cd "$(dirname "$0")" || exit 1
mkdir -p .build evidence replays
export CARGO_NET_OFFLINE=true
[ -f runner/Cargo.lock ] || cp /repo/Cargo.lock runner/Cargo.lock
(cd lean && flock ../.build/lake.lock lake build 2>&1 | grep -v '^trace' | tail -5)
(cd runner && CARGO_TARGET_DIR=../.build/cargo cargo build --offline --quiet 2>&1 | grep -E '^error' -A8 | head -40)
test -x .build/cargo/debug/grass_verif_runner || { echo "runner did not build"; exit 1; }
test -x lean/.lake/build/bin/drv_media || { echo "lean drivers did not build"; exit 1; }
echo setup-ok
