#!/bin/sh
# MANIFEST.setup_cmd: build the Lean project (model, theorems, driver) and the Rust runner, offline.
set -e
cd "$(dirname "$0")"
mkdir -p .build evidence replays
export CARGO_NET_OFFLINE=true
[ -f runner/Cargo.lock ] || cp /repo/Cargo.lock runner/Cargo.lock
(cd lean && lake build 2>&1 | grep -v '^trace' | tail -5)
(cd runner && CARGO_TARGET_DIR=../.build/cargo cargo build --offline --quiet 2>&1 | grep -E '^(error|warning: unused)' -A5 | head -40 || true)
test -x .build/cargo/debug/grass_verif_runner
test -x lean/.lake/build/bin/driver
echo setup-ok
