#!/usr/bin/env python3
"""Round-3 mutator prompt: property text + one-line summaries of earlier seeded changes (to avoid
repeats) + a scratch worktree. Nothing else from /verif is given to the sub-agent."""
import json, sys, glob, os
pid = sys.argv[1]
n = sys.argv[2] if len(sys.argv) > 2 else "2"
p = [json.loads(l) for l in open('/verif/properties.jsonl') if json.loads(l)['id'] == pid][0]
prev = []
for d in sorted(glob.glob(f'/verif/seeded/{pid}-*')):
    try:
        prev.append(json.load(open(os.path.join(d, 'meta.json')))['summary'][:230])
    except Exception:
        pass
prev_txt = "\n".join(f"  - {s}" for s in prev)
print(f"""You are given a scratch git worktree of the Rust project connorskees/grass (a Sass/SCSS-to-CSS compiler in pure Rust) at /tmp/mut/{pid}. Work ONLY inside /tmp/mut/{pid} (never touch /repo or /verif, never read /verif). The sandbox has no network; use `cargo … --offline`. Use `CARGO_TARGET_DIR=/tmp/mut/{pid}/target` (the default inside the worktree).

Here is a semantic property of grass that users rely on:

  Title: {p['title']}
  Statement: {p['statement']}
  Quantified over: {p['quantifier']['text']}

TASK: produce {n} DIFFERENT realistic changes to the grass source (the kind of mistake a maintainer could plausibly make in a refactor, optimisation, bug fix or feature addition) each of which BREAKS this property while the crate still compiles and the ENTIRE existing test suite still passes (`cd /tmp/mut/{pid} && cargo test --offline --workspace --no-fail-fast 2>&1 | grep -E "^test result|FAILED|panicked"` — every `test result:` line must show 0 failed; the cold build takes a few minutes (the machine is shared), later runs seconds). Prefer changes that need something SPECIFIC to manifest — an unusual input, a particular combination of options, a multi-step sequence of operations, a boundary value, two cooperating sites that each look fine alone — rather than ones that ordinary use would expose at once. Keep each change small (a few lines) and independent of the others. Choose DIFFERENT clauses of the statement and different source files for the {n} changes where possible.

Changes already tried in earlier rounds — do NOT repeat these or close variants of them; look at other clauses, other code paths, other mechanisms:
{prev_txt}

For each change i = 1..{n} deliver, in /tmp/mut/{pid}/out/m<i>/ :
  - patch.diff   : `git diff` of ONLY that change against the worktree's HEAD (apply one change at a time: start each from a clean tree with `git checkout -- . `; the out/ directory is untracked so it survives)
  - demo.sh      : a small executable demonstration (shell script; it may build and run the `grass` binary via `cargo run --offline -q -p grass -- <args>` or `target/debug/grass`, or write inputs to temp files made with mktemp) that exits 0 on the UNCHANGED tree and non-zero WITH the change applied, printing what differs. It must locate the tree by its own path (`cd "$(dirname "$0")/../.."`), not by a hard-coded directory. The demo must show a violation of the property as stated (not merely a changed output): say in a comment which clause is violated.
  - meta.json    : {{"property": "{pid}", "summary": "<one line>", "files_touched": [...], "needs_to_manifest": "<what specific input/option/sequence triggers it>", "clause_violated": "<which part of the statement>", "suite_result": "<the summed passed/failed counts you observed with the change applied>"}}

Verify everything yourself: with the change applied the suite passes and demo.sh fails; on the clean tree demo.sh passes. Leave the worktree CLEAN at the end (`git checkout -- .`; keep out/). Delete the `target/` directory of the worktree when you are done (`rm -rf /tmp/mut/{pid}/target`) to save disk. Your final message: for each change, one paragraph (what, where, how it manifests) and the exact paths of the three files.""")
