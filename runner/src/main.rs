//! Generic compile server over grass's PUBLIC API (from_string / from_path / Options / Fs / Logger).
//! Reads one JSON job per line on stdin, writes one JSON answer per line on a private copy of
//! stdout; fds 1 and 2 are redirected to a memfd so anything the library prints is captured and
//! reported per job.  Contains no oracle logic.
use std::cell::RefCell;
use std::collections::BTreeMap;
use std::io::{self, BufRead, Read, Seek, SeekFrom, Write};
use std::os::unix::io::FromRawFd;
use std::path::{Path, PathBuf};
use std::sync::{Arc, Mutex};

use grass_compiler::{ErrorKind, Fs, InputSyntax, Logger, Options, OutputStyle};
use serde_json::{json, Value};

#[derive(Debug)]
struct MemFs {
    files: BTreeMap<PathBuf, Vec<u8>>,
    calls: Mutex<Vec<(String, String, String)>>,
}

impl MemFs {
    fn rec(&self, op: &str, p: &Path, r: &str) {
        self.calls
            .lock()
            .unwrap()
            .push((op.to_string(), p.to_string_lossy().into_owned(), r.to_string()));
    }
}

impl Fs for MemFs {
    fn is_dir(&self, path: &Path) -> bool {
        let r = self
            .files
            .keys()
            .any(|k| k != path && k.starts_with(path));
        self.rec("is_dir", path, if r { "1" } else { "0" });
        r
    }
    fn is_file(&self, path: &Path) -> bool {
        let r = self.files.contains_key(path);
        self.rec("is_file", path, if r { "1" } else { "0" });
        r
    }
    fn read(&self, path: &Path) -> io::Result<Vec<u8>> {
        match self.files.get(path) {
            Some(b) => {
                self.rec("read", path, "1");
                Ok(b.clone())
            }
            None => {
                self.rec("read", path, "0");
                Err(io::Error::new(io::ErrorKind::NotFound, "no such file in MemFs"))
            }
        }
    }
}

#[derive(Debug, Default)]
struct CollectLogger {
    logs: Mutex<Vec<Value>>,
}

impl Logger for CollectLogger {
    fn debug(&self, loc: grass_compiler::codemap::SpanLoc, message: &str) {
        self.logs.lock().unwrap().push(json!({"kind":"debug","file":loc.file.name(),
            "line":loc.begin.line+1,"col":loc.begin.column+1,"msg":message}));
    }
    fn warn(&self, loc: grass_compiler::codemap::SpanLoc, message: &str) {
        self.logs.lock().unwrap().push(json!({"kind":"warn","file":loc.file.name(),
            "line":loc.begin.line+1,"col":loc.begin.column+1,"msg":message}));
    }
}

thread_local! {
    static PANIC_INFO: RefCell<Option<String>> = RefCell::new(None);
}

fn bytes_of(v: &Value) -> Vec<u8> {
    // {"t": "text"} | {"hex": "…"} | "text"
    match v {
        Value::String(s) => s.as_bytes().to_vec(),
        Value::Object(o) => {
            if let Some(Value::String(s)) = o.get("t") {
                s.as_bytes().to_vec()
            } else if let Some(Value::String(h)) = o.get("hex") {
                (0..h.len() / 2)
                    .map(|i| u8::from_str_radix(&h[2 * i..2 * i + 2], 16).unwrap_or(0))
                    .collect()
            } else {
                Vec::new()
            }
        }
        _ => Vec::new(),
    }
}

fn run_job(job: &Value) -> Value {
    let mut files = BTreeMap::new();
    if let Some(Value::Object(m)) = job.get("files") {
        for (k, v) in m {
            files.insert(PathBuf::from(k), bytes_of(v));
        }
    }
    let fs = MemFs { files, calls: Mutex::new(Vec::new()) };
    let logger = CollectLogger::default();
    let o = job.get("options").cloned().unwrap_or(json!({}));
    let use_std_fs = job.get("fs").and_then(Value::as_str) == Some("std");
    let logger_kind = job.get("logger").and_then(Value::as_str).unwrap_or("collect");

    let result = {
        let mut opts = Options::default();
        if !use_std_fs {
            opts = opts.fs(&fs);
        }
        match logger_kind {
            "collect" => opts = opts.logger(&logger),
            "null" => opts = opts.logger(&grass_compiler::NullLogger),
            _ => {}
        }
        if o.get("style").and_then(Value::as_str) == Some("compressed") {
            opts = opts.style(OutputStyle::Compressed);
        }
        match o.get("syntax").and_then(Value::as_str) {
            Some("scss") => opts = opts.input_syntax(InputSyntax::Scss),
            Some("sass") => opts = opts.input_syntax(InputSyntax::Sass),
            Some("css") => opts = opts.input_syntax(InputSyntax::Css),
            _ => {}
        }
        if let Some(b) = o.get("quiet").and_then(Value::as_bool) {
            opts = opts.quiet(b);
        }
        if let Some(b) = o.get("unicode").and_then(Value::as_bool) {
            opts = opts.unicode_error_messages(b);
        }
        if let Some(b) = o.get("charset").and_then(Value::as_bool) {
            opts = opts.allows_charset(b);
        }
        if let Some(Value::Array(lps)) = o.get("load_paths") {
            let paths: Vec<&str> = lps.iter().filter_map(Value::as_str).collect();
            // both public spellings are exercised: `load_paths` (one call, what the CLI uses)
            // unless the job asks for one `load_path` call per entry
            if o.get("load_paths_api").and_then(Value::as_str) == Some("singular") {
                for s in &paths {
                    opts = opts.load_path(s);
                }
            } else if !paths.is_empty() {
                opts = opts.load_paths(&paths);
            }
        }
        let input = job.get("input").map(bytes_of);
        let entry = job.get("entry").and_then(Value::as_str).map(str::to_owned);
        std::panic::catch_unwind(std::panic::AssertUnwindSafe(|| match (input, entry) {
            (Some(bytes), _) => match String::from_utf8(bytes) {
                Ok(s) => grass_compiler::from_string(s, &opts),
                Err(_) => panic!("runner: non-UTF-8 `input`; use files+entry"),
            },
            (None, Some(p)) => grass_compiler::from_path(p, &opts),
            (None, None) => grass_compiler::from_string(String::new(), &opts),
        }))
    };

    let mut ans = json!({});
    match result {
        Ok(Ok(css)) => {
            ans["status"] = json!("ok");
            ans["css"] = json!(css);
        }
        Ok(Err(e)) => {
            ans["status"] = json!("err");
            let display = std::panic::catch_unwind(std::panic::AssertUnwindSafe(|| format!("{}", e)));
            match display {
                Ok(d) => ans["display"] = json!(d),
                Err(_) => {
                    ans["status"] = json!("panic");
                    ans["panic"] = json!(format!(
                        "while rendering the error: {}",
                        PANIC_INFO.with(|p| p.borrow_mut().take()).unwrap_or_default()
                    ));
                }
            }
            let kind = std::panic::catch_unwind(std::panic::AssertUnwindSafe(|| (*e).clone().kind()));
            match kind {
                Ok(ErrorKind::ParseError { message, loc, unicode }) => {
                    let src = loc.file.source();
                    let fspan = loc.file.span;
                    ans["err"] = json!({"kind":"parse","message":message,"unicode":unicode,
                        "file":loc.file.name(),
                        "begin_line":loc.begin.line,"begin_col":loc.begin.column,
                        "end_line":loc.end.line,"end_col":loc.end.column,
                        "file_len":src.len(), "file_lines": loc.file.source().split('\n').count(),
                        "file_span_len": fspan.len()});
                }
                Ok(ErrorKind::IoError(ioe)) => {
                    ans["err"] = json!({"kind":"io","message":ioe.to_string()});
                }
                Ok(ErrorKind::FromUtf8Error(s)) => {
                    ans["err"] = json!({"kind":"utf8","message":s});
                }
                Ok(_) => {
                    ans["err"] = json!({"kind":"other"});
                }
                Err(_) => {
                    ans["err"] = json!({"kind":"raw-leaked"});
                }
            }
        }
        Err(_) => {
            ans["status"] = json!("panic");
            ans["panic"] = json!(PANIC_INFO.with(|p| p.borrow_mut().take()).unwrap_or_default());
        }
    }
    ans["logs"] = Value::Array(std::mem::take(&mut *logger.logs.lock().unwrap()));
    let calls = std::mem::take(&mut *fs.calls.lock().unwrap());
    ans["fs"] = Value::Array(calls.into_iter().map(|(a, b, c)| json!([a, b, c])).collect());
    ans
}

fn run_seq(jobs: &[Value]) -> Vec<Value> {
    jobs.iter().map(run_job).collect()
}

fn stack_size(job: &Value) -> usize {
    job.get("stack_mb").and_then(Value::as_u64).unwrap_or(8) as usize * 1024 * 1024
}

fn main() {
    // private copy of stdout for the protocol; fds 1 and 2 go to a memfd
    let (mut proto, mut cap) = unsafe {
        let proto_fd = libc::dup(1);
        let name = b"grass-capture\0";
        let mfd = libc::memfd_create(name.as_ptr() as *const libc::c_char, 0);
        libc::dup2(mfd, 1);
        libc::dup2(mfd, 2);
        (std::fs::File::from_raw_fd(proto_fd), std::fs::File::from_raw_fd(mfd))
    };
    std::panic::set_hook(Box::new(|info| {
        let loc = info.location().map(|l| format!("{}:{}", l.file(), l.line())).unwrap_or_default();
        let msg = if let Some(s) = info.payload().downcast_ref::<&str>() {
            s.to_string()
        } else if let Some(s) = info.payload().downcast_ref::<String>() {
            s.clone()
        } else {
            "<non-string panic>".to_string()
        };
        PANIC_INFO.with(|p| *p.borrow_mut() = Some(format!("{} @ {}", msg, loc)));
    }));

    let stdin = io::stdin();
    let mut cap_pos: u64 = 0;
    for line in stdin.lock().lines() {
        let line = match line {
            Ok(l) => l,
            Err(_) => break,
        };
        if line.trim().is_empty() {
            continue;
        }
        let job: Value = match serde_json::from_str(&line) {
            Ok(v) => v,
            Err(e) => {
                let _ = writeln!(proto, "{}", json!({"status":"bad-job","why":e.to_string()}));
                let _ = proto.flush();
                continue;
            }
        };
        let mode = job.get("mode").and_then(Value::as_str).unwrap_or("compile").to_string();
        let ss = stack_size(&job);
        let mut ans = match mode.as_str() {
            "compile" => {
                let j = job.clone();
                std::thread::Builder::new()
                    .stack_size(ss)
                    .spawn(move || run_job(&j))
                    .unwrap()
                    .join()
                    .unwrap_or_else(|_| json!({"status":"panic","panic":"thread join failed"}))
            }
            // a list of jobs executed one after another on ONE fresh thread (thread-local state shared)
            "seq" => {
                let jobs: Vec<Value> = job.get("jobs").and_then(Value::as_array).cloned().unwrap_or_default();
                let r = std::thread::Builder::new()
                    .stack_size(ss)
                    .spawn(move || run_seq(&jobs))
                    .unwrap()
                    .join()
                    .unwrap_or_default();
                json!({"status":"ok","results":r})
            }
            // N lists of jobs, one thread per list, all started together
            "par" => {
                let lists: Vec<Vec<Value>> = job
                    .get("lists")
                    .and_then(Value::as_array)
                    .map(|a| a.iter().map(|l| l.as_array().cloned().unwrap_or_default()).collect())
                    .unwrap_or_default();
                let barrier = Arc::new(std::sync::Barrier::new(lists.len().max(1)));
                let handles: Vec<_> = lists
                    .into_iter()
                    .map(|l| {
                        let b = barrier.clone();
                        std::thread::Builder::new()
                            .stack_size(ss)
                            .spawn(move || {
                                b.wait();
                                run_seq(&l)
                            })
                            .unwrap()
                    })
                    .collect();
                let r: Vec<Value> = handles
                    .into_iter()
                    .map(|h| Value::Array(h.join().unwrap_or_default()))
                    .collect();
                json!({"status":"ok","results":r})
            }
            _ => json!({"status":"bad-job","why":"unknown mode"}),
        };
        // captured stdout/stderr of the library during this job
        let _ = io::stdout().flush();
        let _ = io::stderr().flush();
        let end = cap.seek(SeekFrom::End(0)).unwrap_or(cap_pos);
        let mut captured = Vec::new();
        if end > cap_pos {
            let _ = cap.seek(SeekFrom::Start(cap_pos));
            let _ = (&mut cap).take(end - cap_pos).read_to_end(&mut captured);
            cap_pos = end;
        }
        ans["captured"] = json!(String::from_utf8_lossy(&captured));
        if let Some(id) = job.get("id") {
            ans["id"] = id.clone();
        }
        let _ = writeln!(proto, "{}", ans);
        let _ = proto.flush();
    }
}
