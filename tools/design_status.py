#!/usr/bin/env python3
"""Prints the per-property status table for DESIGN.md §11.4 from MANIFEST.json and evidence/*.json."""
import json, os
V = os.path.dirname(os.path.dirname(os.path.abspath(__file__)))
man = json.load(open(os.path.join(V, "MANIFEST.json")))
print("| id | theorems (audited) | partial? | correspondence / search this run (quick tier) | model disagreements | known findings seen | wall |")
print("|---|---|---|---|---|---|---|")
for c in man["checks"]:
    pid = c["property_id"]
    try:
        e = json.load(open(os.path.join(V, "evidence", pid + ".json")))
    except OSError:
        continue
    cov = e["coverage"]
    partial = "partial (see claim)" if "PARTIAL" in c["level_claimed"]["text"] else "no"
    print(f"| {pid} | {cov.get('discharged')}/{cov.get('obligations')} | {partial} | {cov.get('evaluations')} cases, {cov.get('distinct_nontrivial')} distinct non-trivial ({e['tier']}) | {cov.get('model_disagreements')} | {', '.join(cov.get('known_findings_seen', [])) or '—'} | {e['wall_s']} s |")
