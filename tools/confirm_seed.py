#!/usr/bin/env python3
"""Confirm a seeded change: tools/confirm_seed.py seeded/<id> [...]
In the scratch worktree /tmp/seedwt (HEAD of /repo): demo passes on the clean tree; with
patch.diff applied the crate builds, the whole existing suite passes and the demo fails.
Writes the outcome into seeded/<id>/meta.json ("confirmed": {...})."""
import json, os, subprocess, sys
BASE = None
WT = os.environ.get("SEED_WT", "/tmp/seedwt")

def sh(cmd, cwd=WT, timeout=3600):
    env = dict(os.environ, CARGO_NET_OFFLINE="true")
    return subprocess.run(cmd, shell=True, cwd=cwd, env=env, stdout=subprocess.PIPE, stderr=subprocess.STDOUT, text=True, timeout=timeout)

def reset(base=None):
    sh("git checkout -- . ; git clean -fdq -e target")
    sh(f"git checkout -q --detach {base or '$(git -C /repo rev-parse HEAD)'} && git checkout -- . && git clean -fdq -e target")

def main():
    if not os.path.isdir(WT):
        sh(f"git -C /repo worktree add --detach {WT} HEAD -q", cwd="/")
    for d in sys.argv[1:]:
        d = os.path.abspath(d)
        mp0 = os.path.join(d, "meta.json")
        base = (json.load(open(mp0)).get("base_commit") if os.path.exists(mp0) else None)
        reset(base)
        # some demos hard-code the mutator's worktree path /tmp/mut/<ID> (or take it from an env var)
        prop = os.path.basename(d).split("-")[0]
        os.makedirs("/tmp/mut", exist_ok=True)
        link = f"/tmp/mut/{prop}"
        if os.path.islink(link) or not os.path.exists(link):
            sh(f"ln -sfn {WT} {link}")
        for v in ("GRASS_ROOT", f"{prop}_ROOT"):
            os.environ[v] = WT
        # demos locate the tree either by cwd or relative to their own path (<tree>/out/m/demo.sh)
        sh(f"rm -rf {WT}/out && mkdir -p {WT}/out && cp -r {d} {WT}/out/m")
        demo = os.path.join(WT, "out", "m", "demo.sh")
        r0 = sh(f"bash {demo}")
        a = sh(f"git apply {d}/patch.diff")
        if a.returncode:
            res = {"applies": False, "why": a.stdout[-500:]}
        else:
            t = sh("cargo test --offline --workspace --no-fail-fast 2>&1 | tee /tmp/confirm_suite_$$.log | grep -E '^test result' | awk '{p+=$4; f+=$6} END {print p, f}'; grep -E '^test .* FAILED|^---- ' /tmp/confirm_suite_$$.log | head -5; rm -f /tmp/confirm_suite_$$.log")
            r1 = sh(f"bash {demo}")
            res = {"applies": True, "demo_clean_rc": r0.returncode, "suite_passed_failed": t.stdout.strip(),
                   "demo_patched_rc": r1.returncode, "demo_patched_output": r1.stdout[-600:],
                   "ok": r0.returncode == 0 and r1.returncode not in (0, 99) and t.stdout.strip().split("\n")[0].endswith(" 0") and not t.stdout.strip().startswith("0")}
        reset(base)
        sh(f"rm -rf {WT}/out")
        if os.path.islink(link):
            os.unlink(link)
        mp = os.path.join(d, "meta.json")
        m = json.load(open(mp)) if os.path.exists(mp) else {}
        m["confirmed"] = res
        json.dump(m, open(mp, "w"), indent=1, ensure_ascii=False)
        print(os.path.basename(d), res.get("ok"), res.get("suite_passed_failed"), res.get("demo_clean_rc"), res.get("demo_patched_rc"), flush=True)

main()
