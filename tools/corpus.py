"""Golden corpus: (name, file, input, expected, kind, options) extracted from the `test!` / `error!`
macros in /repo/crates/lib/tests/*.rs.  Only literal-string arguments are understood (adjacent
literals and `concat!` are not needed by the suite); anything else is skipped and counted."""
import glob
import os
import re

from vlib import REPO


def _skip_ws(s, i):
    n = len(s)
    while i < n:
        if s[i].isspace():
            i += 1
        elif s.startswith("//", i):
            j = s.find("\n", i)
            i = n if j < 0 else j + 1
        elif s.startswith("/*", i):
            j = s.find("*/", i)
            i = n if j < 0 else j + 2
        else:
            break
    return i


def _string_lit(s, i):
    """Parse a Rust string literal starting at s[i]; returns (value, next index) or None."""
    n = len(s)
    if s.startswith('r"', i) or s.startswith("r#", i):
        j = i + 1
        hashes = 0
        while j < n and s[j] == "#":
            hashes += 1
            j += 1
        if j >= n or s[j] != '"':
            return None
        end = s.find('"' + "#" * hashes, j + 1)
        if end < 0:
            return None
        return s[j + 1:end], end + 1 + hashes
    if s[i] != '"':
        return None
    out = []
    j = i + 1
    while j < n:
        c = s[j]
        if c == '"':
            return "".join(out), j + 1
        if c == "\\":
            d = s[j + 1]
            if d == "n":
                out.append("\n")
            elif d == "t":
                out.append("\t")
            elif d == "r":
                out.append("\r")
            elif d == "0":
                out.append("\0")
            elif d in "\\\"'":
                out.append(d)
            elif d == "x":
                out.append(chr(int(s[j + 2:j + 4], 16)))
                j += 2
            elif d == "u":
                k = s.find("}", j)
                out.append(chr(int(s[j + 3:k].replace("_", ""), 16)))
                j = k - 1
            elif d == "\n":
                j += 2
                while j < n and s[j].isspace():
                    j += 1
                continue
            else:
                return None
            j += 2
            continue
        out.append(c)
        j += 1
    return None


def _balanced_end(s, i):
    """Index just after the `)` closing the paren opened before i (i is just after `(`)."""
    depth = 1
    n = len(s)
    while i < n:
        c = s[i]
        if c == '"' or s.startswith('r"', i) or s.startswith('r#"', i):
            r = _string_lit(s, i)
            if r is None:
                return None
            i = r[1]
            continue
        if c == "'":
            # char literal or lifetime
            m = re.match(r"'(\\.|[^\\'])'", s[i:])
            if m:
                i += m.end()
                continue
        if s.startswith("//", i):
            j = s.find("\n", i)
            i = n if j < 0 else j + 1
            continue
        if c in "([{":
            depth += 1
        elif c in ")]}":
            depth -= 1
            if depth == 0:
                return i + 1
        i += 1
    return None


_macro = re.compile(r"^\s*(test|error)!\(", re.M)


def load(repo=REPO):
    cases, skipped = [], 0
    for f in sorted(glob.glob(os.path.join(repo, "crates/lib/tests/*.rs"))):
        if f.endswith("macros.rs"):
            continue
        s = open(f, encoding="utf-8").read()
        for m in _macro.finditer(s):
            kind = m.group(1)
            i = m.end()
            end = _balanced_end(s, i)
            if end is None:
                skipped += 1
                continue
            i = _skip_ws(s, i)
            attrs = []
            while s.startswith("#[", i):
                j = s.find("]", i)
                attrs.append(s[i:j + 1])
                i = _skip_ws(s, j + 1)
            mname = re.match(r"[A-Za-z_0-9]+", s[i:])
            if not mname:
                skipped += 1
                continue
            name = mname.group(0)
            i = _skip_ws(s, i + mname.end())
            if s[i] != ",":
                skipped += 1
                continue
            i = _skip_ws(s, i + 1)
            a = _string_lit(s, i)
            if a is None:
                skipped += 1
                continue
            i = _skip_ws(s, a[1])
            if s[i] != ",":
                skipped += 1
                continue
            i = _skip_ws(s, i + 1)
            b = _string_lit(s, i)
            if b is None:
                skipped += 1
                continue
            i = _skip_ws(s, b[1])
            opts = {}
            if s[i] == ",":
                rest = s[i + 1:end - 1].strip().rstrip(",").strip()
                if rest:
                    if "Compressed" in rest:
                        opts["style"] = "compressed"
                    if "InputSyntax::Sass" in rest:
                        opts["syntax"] = "sass"
                    if "InputSyntax::Css" in rest:
                        opts["syntax"] = "css"
                    if "allows_charset(false)" in rest:
                        opts["charset"] = False
                    if "unicode_error_messages(false)" in rest:
                        opts["unicode"] = False
                    known = re.sub(r"grass::Options::default\(\)|\.style\(grass::OutputStyle::\w+\)|"
                                   r"\.input_syntax\(grass::InputSyntax::\w+\)|\.allows_charset\(false\)|"
                                   r"\.unicode_error_messages\(false\)|\s", "", rest)
                    if known:
                        skipped += 1
                        continue
            cases.append({"name": name, "file": os.path.basename(f), "kind": kind, "input": a[0],
                          "expected": b[0], "options": opts, "ignored": any("ignore" in x for x in attrs)})
    return cases, skipped


if __name__ == "__main__":
    cs, sk = load()
    print(len(cs), "cases,", sk, "skipped;", sum(c["kind"] == "error" for c in cs), "error cases;",
          sum(c["ignored"] for c in cs), "ignored")
