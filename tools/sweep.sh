#!/bin/bash
# Run the quick command of every claimed check once, sequentially; print exit code, wall time and alarm lines.
cd "$(dirname "$0")/.."
ids=${@:-$(python3 -c "import json;print(' '.join(c['property_id'] for c in json.load(open('MANIFEST.json'))['checks']))")}
for id in $ids; do
  t0=$(date +%s)
  out=$(./check $id --tier ${TIER:-quick} 2>&1); rc=$?
  t1=$(date +%s)
  echo "$id rc=$rc wall=$((t1-t0))s $(echo "$out" | grep -c '^VIOLATION') violations, $(echo "$out" | grep -c '^KNOWN-FINDING') known"
  echo "$out" | grep -E '^VIOLATION' | head -3
done
