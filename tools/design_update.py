#!/usr/bin/env python3
"""Regenerates the generated part of DESIGN.md §11 (status table, seeded-change table) between the
markers <!-- GENERATED-11 BEGIN --> and <!-- GENERATED-11 END -->."""
import os, subprocess
V = os.path.dirname(os.path.dirname(os.path.abspath(__file__)))
p = os.path.join(V, "DESIGN.md")
s = open(p).read()
status = subprocess.run([os.path.join(V, "tools", "design_status.py")], capture_output=True, text=True).stdout
seeds = subprocess.run([os.path.join(V, "tools", "seed_report.py")], capture_output=True, text=True).stdout
gen = f"""<!-- GENERATED-11 BEGIN -->
### 11.5 Per-property status (generated from MANIFEST.json and the committed evidence files)

{status}
The claim text, trusted base and what is partial per property are in `MANIFEST.json`
(`level_claimed.text`, `level_note`), which is generated from `tools/manifest_gen.py`.

### 11.6 Seeded property-breaking changes and which checks catch them (generated from seeded/*/meta.json)

`hist-D*` are the historic defects of the pinned tree re-introduced by reverting their `fix:` commit;
`Cnn-m*` were written by independent sub-agents that were given only the property text and a scratch
worktree (nothing from /verif). “confirmed” = on the base commit the demonstration passes without
the change, and with the change the crate builds, the whole existing suite passes and the
demonstration fails (run by `tools/confirm_seed.py`). “checks” = result of running the property's
quick check against the change in ALT mode (`tools/seedtest.py`, `tools/seedqueue.py`); where a
later repair moved the code, the same change re-applied on the current HEAD (`patch_head.diff`) is used.

{seeds}
<!-- GENERATED-11 END -->"""
b, e = "<!-- GENERATED-11 BEGIN -->", "<!-- GENERATED-11 END -->"
if b in s:
    s = s[:s.index(b)] + gen + s[s.index(e) + len(e):]
else:
    s = s.rstrip("\n") + "\n\n" + gen + "\n"
open(p, "w").write(s)
print("DESIGN.md §11.5/11.6 regenerated")
