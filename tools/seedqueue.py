#!/usr/bin/env python3
"""For each seeded/<name> given: run the property's check (or the ids in meta["checks"]) against
the change in ALT mode and record in meta.json whether it was detected.
  tools/seedqueue.py seeded/C17-m1 seeded/C17-m2 …   [--ids C17,C01]"""
import json, os, subprocess, sys, time
VERIF = os.path.dirname(os.path.dirname(os.path.abspath(__file__)))
args = [a for a in sys.argv[1:] if not a.startswith("--")]
ids_override = None
for a in sys.argv[1:]:
    if a.startswith("--ids"):
        ids_override = a.split("=", 1)[1].split(",")
for d in args:
    d = os.path.abspath(d)
    mp = os.path.join(d, "meta.json")
    m = json.load(open(mp))
    ids = ids_override or m.get("checks") or [m["property"]]
    t0 = time.time()
    patch = os.path.join(d, "patch_head.diff") if os.path.exists(os.path.join(d, "patch_head.diff")) else os.path.join(d, "patch.diff")
    r = subprocess.run([os.path.join(VERIF, "tools", "seedtest.py"), patch] + ids,
                       stdout=subprocess.PIPE, stderr=subprocess.STDOUT, text=True)
    det = m.setdefault("detection", {})
    cur = None
    for line in r.stdout.split("\n"):
        if line.startswith("== "):
            cur = line.split()[1].rstrip(":")
            det[cur] = {"exit": int(line.rsplit(" ", 1)[1]), "violations": [], "when": time.strftime("%Y-%m-%dT%H:%M:%S")}
        elif cur and "VIOLATION" in line:
            det[cur]["violations"].append(line.strip()[:200])
        elif cur and line.strip().startswith("["):
            det[cur]["summary"] = line.strip()[:300]
    if "PATCH DOES NOT APPLY" in r.stdout:
        det["error"] = r.stdout[-400:]
    m2 = json.load(open(mp))            # re-read: confirm_seed.py may have written meanwhile
    m2.setdefault("detection", {}).update(det)
    m = m2
    json.dump(m, open(mp, "w"), indent=1, ensure_ascii=False)
    print(os.path.basename(d), {k: (v.get("exit"), len(v.get("violations", []))) for k, v in det.items() if isinstance(v, dict)},
          f"{time.time()-t0:.0f}s", flush=True)
