"""C06 static translator: lists every place in /repo/crates/compiler/src where the output style can
influence what the code does, and classifies it.

The style lives in exactly one field (`Options.style`, options.rs) and travels in two ways only:
  (a) through an `&Options` value, read by `Options::is_compressed()` / `.style` / `OutputStyle::…`;
  (b) through a `bool` parameter called `is_compressed` (`Value::to_css_string`, `Number::to_string`).
So the list is made of

  consult    a line that READS the style: `.is_compressed()`, `OutputStyle::X`, a `.style` field access,
             a local/parameter `is_compressed`, or `style` mentioned together with `Options`;
  carrier    a CALL of a function that takes the style from its caller: `Serializer::new(options, …)`,
             every free function of serializer.rs that has an `&Options` parameter (found by reading
             serializer.rs, not hard-coded), and every function with an `is_compressed: bool`
             parameter (found by reading the sources); the style ARGUMENT of the call is extracted.

Classes
  definition          options.rs itself (the field, the setter, `is_compressed()`), `pub use`
  serializer-only     inside serializer.rs (the style is the one the Serializer was constructed with —
                      every construction is itself a carrier site and classified), or the final
                      `Serializer::new(options, …)` of lib.rs that writes the output
  carrier-body        body of a function with an `is_compressed: bool` parameter (style = caller's argument)
  evaluation-pinned   a carrier call OUTSIDE the serializer whose style argument is a constant
                      (`false`, `true`, `&Options::default()`), or a `let is_compressed = <const>` local:
                      evaluation-time text, but independent of the requested style
  evaluation-live     anything else: evaluation-time code that can see the REQUESTED style.  C06 fails
                      the tie when one exists (none in the pinned tree).

Sites are keyed by (file, enclosing fn, kind, normalised text, occurrence number within the fn) — not by
line number — so moving code does not change the list, a new site does.  Regex reading of the Rust text,
no type inference.  `python3 tools/translate_style_sites.py --write-expected` regenerates the committed list
tools/data/c06_style_sites.json.
"""
import json
import os
import re
import sys

FN = re.compile(r"\bfn\s+([A-Za-z_0-9]+)")
CONSULTS = [
    ("consult:is_compressed()", re.compile(r"\.is_compressed\s*\(\s*\)")),
    ("consult:OutputStyle", re.compile(r"\bOutputStyle::[A-Z][A-Za-z]*")),
    ("consult:.style", re.compile(r"\.style\b(?!\s*\()")),
    ("consult:is_compressed-local", re.compile(r"(?<![.\w])is_compressed\b(?!\s*\()")),
    ("consult:options-style", re.compile(r"(?i)\boptions\b.*\bstyle\b|\bstyle\b.*\boptions\b")),
]
CONST_ARG = re.compile(r"^(false|true|&\s*Options::default\(\)|&\s*crate::Options::default\(\))$")
FORWARD_ARG = re.compile(r"^(self\.options|options)$")


def _strip_comments(text):
    """Blank out // comments (incl. doc comments) and /* */ comments, keep string literals and offsets."""
    out, i, n = [], 0, len(text)
    while i < n:
        c = text[i]
        if c == '"':
            j = i + 1
            while j < n and text[j] != '"':
                j += 2 if text[j] == "\\" else 1
            out.append(text[i:j + 1])
            i = j + 1
        elif c == "'" and i + 2 < n and (text[i + 2] == "'" or (text[i + 1] == "\\" and text.find("'", i + 2, i + 8) > 0)):
            j = text.find("'", i + 2) if text[i + 1] == "\\" else i + 2
            out.append(text[i:j + 1])
            i = j + 1
        elif text.startswith("//", i):
            j = text.find("\n", i)
            j = n if j < 0 else j
            out.append(" " * (j - i))
            i = j
        elif text.startswith("/*", i):
            j = text.find("*/", i + 2)
            j = n if j < 0 else j + 2
            out.append("".join(ch if ch == "\n" else " " for ch in text[i:j]))
            i = j
        else:
            out.append(c)
            i += 1
    return "".join(out)


def _norm(s):
    return re.sub(r"\s+", " ", s.strip())


def _call_args(text, open_paren):
    """Top-level arguments of the call whose `(` is at text[open_paren]."""
    depth, i, n, start, args = 0, open_paren, len(text), open_paren + 1, []
    while i < n:
        c = text[i]
        if c == '"':
            i += 1
            while i < n and text[i] != '"':
                i += 2 if text[i] == "\\" else 1
        elif c in "([{":
            depth += 1
        elif c in ")]}":
            depth -= 1
            if depth == 0:
                args.append(text[start:i])
                return [_norm(a) for a in args if a.strip() != ""], i
        elif c == "," and depth == 1:
            args.append(text[start:i])
            start = i + 1
        i += 1
    return [_norm(a) for a in args], n


def _files(repo):
    root = os.path.join(repo, "crates", "compiler", "src")
    for d, _, fs in sorted(os.walk(root)):
        for f in sorted(fs):
            if f.endswith(".rs"):
                path = os.path.join(d, f)
                try:
                    yield os.path.relpath(path, root), _strip_comments(open(path, encoding="utf-8").read())
                except OSError:
                    continue


def carriers(files):
    """name -> index of the style argument (receiver not counted), read from the sources."""
    car = {}
    for rel, text in files:
        for m in re.finditer(r"\bfn\s+([A-Za-z_0-9]+)\s*(?:<[^>(]*>)?\s*\(", text):
            args, _ = _call_args(text, m.end() - 1)
            params = [a for a in args if not re.match(r"^(&\s*(mut\s+)?|mut\s+)?self$", a)]
            for k, a in enumerate(params):
                if re.match(r"^_?is_compressed\s*:\s*bool$", a):
                    car[m.group(1)] = k
                elif rel == "serializer.rs" and re.search(r":\s*&\s*(?:'[a-z]+\s+)?Options\b", a):
                    car[m.group(1)] = k
    car.pop("new", None)
    return car


def scan(repo):
    files = list(_files(repo))
    car = carriers(files)
    sites = []
    for rel, text in files:
        lines = text.split("\n")
        offs, o = [], 0
        for ln in lines:
            offs.append(o)
            o += len(ln) + 1

        def line_of(pos):
            lo, hi = 0, len(offs) - 1
            while lo < hi:
                mid = (lo + hi + 1) // 2
                if offs[mid] <= pos:
                    lo = mid
                else:
                    hi = mid - 1
            return lo + 1
        # enclosing fn per line + which fns have an `is_compressed: bool` parameter / a constant local
        fn_at, cur = [], "-"
        for ln in lines:
            m = FN.search(ln)
            if m:
                cur = m.group(1)
            fn_at.append(cur)
        const_local = {}
        for no, ln in enumerate(lines):
            m = re.search(r"\blet\s+is_compressed\s*=\s*(true|false)\s*;", ln)
            if m:
                const_local[fn_at[no]] = m.group(1)
        found = []
        # carrier calls
        names = sorted(car, key=len, reverse=True)
        pat = re.compile(r"(?<![A-Za-z_0-9])(Serializer::new|" + "|".join(re.escape(x) for x in names) + r")\s*\(")
        call_lines = set()
        for m in pat.finditer(text):
            name = m.group(1)
            before = text[max(0, m.start() - 4):m.start()]
            if before.endswith("fn "):
                continue                       # the definition, not a call
            is_method = before.endswith(".")
            if name == "to_string" and not is_method:
                continue
            args, _ = _call_args(text, m.end() - 1)
            idx = 0 if name == "Serializer::new" else car[name]
            if name == "to_string" and len(args) != 1:
                continue                       # ToString::to_string()
            if idx >= len(args):
                continue
            arg = args[idx]
            no = line_of(m.start())
            call_lines.add(no)
            if rel == "serializer.rs" and FORWARD_ARG.match(arg):
                cls = "serializer-only"
            elif rel == "lib.rs" and name == "Serializer::new" and FORWARD_ARG.match(arg):
                cls = "serializer-only"
            elif CONST_ARG.match(arg):
                cls = "evaluation-pinned"
            elif rel != "serializer.rs" and fn_at[no - 1] in car and re.search(r"\bis_compressed\b", arg) \
                    and re.fullmatch(r"[&\s\w:.(){}]*", arg) and not re.search(r"\boptions\b", arg):
                cls = "carrier-body"           # style = the bool parameter of the enclosing carrier
            else:
                cls = "evaluation-live"
            found.append({"file": rel, "fn": fn_at[no - 1], "kind": "carrier:" + name, "arg": arg, "class": cls,
                          "text": _norm(f"{name}(…{arg})"), "line": no})
        # consults
        for no, ln in enumerate(lines, 1):
            s = ln.strip()
            if not s or s.startswith("use ") or s.startswith("pub use "):
                continue
            for kind, rx in CONSULTS:
                if not rx.search(ln):
                    continue
                if kind == "consult:options-style" and any(r.search(ln) for k2, r in CONSULTS[:3]):
                    continue
                if kind == "consult:options-style" and rel == "options.rs":
                    continue
                f = fn_at[no - 1]
                if rel == "options.rs":
                    cls = "definition"
                elif rel == "serializer.rs":
                    cls = "serializer-only"
                elif kind == "consult:is_compressed-local" and f in const_local:
                    cls = "evaluation-pinned"
                elif f in car and rel != "serializer.rs" and re.search(r"\bis_compressed\b", ln) \
                        or (f in car and kind == "consult:OutputStyle"):
                    cls = "carrier-body"
                else:
                    cls = "evaluation-live"
                found.append({"file": rel, "fn": f, "kind": kind, "arg": "", "class": cls, "text": _norm(ln), "line": no})
                break
        found.sort(key=lambda s: (s["line"], s["kind"]))
        occ = {}
        for s in found:
            k = (s["fn"], s["kind"], s["text"])
            occ[k] = occ.get(k, 0) + 1
            s["occ"] = occ[k]
        sites += found
    return sites, car


def key(site):
    return f"{site['file']}::{site['fn']}::{site['kind']}::{site['text']}#{site['occ']}"


EXPECTED_PATH = os.path.join(os.path.dirname(os.path.abspath(__file__)), "data", "c06_style_sites.json")


def compare(repo):
    """Returns (sites, carriers, new_keys, gone_keys, reclassified_keys, expected_count); the three lists are
    None when the committed list is missing."""
    sites, car = scan(repo)
    try:
        expected = json.load(open(EXPECTED_PATH))["sites"]
    except (OSError, ValueError, KeyError):
        return sites, car, None, None, None, 0
    have = {key(s): s["class"] for s in sites}
    new = sorted(k for k in have if k not in expected)
    gone = sorted(k for k in expected if k not in have)
    recl = sorted(k for k in have if k in expected and expected[k] != have[k])
    return sites, car, new, gone, recl, len(expected)


if __name__ == "__main__":
    repo = os.environ.get("GRASS_REPO", "/repo")
    if len(sys.argv) > 1 and sys.argv[1] == "--write-expected":
        sites, car = scan(repo)
        os.makedirs(os.path.dirname(EXPECTED_PATH), exist_ok=True)
        with open(EXPECTED_PATH, "w") as f:
            json.dump({"comment": "C06: style consult / carrier sites of the pinned tree with their class "
                                  "(tools/translate_style_sites.py --write-expected)",
                       "carriers": car, "sites": {key(s): s["class"] for s in sites}}, f, indent=1, sort_keys=True)
        print(len(sites), "sites written;", "carriers:", car)
    else:
        sites, car, new, gone, recl, n = compare(repo)
        print("carriers:", car)
        print(len(sites), "sites;", "expected list missing" if new is None else
              f"{len(new)} new, {len(gone)} gone, {len(recl)} reclassified (expected {n})")
        for s in sites:
            print(f"{s['file']}:{s['line']} [{s['fn']}] {s['class']:18} {s['kind']}: {s['text'][:100]}")
