"""C02 static translator: lists every place in /repo/crates/compiler/src where a container whose
iteration order is NOT a function of the source text is declared or iterated:

  * `BTreeMap/BTreeSet` keyed by `Identifier` (order = interning order = thread history),
  * `HashMap/HashSet` (and the crate's wrappers around them) (order = per-hasher random state).

It is a regex reading of the Rust text (no type inference): a *declaration site* is a line that
names such a type; an *iteration site* is a line in the same file that calls an iterating method
(`iter`, `keys`, `values`, `into_iter`, `drain`, `retain`, `extend`, `for … in`) on a name that a
declaration site bound to such a type, or on a call known to return one (`.keywords()`,
`.into_keywords()`, `.keys()` of a map view …).  Sites are keyed by (file, enclosing fn, normalised
line text) — not by line number — so that moving code does not change the list but a NEW
container or a NEW iteration does.  The list goes into the evidence of C02; sites missing from
`EXPECTED` are flagged there (a new site is not a violation by itself: it is a place to look).
"""
import json
import os
import re
import sys

ORDER_BY_KEY = re.compile(r"\bBTree(Map|Set)<\s*(Spanned<)?Identifier\b")
HASHED = re.compile(r"\bHash(Map|Set)\b|\bSelectorHashSet\b|\bComplexSelectorHashSet\b|\bGlobalFunctionMap\b")
# wrappers / accessors that hand out such containers
WRAPPERS = re.compile(r"\bBaseMapView\b|\bMergedMapView\b|\bLimitedMapView\b|\bPrefixedMapView\b|\bPublicMemberMapView\b")
ITER_CALL = re.compile(
    r"\.(iter|iter_mut|into_iter|keys|values|values_mut|into_keys|into_values|drain|retain|extend|first|last|"
    r"first_key_value|last_key_value|pop_first|pop_last|next)\s*\(")
FOR_IN = re.compile(r"\bfor\s+.+\s+in\s+(.+?)\s*\{?\s*$")
FN = re.compile(r"\bfn\s+([A-Za-z_0-9]+)")
BIND = [
    re.compile(r"\b(?:pub(?:\([a-z]+\))?\s+)?([a-z_][a-z_0-9]*)\s*:\s*[^,;=]*?(?:BTree(?:Map|Set)<\s*(?:Spanned<)?Identifier|Hash(?:Map|Set)|SelectorHashSet|ComplexSelectorHashSet|GlobalFunctionMap)"),
    re.compile(r"\blet\s+(?:mut\s+)?([a-z_][a-z_0-9]*)\s*(?::[^=]*)?=\s*(?:BTree(?:Map|Set)|Hash(?:Map|Set)|SelectorHashSet|ComplexSelectorHashSet)::"),
    re.compile(r"\blet\s+(?:mut\s+)?([a-z_][a-z_0-9]*)\s*:\s*(?:BTree(?:Map|Set)<\s*Identifier|Hash(?:Map|Set))"),
]
# method calls that return an Identifier-keyed BTreeMap / a hash container
RETURNING = re.compile(r"\.(keywords|into_keywords|global_vars|global_variables|global_functions|global_mixins)\s*\(\)")


def _norm(line):
    return re.sub(r"\s+", " ", line.strip())


def _strip_comment(line):
    i = line.find("//")
    return line if i < 0 else line[:i]


def scan(repo):
    root = os.path.join(repo, "crates", "compiler", "src")
    sites = []
    for d, _, fs in sorted(os.walk(root)):
        for f in sorted(fs):
            if not f.endswith(".rs"):
                continue
            path = os.path.join(d, f)
            rel = os.path.relpath(path, root)
            if rel.startswith("unit" + os.sep):
                continue            # static conversion tables: looked up, never iterated into output
            try:
                lines = open(path, encoding="utf-8").read().split("\n")
            except OSError:
                continue
            names, keyed_names = set(), set()
            for raw in lines:
                line = _strip_comment(raw)
                if line.lstrip().startswith("use "):
                    continue
                for b in BIND:
                    for m in b.finditer(line):
                        names.add(m.group(1))
            cur_fn = "-"
            for no, raw in enumerate(lines, 1):
                line = _strip_comment(raw)
                s = line.strip()
                if not s or s.startswith("use ") or s.startswith("#[") or re.match(r"(collections|hash_set)::", s) \
                        or re.match(r"[A-Z][A-Za-z, ]+,$", s):
                    continue            # imports
                m = FN.search(line)
                if m:
                    cur_fn = m.group(1)
                kind = None
                if ORDER_BY_KEY.search(line):
                    kind = "decl:btree<Identifier>"
                elif HASHED.search(line):
                    kind = "decl:hash"
                elif WRAPPERS.search(line) and ("struct" in line or "::new" in line or "(Arc::new" in line):
                    kind = "decl:mapview"
                if kind is None:
                    target = None
                    fm = FOR_IN.search(line)
                    if fm:
                        target = fm.group(1)
                    elif ITER_CALL.search(line) or RETURNING.search(line):
                        target = line
                    if target is not None:
                        idents = set(re.findall(r"[a-z_][a-z_0-9]*", target))
                        if idents & names or RETURNING.search(target):
                            kind = "iter"
                if kind:
                    sites.append({"file": rel, "fn": cur_fn, "kind": kind, "text": _norm(line), "line": no})
    return sites


def key(site):
    return f"{site['file']}::{site['fn']}::{site['kind']}::{site['text']}"


EXPECTED_PATH = os.path.join(os.path.dirname(os.path.abspath(__file__)), "data", "c02_iter_sites.json")


def compare(repo):
    """Returns (sites, new_keys, gone_keys, expected_count)."""
    sites = scan(repo)
    try:
        expected = set(json.load(open(EXPECTED_PATH))["sites"])
    except (OSError, ValueError, KeyError):
        expected = None
    have = {key(s) for s in sites}
    if expected is None:
        return sites, None, None, 0
    return sites, sorted(have - expected), sorted(expected - have), len(expected)


# --------------------------------------------------------------------------------------------
# global state: every item of the workspace that can outlive one compilation
# --------------------------------------------------------------------------------------------

GLOBAL_DECL = re.compile(
    r"^\s*(?:pub(?:\([a-z]+\))?\s+)?(?:(thread_local!\s*[({]\s*(?:pub(?:\([a-z]+\))?\s+)?static)|(lazy_static!)|(static))\s+(mut\s+)?([A-Za-z_][A-Za-z_0-9]*)\s*:\s*(.*)$")
INTERIOR = re.compile(r"\b(RefCell|Cell|Mutex|RwLock|Atomic[A-Z][A-Za-z0-9]*|OnceCell|OnceLock|UnsafeCell)\b")
GLOBAL_OUT = os.path.join(os.path.dirname(os.path.abspath(__file__)), "..", "lean", "Grass", "Generated", "GlobalState.lean")
GLOBAL_EXPECTED = os.path.join(os.path.dirname(os.path.abspath(__file__)), "data", "c02_global_state.json")


def scan_globals(repo):
    """Every `static` / `static mut` / `thread_local!` / `lazy_static!` item in crates/*/src (tests and
    doc comments excluded), with a class read off its declared type:
      thread-local   `thread_local!` — one value per thread, lives as long as the thread
      counter        an `Atomic*` (only `fetch_add`/`load` style writes after initialisation)
      const-after-init   no interior mutability in the declared type (`Lazy<T>`/`once_cell` initialise once) and not `static mut`
      unknown        anything else (`static mut`, `Mutex<…>`, `RefCell` outside thread_local, …)"""
    out = []
    for crate in sorted(os.listdir(os.path.join(repo, "crates"))):
        root = os.path.join(repo, "crates", crate, "src")
        for d, _, fs in sorted(os.walk(root)):
            for f in sorted(fs):
                if not f.endswith(".rs"):
                    continue
                path = os.path.join(d, f)
                try:
                    lines = open(path, encoding="utf-8").read().split("\n")
                except OSError:
                    continue
                for no, raw in enumerate(lines, 1):
                    if raw.lstrip().startswith("//"):
                        continue
                    line = _strip_comment(raw)
                    m = GLOBAL_DECL.match(line)
                    if not m:
                        if re.search(r"\b(thread_local!|lazy_static!)", line) and not line.lstrip().startswith("use "):
                            # macro opened on its own line: the static follows; take the next `static` line
                            for k in range(no, min(no + 4, len(lines))):
                                m2 = re.match(r"^\s*(?:pub(?:\([a-z]+\))?\s+)?static\s+(?:ref\s+)?(mut\s+)?([A-Za-z_][A-Za-z_0-9]*)\s*:\s*(.*)$", lines[k])
                                if m2:
                                    ty = m2.group(3)
                                    tl = "thread_local!" in line
                                    out.append({"file": os.path.relpath(path, repo), "line": k + 1, "name": m2.group(2),
                                                "decl": _norm(lines[k])[:160],
                                                "cls": "thread-local" if tl else ("unknown" if INTERIOR.search(ty.split("=")[0]) else "const-after-init")})
                                    break
                        continue
                    tl, lz, st, mut, name, ty = m.groups()
                    ty_decl = ty.split("=")[0]
                    if tl:
                        cls = "thread-local"
                    elif mut:
                        cls = "unknown"
                    elif re.search(r"\bAtomic[A-Z]", ty_decl):
                        cls = "counter"
                    elif INTERIOR.search(ty_decl):
                        cls = "unknown"
                    else:
                        cls = "const-after-init"
                    out.append({"file": os.path.relpath(path, repo), "line": no, "name": name, "decl": _norm(line)[:160], "cls": cls})
    seen, uniq = set(), []
    for g in out:
        k = (g["file"], g["name"])
        if k not in seen:
            seen.add(k)
            uniq.append(g)
    return uniq


def _lean_str(s):
    return '"' + s.replace("\\", "\\\\").replace('"', '\\"') + '"'


def render_globals(items):
    cls = {"thread-local": ".threadLocal", "counter": ".counter", "const-after-init": ".constAfterInit", "unknown": ".unknown"}
    L = ["/- GENERATED by tools/translate_iter_sites.py (scan_globals) from /repo/crates/*/src — do not edit.",
         "   Every `static` / `thread_local!` / `lazy_static!` item of the workspace: the complete list of state",
         "   declared by grass itself that can outlive one compilation, with a class read off the declared type. -/",
         "namespace Grass.Generated.GlobalState", "",
         "inductive GlobalClass where", "  | constAfterInit | threadLocal | counter | unknown", "  deriving DecidableEq, Repr, Inhabited", "",
         "structure GlobalItem where", "  file : String", "  name : String", "  decl : String", "  cls : GlobalClass", "  deriving Repr, Inhabited", "",
         "def globalState : List GlobalItem := ["]
    L.append(",\n".join(f"  {{ file := {_lean_str(g['file'])}, name := {_lean_str(g['name'])}, decl := {_lean_str(g['decl'])}, cls := {cls[g['cls']]} }}"
                        for g in items) + "]")
    L += ["", "end Grass.Generated.GlobalState", ""]
    return "\n".join(L)


def generate_globals(repo, write=True):
    """Regenerates Grass/Generated/GlobalState.lean; returns (items, changed, new, gone) against the committed list."""
    items = scan_globals(repo)
    text = render_globals(items)
    out = os.path.normpath(GLOBAL_OUT)
    old = open(out, encoding="utf-8").read() if os.path.exists(out) else None
    changed = old != text
    if write and changed:
        tmp = out + f".tmp{os.getpid()}"
        with open(tmp, "w", encoding="utf-8") as f:
            f.write(text)
        os.replace(tmp, out)
    try:
        expected = set(json.load(open(GLOBAL_EXPECTED))["items"])
    except (OSError, ValueError, KeyError):
        expected = None
    have = {f"{g['file']}::{g['name']}::{g['cls']}" for g in items}
    if expected is None:
        return items, changed, None, None
    return items, changed, sorted(have - expected), sorted(expected - have)


if __name__ == "__main__":
    repo = os.environ.get("GRASS_REPO", "/repo")
    if len(sys.argv) > 1 and sys.argv[1] == "--globals":
        items, changed, new, gone = generate_globals(repo)
        if "--write-expected" in sys.argv:
            with open(GLOBAL_EXPECTED, "w") as f:
                json.dump({"comment": "C02: static/thread_local items of the pinned tree (tools/translate_iter_sites.py --globals)",
                           "items": sorted(f"{g['file']}::{g['name']}::{g['cls']}" for g in items)}, f, indent=1)
        print(len(items), "global items; changed:", changed, "new:", new, "gone:", gone)
        for g in items:
            print(f"{g['file']}:{g['line']} {g['name']} [{g['cls']}] {g['decl'][:100]}")
    elif len(sys.argv) > 1 and sys.argv[1] == "--write-expected":
        sites = scan(repo)
        os.makedirs(os.path.dirname(EXPECTED_PATH), exist_ok=True)
        with open(EXPECTED_PATH, "w") as f:
            json.dump({"comment": "C02: container declaration/iteration sites of the pinned tree (tools/translate_iter_sites.py)",
                       "sites": sorted({key(s) for s in sites})}, f, indent=1)
        print(len(sites), "sites written")
    else:
        sites, new, gone, n = compare(repo)
        print(len(sites), "sites;", "expected list missing" if new is None else f"{len(new)} new, {len(gone)} gone (expected {n})")
        for s in sites:
            print(f"{s['file']}:{s['line']} [{s['fn']}] {s['kind']}: {s['text'][:110]}")
