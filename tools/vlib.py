"""Shared machinery for the grass verification checks (orchestrator side).

Nothing in here decides a property: it builds the Lean project and the Rust runner, audits
axioms, runs the model driver and the implementation on the same cases, and writes evidence,
replay files and the VIOLATION / KNOWN-FINDING lines.
"""
import fcntl
import hashlib
import json
import os
import queue
import random
import re
import select
import subprocess
import sys
import threading
import time

VERIF = os.path.dirname(os.path.dirname(os.path.abspath(__file__)))
REPO = os.environ.get("GRASS_REPO", "/repo")
LEAN = os.path.join(VERIF, "lean")
BUILD = os.path.join(VERIF, ".build")
# ALT mode: GRASS_REPO=<other tree> runs the same checks against a scratch copy/worktree of grass
# (used to try seeded changes without touching /repo); it gets its own runner copy, cargo target
# and evidence/replay directories so nothing of the real run is overwritten.
ALT = REPO.rstrip("/") != "/repo"
_ALT_DIR = os.path.join(BUILD, "alt-" + hashlib.sha1(REPO.encode()).hexdigest()[:10])
RUNNER_SRC = os.path.join(_ALT_DIR, "runner") if ALT else os.path.join(VERIF, "runner")
CARGO_TARGET = os.path.join(_ALT_DIR, "cargo") if ALT else os.path.join(BUILD, "cargo")
RUNNER_BIN = os.path.join(CARGO_TARGET, "debug", "grass_verif_runner")
DRIVER_BIN = os.path.join(LEAN, ".lake", "build", "bin", "driver")
EVIDENCE = os.path.join(_ALT_DIR, "evidence") if ALT else os.path.join(VERIF, "evidence")
REPLAYS = os.path.join(_ALT_DIR, "replays") if ALT else os.path.join(VERIF, "replays")
KNOWN = os.path.join(VERIF, "known-findings.json")
KNOWN_D = os.path.join(VERIF, "known-findings.d")
ALLOWED_AXIOMS = {"propext", "Classical.choice", "Quot.sound"}
FORBIDDEN = re.compile(
    r"\bsorry\b|\badmit\b|^\s*axiom\s|native_decide|bv_decide|implemented_by|\bunsafe\s|maxHeartbeats\s+0|@\[extern"
)

os.makedirs(BUILD, exist_ok=True)


def log(*a):
    print(*a, file=sys.stderr, flush=True)


class Lock:
    """flock-based lock so checks started in parallel do not build on top of each other."""

    def __init__(self, name):
        self.path = os.path.join(BUILD, name + ".lock")

    def __enter__(self):
        self.f = open(self.path, "w")
        fcntl.flock(self.f, fcntl.LOCK_EX)
        return self

    def __exit__(self, *a):
        fcntl.flock(self.f, fcntl.LOCK_UN)
        self.f.close()


def sh(cmd, cwd=None, env=None, timeout=None):
    e = dict(os.environ)
    e.update({"CARGO_NET_OFFLINE": "true"})
    if env:
        e.update(env)
    p = subprocess.run(cmd, cwd=cwd, env=e, stdout=subprocess.PIPE, stderr=subprocess.STDOUT,
                       text=True, timeout=timeout)
    return p.returncode, p.stdout


# --------------------------------------------------------------------------------------------
# Lean side
# --------------------------------------------------------------------------------------------

def strip_comments(src):
    """Remove Lean comments (nested block comments and line comments), keep strings intact enough
    for the forbidden-token scan."""
    out = []
    i, n, depth = 0, len(src), 0
    while i < n:
        if src.startswith("/-", i):
            depth += 1
            i += 2
        elif depth and src.startswith("-/", i):
            depth -= 1
            i += 2
        elif depth:
            if src[i] == "\n":
                out.append("\n")
            i += 1
        elif src.startswith("--", i):
            while i < n and src[i] != "\n":
                i += 1
        else:
            out.append(src[i])
            i += 1
    return "".join(out)


def scan_forbidden(files):
    hits = []
    for f in files:
        try:
            src = strip_comments(open(f).read())
        except OSError:
            continue
        for ln, line in enumerate(src.split("\n"), 1):
            if FORBIDDEN.search(line):
                hits.append(f"{os.path.relpath(f, VERIF)}:{ln}: {line.strip()[:120]}")
    return hits


def lean_files():
    r = []
    for d in ("Grass", "GrassProofs"):
        for root, _, fs in os.walk(os.path.join(LEAN, d)):
            r += [os.path.join(root, f) for f in fs if f.endswith(".lean")]
    r.append(os.path.join(LEAN, "Main.lean"))
    return sorted(r)


def module_closure(roots):
    """Lean source files of this project transitively imported by the given modules."""
    seen, todo = {}, list(roots)
    while todo:
        m = todo.pop()
        if m in seen:
            continue
        path = os.path.join(LEAN, *m.split(".")) + ".lean"
        if not os.path.exists(path):
            continue
        seen[m] = path
        for im in re.findall(r"^\s*import\s+([A-Za-z0-9_.]+)", open(path).read(), flags=re.M):
            if im.split(".")[0] in ("Grass", "GrassProofs", "Drivers"):
                todo.append(im)
    return sorted(seen.values())


def lake_build(targets, timeout=3000):
    with Lock("lake"):
        rc, out = sh(["lake", "build"] + list(targets), cwd=LEAN, timeout=timeout)
    return rc, out


AUDIT_TMPL = """import Lean
import {module}
open Lean Elab Command
run_cmd do
  let env ← getEnv
  let pre := "{prefix}"
  let mut names : Array Name := #[]
  for (n, ci) in env.constants.toList do
    match n with
    | .str _ s =>
      if s.startsWith pre then
        match ci with
        | .thmInfo _ => names := names.push n
        | _ => pure ()
    | _ => pure ()
  for n in names.qsort (fun a b => a.toString < b.toString) do
    let ax ← Lean.collectAxioms n
    logInfo m!"AXIOMS {{n}} := {{ax.qsort (fun a b => a.toString < b.toString)}}"
"""


def audit_axioms(prop, module=None):
    """#print-axioms style audit of every theorem whose name starts with `<prop>_`.
    Returns (ok, {theorem: [axioms]}, raw_output)."""
    module = module or f"GrassProofs.{prop}"
    path = os.path.join(BUILD, f"audit_{prop}.lean")
    with open(path, "w") as f:
        f.write(AUDIT_TMPL.format(module=module, prefix=prop + "_"))
    rc, out = sh(["lake", "env", "lean", path], cwd=LEAN, timeout=1800)
    thms = {}
    for m in re.finditer(r"AXIOMS (\S+) := \[(.*?)\]", out):
        thms[m.group(1)] = [a.strip() for a in m.group(2).split(",") if a.strip()]
    ok = rc == 0 and bool(thms) and all(set(v) <= ALLOWED_AXIOMS for v in thms.values())
    return ok, thms, out


def prove(prop, cores=(), extra_targets=()):
    """(a) PROOF step: build the property's theorem module and the per-core drivers it uses, scan
    for forbidden tokens, audit axioms.  Returns a dict describing the outcome (never raises)."""
    t0 = time.time()
    res = {"module": f"GrassProofs.{prop}", "ok": False, "theorems": {}, "lean_error": None,
           "forbidden": []}
    rc, out = lake_build([f"GrassProofs.{prop}"] + [f"drv_{c}" for c in cores] + list(extra_targets))
    if rc != 0:
        res["lean_error"] = "\n".join(l for l in out.split("\n") if not l.startswith("trace:"))[-4000:]
        res["wall_s"] = time.time() - t0
        return res
    core_mods = {"media": "Media", "num": "Num", "units": "Units", "value": "Value", "blt": "Builtins",
                 "color": "Color", "calc": "Calc", "import": "Import", "scope": "Scope", "eval": "Eval",
                 "csstree": "CssTree", "ser": "Serialize", "sel": "Selector", "ext": "Extend",
                 "module": "Module", "lex": "Lexer", "diag": "Diag", "cli": "Cli", "intern": "Interner"}
    res["scanned_files"] = [os.path.relpath(f, VERIF) for f in module_closure(
        [f"GrassProofs.{prop}"] + [f"Drivers.{core_mods[c]}" for c in cores if c in core_mods])]
    res["forbidden"] = scan_forbidden([os.path.join(VERIF, f) for f in res["scanned_files"]])
    ok, thms, raw = audit_axioms(prop)
    res["theorems"] = thms
    if not ok:
        res["lean_error"] = "axiom audit failed:\n" + raw[-3000:]
    res["ok"] = ok and not res["forbidden"]
    res["wall_s"] = time.time() - t0
    return res


def _driver_one(core, lines, timeout):
    exe = os.path.join(LEAN, ".lake", "build", "bin", f"drv_{core}")
    p = subprocess.run([exe], input="\n".join(lines) + "\n", stdout=subprocess.PIPE,
                       stderr=subprocess.PIPE, text=True, timeout=timeout)
    out = p.stdout.split("\n")
    if out and out[-1] == "":
        out.pop()
    if len(out) != len(lines):
        raise RuntimeError(f"drv_{core} answered {len(out)} lines for {len(lines)} requests "
                           f"(rc={p.returncode}); stderr={p.stderr[-2000:]}")
    return out


def driver(lines, timeout=1800):
    """Run the compiled model driver(s) on a batch of request lines (`<core> <op> <args…>`, one
    answer line each, order kept).  Lines are routed by their first token to `drv_<core>`;
    `ping` answers `pong` locally."""
    lines = [l.replace("\n", " ") for l in lines]
    by_core = {}
    for i, l in enumerate(lines):
        core = l.split(" ", 1)[0]
        by_core.setdefault(core, []).append(i)
    res = [None] * len(lines)
    for core, idxs in by_core.items():
        if core == "ping":
            for i in idxs:
                res[i] = "pong"
            continue
        outs = _driver_one(core, [lines[i] for i in idxs], timeout)
        for i, o in zip(idxs, outs):
            res[i] = o
    return res


def hexs(s):
    b = s.encode("utf-8") if isinstance(s, str) else bytes(s)
    return b.hex() if b else "-"


def unhex(h):
    return "" if h == "-" else bytes.fromhex(h).decode("utf-8", "replace")


# --------------------------------------------------------------------------------------------
# Implementation side
# --------------------------------------------------------------------------------------------

def build_runner():
    """Rebuild the runner (and therefore grass_compiler) from /repo's current working tree."""
    import shutil
    if ALT:
        os.makedirs(os.path.join(RUNNER_SRC, "src"), exist_ok=True)
        src = os.path.join(VERIF, "runner")
        toml = open(os.path.join(src, "Cargo.toml")).read().replace("/repo/crates/compiler", os.path.join(REPO, "crates/compiler"))
        open(os.path.join(RUNNER_SRC, "Cargo.toml"), "w").write(toml)
        shutil.copy(os.path.join(src, "src", "main.rs"), os.path.join(RUNNER_SRC, "src", "main.rs"))
        os.makedirs(os.path.join(RUNNER_SRC, ".cargo"), exist_ok=True)
        shutil.copy(os.path.join(src, ".cargo", "config.toml"), os.path.join(RUNNER_SRC, ".cargo", "config.toml"))
    lockfile = os.path.join(RUNNER_SRC, "Cargo.lock")
    with Lock("cargo" + ("-" + os.path.basename(_ALT_DIR) if ALT else "")):
        if not os.path.exists(lockfile):
            base = os.path.join(VERIF, "runner", "Cargo.lock")
            shutil.copy(base if os.path.exists(base) else os.path.join(REPO, "Cargo.lock"), lockfile)
        rc, out = sh(["cargo", "build", "--offline", "--quiet"], cwd=RUNNER_SRC,
                     env={"CARGO_TARGET_DIR": CARGO_TARGET}, timeout=3000)
    if rc != 0:
        errs = "\n".join(l for l in out.split("\n") if "warning" not in l)[-4000:]
        return False, errs
    return True, ""


_CLI_TARGET = os.path.join(_ALT_DIR, "repo-target") if ALT else os.path.join(BUILD, "repo-target")
GRASS_BIN = os.path.join(_CLI_TARGET, "debug", "grass")


def build_cli():
    with Lock("cargo-cli" + ("-" + os.path.basename(_ALT_DIR) if ALT else "")):
        rc, out = sh(["cargo", "build", "--offline", "--quiet", "-p", "grass"], cwd=REPO,
                     env={"CARGO_TARGET_DIR": _CLI_TARGET}, timeout=3000)
    return rc == 0, out[-4000:]


class _Worker:
    def __init__(self):
        self.p = None

    def start(self):
        self.p = subprocess.Popen([RUNNER_BIN], stdin=subprocess.PIPE, stdout=subprocess.PIPE,
                                  stderr=subprocess.DEVNULL, cwd=BUILD)
        self.buf = b""

    def stop(self):
        if self.p:
            try:
                self.p.kill()
                self.p.wait(timeout=5)
            except Exception:
                pass
            self.p = None

    def run(self, job, timeout):
        if self.p is None or self.p.poll() is not None:
            self.start()
        try:
            self.p.stdin.write((json.dumps(job) + "\n").encode())
            self.p.stdin.flush()
        except (BrokenPipeError, OSError):
            self.stop()
            return {"status": "abort", "why": "runner died before accepting the job"}
        deadline = time.time() + timeout
        fd = self.p.stdout.fileno()
        while True:
            nl = self.buf.find(b"\n")
            if nl >= 0:
                line, self.buf = self.buf[:nl], self.buf[nl + 1:]
                try:
                    return json.loads(line)
                except ValueError:
                    return {"status": "bad-answer", "raw": line[:200].decode("utf-8", "replace")}
            left = deadline - time.time()
            if left <= 0:
                self.stop()
                return {"status": "timeout"}
            r, _, _ = select.select([fd], [], [], left)
            if not r:
                continue
            chunk = os.read(fd, 1 << 16)
            if not chunk:
                rc = self.p.poll()
                self.stop()
                return {"status": "abort", "why": f"runner exited (rc={rc}) during the job"}
            self.buf += chunk


class RunnerPool:
    """N runner processes; `map` keeps job order.  A hang or abort costs one worker and is
    attributed to exactly one job; timeouts are confirmed by re-running the job alone with a
    10x budget (load on a shared box must not look like a hang)."""

    def __init__(self, n=None):
        self.n = n or min(16, os.cpu_count() or 4)

    def map(self, jobs, timeout=5.0, confirm=True):
        jobs = list(jobs)
        res = [None] * len(jobs)
        q = queue.Queue()
        for i, j in enumerate(jobs):
            q.put((i, j))

        def work():
            w = _Worker()
            while True:
                try:
                    i, j = q.get_nowait()
                except queue.Empty:
                    break
                res[i] = w.run(j, timeout)
            w.stop()

        ts = [threading.Thread(target=work) for _ in range(min(self.n, max(1, len(jobs))))]
        for t in ts:
            t.start()
        for t in ts:
            t.join()
        if confirm:
            w = _Worker()
            for i, r in enumerate(res):
                if r.get("status") in ("timeout", "abort"):
                    r2 = w.run(jobs[i], timeout * 10)
                    r2["first_attempt"] = r.get("status")
                    res[i] = r2
            w.stop()
        return res


def compile_job(src=None, style=None, syntax=None, files=None, entry=None, **opts):
    j = {"mode": "compile"}
    if src is not None:
        j["input"] = src
    if files:
        j["files"] = files
    if entry:
        j["entry"] = entry
    o = dict(opts)
    for top in ("logger", "fs", "stack_mb"):       # job-level (not Options) fields
        if top in o:
            j[top] = o.pop(top)
    if style:
        o["style"] = style
    if syntax:
        o["syntax"] = syntax
    j["options"] = o
    return j


# --------------------------------------------------------------------------------------------
# Known findings, replays, evidence
# --------------------------------------------------------------------------------------------

def known_findings(prop):
    """Entries of known-findings.json (and known-findings.d/*.json while several builders work in
    parallel) with status "known" for this property.  Read-only: never written at run time."""
    out = []
    paths = [KNOWN] + sorted(
        os.path.join(KNOWN_D, f) for f in (os.listdir(KNOWN_D) if os.path.isdir(KNOWN_D) else []) if f.endswith(".json"))
    for p in paths:
        try:
            ks = json.load(open(p))
        except (OSError, ValueError):
            continue
        out += [k for k in ks.get("findings", []) if k.get("property") == prop and k.get("status") == "known"]
    return out


def sha(obj):
    return hashlib.sha1(json.dumps(obj, sort_keys=True, default=str).encode()).hexdigest()[:12]


FINGERPRINTS = os.path.join(VERIF, "tools", "data", "fingerprints.json")


def anchor_files(prop):
    for l in open(os.path.join(VERIF, "properties.jsonl")):
        p = json.loads(l)
        if p["id"] == prop:
            return p["anchors"]["files"]
    return []


def source_hashes(prop):
    out = {}
    for f in anchor_files(prop):
        try:
            out[f] = hashlib.sha1(open(os.path.join(REPO, f), "rb").read()).hexdigest()[:16]
        except OSError:
            out[f] = "missing"
    return out


def changed_sources(prop):
    """Anchor files of the property whose content differs from the snapshot against which the
    hand-written model was last validated (tools/data/fingerprints.json).  Not a violation by
    itself: checks use it to enlarge the search and it is written into the evidence."""
    try:
        ref = json.load(open(FINGERPRINTS)).get(prop, {})
    except (OSError, ValueError):
        return []
    now = source_hashes(prop)
    return sorted(f for f in now if ref.get(f) not in (None, now[f]))


class Check:
    """One run of one property's check."""

    def __init__(self, prop, tier, seed, level="proof"):
        self.prop, self.tier, self.seed, self.level = prop, tier, seed, level
        self.rng = random.Random((seed << 8) ^ int(hashlib.sha1(prop.encode()).hexdigest()[:6], 16))
        self.t0 = time.time()
        self.violations = []          # (kind, replay path, suffix)
        self.known_seen = []
        self.cov = {"evaluations": 0, "distinct_nontrivial": 0, "samples": [], "rule": "",
                    "model_disagreements": 0, "impl_property_failures": 0, "unsupported_dropped": 0,
                    "histogram": {}}
        self._distinct = set()
        self.assumptions = []
        self.proof = None
        self.notes = []
        self.changed = changed_sources(prop)
        if self.changed:
            self.notes.append("modelled sources changed since the model was last validated: " + ", ".join(self.changed))

    # -- counters ---------------------------------------------------------------------------
    def count(self, case_key, nontrivial=True):
        self.cov["evaluations"] += 1
        if nontrivial:
            self._distinct.add(sha(case_key) if not isinstance(case_key, str) else case_key)

    def hist(self, key, n=1):
        h = self.cov["histogram"]
        h[key] = h.get(key, 0) + n

    def sample(self, s, cap=8):
        if len(self.cov["samples"]) < cap:
            self.cov["samples"].append(s)

    # -- steps ------------------------------------------------------------------------------
    def do_prove(self, cores=(), extra_targets=()):
        self.proof = prove(self.prop, cores, extra_targets)
        if self.proof["ok"] and self.tier == "thorough":
            # independent re-check of the compiled theorem module by Lean's external checker
            rc, out = sh(["lake", "env", "leanchecker", f"GrassProofs.{self.prop}"], cwd=LEAN, timeout=3600)
            self.proof["leanchecker"] = {"rc": rc, "output": out[-500:]}
            if rc != 0:
                self.proof["ok"] = False
                self.proof["lean_error"] = "leanchecker rejected the module:\n" + out[-2000:]
        if not self.proof["ok"]:
            log(f"[{self.prop}] PROOF STEP FAILED:\n{self.proof.get('lean_error')}\n{self.proof.get('forbidden')}")
        return self.proof["ok"]

    def do_build_runner(self):
        ok, err = build_runner()
        if not ok:
            log(f"[{self.prop}] runner build failed:\n{err}")
            self.build_error = err
        return ok

    # -- reporting --------------------------------------------------------------------------
    def write_replay(self, kind, payload):
        os.makedirs(REPLAYS, exist_ok=True)
        body = {"property": self.prop, "kind": kind, "seed": self.seed, "tier": self.tier}
        body.update(payload)
        path = os.path.join(REPLAYS, f"{self.prop}-{sha(body)}.json")
        with open(path, "w") as f:
            json.dump(body, f, indent=1, default=str)
        return path

    def match_known(self, case_text, tags=()):
        """A violation is attributed to a known finding only if the (shrunk) case satisfies the
        entry's match: an exact input, a substring marker set, or a named class tag."""
        for k in known_findings(self.prop):
            m = k.get("match", {})
            if m.get("kind") == "input" and case_text is not None and m.get("input") == case_text:
                return k
            if m.get("kind") == "class" and m.get("class") in tags:
                return k
        return None

    def impl_violation(self, case_text, payload, tags=()):
        """The implementation itself breaks the property on a concrete case."""
        self.cov["impl_property_failures"] += 1
        k = self.match_known(case_text, tags)
        if k is not None:
            if k["id"] not in [x["id"] for x in self.known_seen]:
                self.known_seen.append(k)
                print(f"KNOWN-FINDING: property={self.prop} {k['id']} {k['what_fails']}", flush=True)
            return False
        if len(self.violations) < 5:
            path = self.write_replay("impl-violates-property", payload)
            if path not in [v[1] for v in self.violations]:
                self.violations.append(("impl", path, ""))
        return True

    def unproved(self, kind, payload):
        """A theorem or the correspondence no longer checks and no failing input was found."""
        path = self.write_replay(kind, payload)
        self.violations.append((kind, path, " no-failing-input-found"))

    def known_line(self, k):
        if k["id"] not in [x["id"] for x in self.known_seen]:
            self.known_seen.append(k)
            print(f"KNOWN-FINDING: property={self.prop} {k['id']} {k['what_fails']}", flush=True)

    def finish(self, trusted_base=(), checker_cmd=None):
        thms = (self.proof or {}).get("theorems", {})
        proof_ok = bool(self.proof and self.proof["ok"])
        cov = self.cov
        cov["distinct_nontrivial"] = len(self._distinct)
        cov["obligations"] = max(1, len(thms))
        cov["discharged"] = len(thms) if proof_ok else 0
        cov["checker_cmd"] = checker_cmd or (
            f"cd lean && lake build GrassProofs.{self.prop} && lake env lean ../.build/audit_{self.prop}.lean"
            "  (+ forbidden-token scan of Grass/ GrassProofs/ Main.lean)")
        cov["trusted_base"] = list(trusted_base) or [
            "Lean 4.33.0 kernel", "axioms: propext, Classical.choice, Quot.sound (audited per theorem)",
            "tools/ (python orchestrator, generators, canonicalisers)", "runner/ (Rust, public API only)",
            "hand-written model Grass/*.lean tied by the correspondence run"]
        cov["theorems"] = {k.split(".")[-1]: v for k, v in thms.items()}
        cov["lean_files_scanned"] = (self.proof or {}).get("scanned_files", [])
        if (self.proof or {}).get("leanchecker"):
            cov["leanchecker"] = self.proof["leanchecker"]
        cov["known_findings_seen"] = [k["id"] for k in self.known_seen]
        cov["notes"] = self.notes
        cov["modelled_sources_changed"] = self.changed
        if self.proof and not proof_ok and not any(v[0] == "impl" for v in self.violations):
            self.unproved("theorem-no-longer-checks", {
                "theorem_module": self.proof["module"], "lean_error": self.proof.get("lean_error"),
                "forbidden_tokens": self.proof.get("forbidden")})
        ev = {"property_id": self.prop, "tier": self.tier, "seed": self.seed, "level": self.level,
              "coverage": cov, "assumptions": self.assumptions, "wall_s": round(time.time() - self.t0, 2),
              "violations": len(self.violations)}
        os.makedirs(EVIDENCE, exist_ok=True)
        with open(os.path.join(EVIDENCE, f"{self.prop}.json"), "w") as f:
            json.dump(ev, f, indent=1, default=str)
        for kind, path, suffix in self.violations:
            print(f"VIOLATION property={self.prop} replay={path}{suffix}", flush=True)
        log(f"[{self.prop}] tier={self.tier} evals={cov['evaluations']} distinct={cov['distinct_nontrivial']} "
            f"model_disagreements={cov['model_disagreements']} impl_failures={cov['impl_property_failures']} "
            f"theorems={len(thms)} proof_ok={proof_ok} wall={ev['wall_s']}s")
        return 1 if self.violations else 0
