#!/usr/bin/env python3
"""Run checks against a seeded change without touching /repo.

  tools/seedtest.py <patch.diff> <ID> [<ID>…] [--suite] [--demo demo.sh] [--tier quick]

Creates (or reuses) the scratch worktree /tmp/seedwt of /repo's HEAD, applies the patch there,
optionally runs the repository's own test suite (--suite) and the demonstration script (--demo,
run with cwd = the worktree; expected to FAIL with the patch), then runs each check in ALT mode
(GRASS_REPO=/tmp/seedwt) and prints its VIOLATION lines.  The worktree is reset afterwards.
"""
import argparse
import os
import subprocess
import sys

WT = "/tmp/seedwt-check"
VERIF = os.path.dirname(os.path.dirname(os.path.abspath(__file__)))


def sh(cmd, **kw):
    return subprocess.run(cmd, shell=isinstance(cmd, str), stdout=subprocess.PIPE, stderr=subprocess.STDOUT, text=True, **kw)


def main():
    ap = argparse.ArgumentParser()
    ap.add_argument("patch")
    ap.add_argument("ids", nargs="+")
    ap.add_argument("--suite", action="store_true")
    ap.add_argument("--demo")
    ap.add_argument("--tier", default="quick")
    a = ap.parse_args()
    import fcntl
    lock = open("/tmp/seedwt-check.lock", "w")
    fcntl.flock(lock, fcntl.LOCK_EX)           # one seeded run at a time: the worktree is shared
    if not os.path.isdir(WT):
        print(sh(f"git -C /repo worktree add --detach {WT} HEAD -q").stdout)
    sh(f"git -C {WT} checkout -q --detach $(git -C /repo rev-parse HEAD) && git -C {WT} checkout -- . && git -C {WT} clean -fdq -e target")
    r = sh(f"git -C {WT} apply {os.path.abspath(a.patch)}")
    if r.returncode:
        print("PATCH DOES NOT APPLY:", r.stdout)
        return 2
    env = dict(os.environ, CARGO_NET_OFFLINE="true")
    try:
        if a.suite:
            r = sh("cargo test --offline --workspace --no-fail-fast 2>&1 | grep -E '^test result' | awk '{p+=$4; f+=$6} END {print p, f}'", cwd=WT, env=env)
            print("suite passed/failed:", r.stdout.strip())
        if a.demo:
            r = sh(["bash", os.path.abspath(a.demo)], cwd=WT, env=env)
            print("demo exit code with patch:", r.returncode)
        env["GRASS_REPO"] = WT
        for pid in a.ids:
            r = sh([os.path.join(VERIF, "check"), pid, "--tier", a.tier], cwd=VERIF, env=env)
            allv = r.stdout.split("\n")
            lines = ([l for l in allv if l.startswith("VIOLATION")][:6] + [l for l in allv if l.startswith("[")][-2:]
                     + [l for l in allv if l.startswith("KNOWN-FINDING")][:4])
            print(f"== {pid}: exit {r.returncode}")
            for l in lines[:12]:
                print("   ", l[:300])
    finally:
        sh(f"git -C {WT} checkout -- . && git -C {WT} clean -fdq -e target")
    return 0


if __name__ == "__main__":
    sys.exit(main())
