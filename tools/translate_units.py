#!/usr/bin/env python3
"""Translator for C08: regenerates lean/Grass/Generated/UnitKinds.lean and UnitTable.lean from
/repo/crates/compiler/src/unit/mod.rs and unit/conversion.rs.

  mod.rs        enum Unit (the payload-free variants), fn kind() arms, fn canonical() arms, Display names,
                From<String> spellings
  conversion.rs UNIT_CONVERSION_TABLE: `let mut from_x = HashMap::new(); from_x.insert(Unit::Y, <const expr>);`
                and `m.insert(Unit::T, from_x);`  =>  TABLE[T][Y] = <const expr>  (value in T of one Y)
                constant expressions over decimal literals, PI, `*`, `/`, parentheses are kept as trees
                (evaluated symbolically and in f64 arithmetic by the Lean side).

Run on every check; anything it cannot parse is an error (never skipped).  Returns a summary dict.
"""
import os
import re
import sys
from fractions import Fraction

REPO = os.environ.get("GRASS_REPO", "/repo")
VERIF = os.path.dirname(os.path.dirname(os.path.abspath(__file__)))
OUT = os.path.join(VERIF, "lean", "Grass", "Generated")


class TranslateError(Exception):
    pass


def strip_comments(src):
    src = re.sub(r"/\*.*?\*/", "", src, flags=re.S)
    return re.sub(r"//[^\n]*", "", src)


def fn_body(src, header_re):
    m = re.search(header_re, src)
    if not m:
        raise TranslateError(f"cannot find {header_re}")
    i = src.index("{", m.end() - 1)
    depth, j = 0, i
    while j < len(src):
        if src[j] == "{":
            depth += 1
        elif src[j] == "}":
            depth -= 1
            if depth == 0:
                return src[i + 1:j]
        j += 1
    raise TranslateError("unbalanced braces after " + header_re)


# ----------------------------------------------------------------------------------------------
# mod.rs
# ----------------------------------------------------------------------------------------------

def parse_mod(src):
    src = strip_comments(src)
    body = fn_body(src, r"pub enum Unit\s*\{")
    variants, payload = [], []
    for part in body.split(","):
        part = part.strip()
        if not part:
            continue
        m = re.fullmatch(r"([A-Z][A-Za-z0-9]*)", part)
        if m:
            variants.append(m.group(1))
            continue
        m = re.fullmatch(r"([A-Z][A-Za-z0-9]*)\s*\(.*\)", part, flags=re.S)
        if m:
            payload.append(m.group(1))
            continue
        raise TranslateError(f"enum Unit: cannot parse variant {part!r}")
    if "None" not in variants or sorted(payload) != ["Complex", "Unknown"]:
        raise TranslateError(f"enum Unit: expected None, Unknown(..), Complex(..); got {variants} {payload}")
    known = [v for v in variants if v != "None"]

    kinds_body = fn_body(src, r"pub\(crate\) enum UnitKind\s*\{")
    kinds = [k.strip() for k in kinds_body.split(",") if k.strip()]

    def arms(body):
        body = body.strip()
        m = re.match(r"match\s+[\w\.\(\)&]+\s*\{", body)
        if not m:
            raise TranslateError("expected a single match expression: " + body[:60])
        inner = body[m.end():body.rindex("}")]
        out = []
        # split on "=>" keeping pattern / result
        pos = 0
        while True:
            k = inner.find("=>", pos)
            if k < 0:
                break
            pat = inner[pos:k]
            rest = inner[k + 2:].lstrip()
            if rest.startswith("{"):
                depth, j = 0, 0
                while True:
                    if rest[j] == "{":
                        depth += 1
                    elif rest[j] == "}":
                        depth -= 1
                        if depth == 0:
                            break
                    j += 1
                res = rest[1:j]
                consumed = inner[k + 2:].index(rest) + j + 1
            else:
                j = rest.find(",")
                j = len(rest) if j < 0 else j
                res = rest[:j]
                consumed = inner[k + 2:].index(rest) + j
            out.append((pat.strip().lstrip(",").strip(), res.strip()))
            pos = k + 2 + consumed
            while pos < len(inner) and inner[pos] in ", \n\t":
                pos += 1
        return out

    kind_of, special_kind = {}, {}
    for pat, res in arms(fn_body(src, r"fn kind\(&self\)\s*->\s*UnitKind\s*\{")):
        m = re.fullmatch(r"UnitKind::(\w+)", res)
        if not m or m.group(1) not in kinds:
            raise TranslateError(f"kind(): cannot parse arm result {res!r}")
        for alt in pat.split("|"):
            alt = alt.strip()
            m2 = re.fullmatch(r"Unit::(\w+)\s*(\(\.\.\)|\{\s*\.\.\s*\})?", alt)
            if not m2:
                raise TranslateError(f"kind(): cannot parse pattern {alt!r}")
            name = m2.group(1)
            (special_kind if name in ("None", "Unknown", "Complex") else kind_of)[name] = m.group(1)
    missing = [v for v in known if v not in kind_of]
    if missing or sorted(special_kind) != ["Complex", "None", "Unknown"]:
        raise TranslateError(f"kind(): variants without an arm: {missing}; specials {special_kind}")

    canonical = {}
    for pat, res in arms(fn_body(src, r"fn canonical\(&self\)\s*->\s*Option<Unit>\s*\{")):
        if pat == "_":
            if res != "None":
                raise TranslateError("canonical(): default arm is not None")
            continue
        m = re.fullmatch(r"UnitKind::(\w+)", pat)
        m2 = re.fullmatch(r"Some\(Unit::(\w+)\)", res)
        if not m or not m2:
            raise TranslateError(f"canonical(): cannot parse arm {pat!r} => {res!r}")
        canonical[m.group(1)] = m2.group(1)

    names = {}
    disp = fn_body(src, r"impl fmt::Display for Unit\s*\{")
    for m in re.finditer(r"Unit::(\w+)\s*=>\s*write!\(f,\s*\"([^\"]*)\"\)", disp):
        names[m.group(1)] = m.group(2)
    missing = [v for v in known if v not in names]
    if missing:
        raise TranslateError(f"Display: no name for {missing}")
    spell = {}
    frm = fn_body(src, r"impl From<String> for Unit\s*\{")
    for m in re.finditer(r"\"([^\"]+)\"\s*=>\s*Unit::(\w+)", frm):
        spell[m.group(2)] = m.group(1)
    missing = [v for v in known if v not in spell]
    if missing:
        raise TranslateError(f"From<String>: no spelling for {missing}")
    for v in known:
        if spell[v] != names[v].lower():
            raise TranslateError(f"spelling {spell[v]!r} and display name {names[v]!r} of {v} differ beyond case")
    return {"known": known, "kinds": kinds, "kind_of": kind_of, "special_kind": special_kind,
            "canonical": canonical, "names": names}


# ----------------------------------------------------------------------------------------------
# conversion.rs: constant expressions
# ----------------------------------------------------------------------------------------------

TOK = re.compile(r"\s*(?:(\d+\.\d*|\d+)|(PI)|([*/()]))")


def parse_expr(text):
    toks, pos = [], 0
    text = text.strip()
    while pos < len(text):
        m = TOK.match(text, pos)
        if not m:
            raise TranslateError(f"constant expression: cannot tokenise {text[pos:]!r}")
        toks.append(m.group(1) and ("num", m.group(1)) or m.group(2) and ("pi", "PI") or ("op", m.group(3)))
        pos = m.end()
    i = 0

    def atom():
        nonlocal i
        if i >= len(toks):
            raise TranslateError("constant expression: unexpected end in " + text)
        k, v = toks[i]
        i += 1
        if k == "num":
            fr = Fraction(v)
            return ("lit", fr.numerator, fr.denominator)
        if k == "pi":
            return ("pi",)
        if v == "(":
            e = term()
            if i >= len(toks) or toks[i] != ("op", ")"):
                raise TranslateError("constant expression: missing ) in " + text)
            i += 1
            return e
        raise TranslateError(f"constant expression: unexpected {v!r} in {text}")

    def term():
        nonlocal i
        e = atom()
        while i < len(toks) and toks[i][0] == "op" and toks[i][1] in "*/":
            op = toks[i][1]
            i += 1
            r = atom()
            e = ("mul" if op == "*" else "div", e, r)
        return e

    e = term()
    if i != len(toks):
        raise TranslateError("constant expression: trailing tokens in " + text)
    return e


def parse_conversion(src):
    src = strip_comments(src)
    body = fn_body(src, r"UNIT_CONVERSION_TABLE\s*:[^=]*=\s*Lazy::new\(\|\|\s*\{")
    blocks, order = {}, []
    outer = {}
    for stmt in body.split(";"):
        s = " ".join(stmt.split())
        if not s:
            continue
        m = re.fullmatch(r"let mut (\w+) = HashMap::new\(\)", s)
        if m:
            if m.group(1) in blocks or m.group(1) == "m":
                if m.group(1) != "m":
                    raise TranslateError("duplicate map " + m.group(1))
            if m.group(1) != "m":
                blocks[m.group(1)] = []
            continue
        m = re.fullmatch(r"(\w+)\.insert\(Unit::(\w+), (.+)\)", s)
        if m:
            var, key, val = m.groups()
            if var == "m":
                if val not in blocks:
                    raise TranslateError(f"m.insert of unknown map {val}")
                if key in outer:
                    raise TranslateError(f"m.insert: duplicate key {key}")
                outer[key] = val
                order.append(key)
            else:
                if var not in blocks:
                    raise TranslateError(f"insert into undeclared map {var}")
                if key in [e[0] for e in blocks[var]]:
                    raise TranslateError(f"{var}: duplicate key {key}")
                blocks[var].append((key, parse_expr(val), val))
            continue
        if s == "m":
            continue
        raise TranslateError(f"UNIT_CONVERSION_TABLE: cannot parse statement {s!r}")
    used = set(outer.values())
    if used != set(blocks):
        raise TranslateError(f"maps never inserted into the table: {set(blocks) - used}")
    entries = []
    for to in order:
        for frm, tree, text in blocks[outer[to]]:
            entries.append((to, frm, tree, text))
    return entries


def lean_expr(t):
    if t[0] == "lit":
        return f"(.lit {t[1]} {t[2]})"
    if t[0] == "pi":
        return ".pi"
    return f"(.{t[0]} {lean_expr(t[1])} {lean_expr(t[2])})"


def generate(repo=REPO, out=OUT):
    mod = parse_mod(open(os.path.join(repo, "crates/compiler/src/unit/mod.rs")).read())
    entries = parse_conversion(open(os.path.join(repo, "crates/compiler/src/unit/conversion.rs")).read())
    known = mod["known"]
    for to, frm, _, _ in entries:
        if to not in known or frm not in known:
            raise TranslateError(f"table mentions a unit that is not a payload-free variant: {to} {frm}")
    lk = lambda k: k[0].lower() + k[1:]
    a = []
    a.append("/- GENERATED by tools/translate_units.py from crates/compiler/src/unit/mod.rs — do not edit. -/")
    a.append("namespace Grass.Generated\n")
    a.append("/-- the payload-free variants of `enum Unit` except `None` (mod.rs:10) -/")
    a.append("inductive KU where\n" + "\n".join(f"  | {v}" for v in known) + "\n  deriving DecidableEq, Repr, Inhabited\n")
    a.append("def KU.all : List KU := [" + ", ".join("." + v for v in known) + "]\n")
    a.append("/-- position in the enum: table lookups compare these naturals (fast in the kernel) -/")
    a.append("def KU.idx : KU → Nat\n" + "\n".join(f"  | .{v} => {i}" for i, v in enumerate(known)) + "\n")
    a.append("def KU.ofIdx : Nat → KU\n" + "\n".join(f"  | {i} => .{v}" for i, v in enumerate(known)) + f"\n  | _ => .{known[0]}\n")
    a.append("/-- `enum UnitKind` (mod.rs:125) -/")
    a.append("inductive Kind where\n" + "\n".join(f"  | {lk(k)}" for k in mod["kinds"]) + "\n  deriving DecidableEq, Repr, Inhabited\n")
    a.append("/-- `Unit::kind` (mod.rs:191) on the payload-free variants -/")
    a.append("def KU.kind : KU → Kind\n" + "\n".join(f"  | .{v} => .{lk(mod['kind_of'][v])}" for v in known) + "\n")
    a.append(f"def kindOfNone : Kind := .{lk(mod['special_kind']['None'])}")
    a.append(f"def kindOfUnknown : Kind := .{lk(mod['special_kind']['Unknown'])}")
    a.append(f"def kindOfComplex : Kind := .{lk(mod['special_kind']['Complex'])}\n")
    a.append("/-- `Unit::canonical` (mod.rs:179) as a function of the kind -/")
    a.append("def Kind.canonical : Kind → Option KU\n" +
             "\n".join(f"  | .{lk(k)} => Option.some .{v}" for k, v in mod["canonical"].items()) + "\n  | _ => Option.none\n")
    a.append("/-- `Display for Unit` (mod.rs:259) -/")
    a.append("def KU.name : KU → String\n" + "\n".join(f'  | .{v} => "{mod["names"][v]}"' for v in known) + "\n")
    a.append("/-- constant expressions of conversion.rs -/")
    a.append("inductive CExpr where\n  | lit (num den : Nat)\n  | pi\n  | mul (a b : CExpr)\n  | div (a b : CExpr)\n  deriving Repr, Inhabited\n")
    a.append("end Grass.Generated")
    b = []
    b.append("import Grass.Generated.UnitKinds")
    b.append("/- GENERATED by tools/translate_units.py from crates/compiler/src/unit/conversion.rs — do not edit.")
    b.append("   `tableRow to` lists `(from, e)`: UNIT_CONVERSION_TABLE[to][from] = e, the value in `to` of one `from`. -/")
    b.append("namespace Grass.Generated\n")
    b.append("/-- one row per `m.insert(Unit::To, from_to)`: the inner map, in insertion order -/")
    b.append("def tableRow : KU → List (KU × CExpr)")
    rows = {}
    for to, frm, tree, text in entries:
        rows.setdefault(to, []).append((frm, tree, text))
    for to, row in rows.items():
        b.append(f"  | .{to} => [\n" + ",\n".join(f"      (.{frm}, {lean_expr(tree)})   /- {text} -/" for frm, tree, text in row) + "]")
    if len(rows) < len(known):
        b.append("  | _ => []")
    b.append("")
    b.append("end Grass.Generated")
    os.makedirs(out, exist_ok=True)
    changed = False
    for name, lines in (("UnitKinds.lean", a), ("UnitTable.lean", b)):
        text = "\n".join(lines) + "\n"
        path = os.path.join(out, name)
        old = open(path).read() if os.path.exists(path) else None
        if old != text:
            with open(path, "w") as f:
                f.write(text)
            changed = True
    return {"units": len(known), "kinds": len(mod["kinds"]), "entries": len(entries), "changed": changed,
            "names": mod["names"], "known": known, "kind_of": mod["kind_of"]}


if __name__ == "__main__":
    try:
        r = generate()
    except TranslateError as e:
        print("translate_units: " + str(e), file=sys.stderr)
        sys.exit(2)
    print({k: v for k, v in r.items() if k in ("units", "kinds", "entries", "changed")})
