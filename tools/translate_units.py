#!/usr/bin/env python3
"""Translator for C08: regenerates lean/Grass/Generated/UnitKinds.lean and UnitTable.lean from
/repo/crates/compiler/src/unit/mod.rs and unit/conversion.rs.

  mod.rs        enum Unit (the payload-free variants), fn kind() arms, fn canonical() arms, Display names,
                From<String> spellings
  conversion.rs UNIT_CONVERSION_TABLE: `let mut from_x = HashMap::new(); from_x.insert(Unit::Y, <const expr>);`
                and `m.insert(Unit::T, from_x);`  =>  TABLE[T][Y] = <const expr>  (value in T of one Y)
                constant expressions over decimal literals, PI, `*`, `/`, parentheses are kept as trees
                (evaluated symbolically and in f64 arithmetic by the Lean side).

Run on every check; anything it cannot parse is an error (never skipped).  Returns a summary dict.

Robustness (round 3) — the translator is part of the trusted tie, so it refuses or flags every change of SHAPE:
  hard errors (TranslateError, nothing is generated):
    * conversion.rs has a top-level item other than the three known ones (a second table, a helper fn with a
      `match`, a shadowing `const PI`), the table static is renamed / retyped / duplicated, `PI` is not
      `std::f64::consts::PI`, a statement of the initialiser is not one of the four known forms or is out of
      order, a constant is not built from decimal literals, PI, `*`, `/` and parentheses;
    * the table is used anywhere else than `UNIT_CONVERSION_TABLE[to][from]` in `Number::convert(self, from, to)`
      and `UNIT_CONVERSION_TABLE.get(to)?.get(from)` in `conversion_factor(from, to)` (index order is part of
      the meaning of the generated table).
  soft errors (summary["shape_errors"], the Lean text IS generated so that the theorems see the code as it is):
    * the set of payload-free units, the set of table rows or the keys of a row differ from the pinned shape.
  `self_test()` mutates copies of the sources in memory and confirms that each mutation changes the generated
  text or is refused.
"""
import os
import re
import sys
from fractions import Fraction

REPO = os.environ.get("GRASS_REPO", "/repo")
VERIF = os.path.dirname(os.path.dirname(os.path.abspath(__file__)))
OUT = os.path.join(VERIF, "lean", "Grass", "Generated")


class TranslateError(Exception):
    pass


def strip_comments(src):
    src = re.sub(r"/\*.*?\*/", "", src, flags=re.S)
    return re.sub(r"//[^\n]*", "", src)


def fn_body(src, header_re):
    m = re.search(header_re, src)
    if not m:
        raise TranslateError(f"cannot find {header_re}")
    i = src.index("{", m.end() - 1)
    depth, j = 0, i
    while j < len(src):
        if src[j] == "{":
            depth += 1
        elif src[j] == "}":
            depth -= 1
            if depth == 0:
                return src[i + 1:j]
        j += 1
    raise TranslateError("unbalanced braces after " + header_re)


# ----------------------------------------------------------------------------------------------
# mod.rs
# ----------------------------------------------------------------------------------------------

def parse_mod(src):
    src = strip_comments(src)
    body = fn_body(src, r"pub enum Unit\s*\{")
    variants, payload = [], []
    for part in body.split(","):
        part = part.strip()
        if not part:
            continue
        m = re.fullmatch(r"([A-Z][A-Za-z0-9]*)", part)
        if m:
            variants.append(m.group(1))
            continue
        m = re.fullmatch(r"([A-Z][A-Za-z0-9]*)\s*\(.*\)", part, flags=re.S)
        if m:
            payload.append(m.group(1))
            continue
        raise TranslateError(f"enum Unit: cannot parse variant {part!r}")
    if "None" not in variants or sorted(payload) != ["Complex", "Unknown"]:
        raise TranslateError(f"enum Unit: expected None, Unknown(..), Complex(..); got {variants} {payload}")
    known = [v for v in variants if v != "None"]

    kinds_body = fn_body(src, r"pub\(crate\) enum UnitKind\s*\{")
    kinds = [k.strip() for k in kinds_body.split(",") if k.strip()]

    def arms(body):
        body = body.strip()
        m = re.match(r"match\s+[\w\.\(\)&]+\s*\{", body)
        if not m:
            raise TranslateError("expected a single match expression: " + body[:60])
        inner = body[m.end():body.rindex("}")]
        out = []
        # split on "=>" keeping pattern / result
        pos = 0
        while True:
            k = inner.find("=>", pos)
            if k < 0:
                break
            pat = inner[pos:k]
            rest = inner[k + 2:].lstrip()
            if rest.startswith("{"):
                depth, j = 0, 0
                while True:
                    if rest[j] == "{":
                        depth += 1
                    elif rest[j] == "}":
                        depth -= 1
                        if depth == 0:
                            break
                    j += 1
                res = rest[1:j]
                consumed = inner[k + 2:].index(rest) + j + 1
            else:
                j = rest.find(",")
                j = len(rest) if j < 0 else j
                res = rest[:j]
                consumed = inner[k + 2:].index(rest) + j
            out.append((pat.strip().lstrip(",").strip(), res.strip()))
            pos = k + 2 + consumed
            while pos < len(inner) and inner[pos] in ", \n\t":
                pos += 1
        return out

    kind_of, special_kind = {}, {}
    for pat, res in arms(fn_body(src, r"fn kind\(&self\)\s*->\s*UnitKind\s*\{")):
        m = re.fullmatch(r"UnitKind::(\w+)", res)
        if not m or m.group(1) not in kinds:
            raise TranslateError(f"kind(): cannot parse arm result {res!r}")
        for alt in pat.split("|"):
            alt = alt.strip()
            m2 = re.fullmatch(r"Unit::(\w+)\s*(\(\.\.\)|\{\s*\.\.\s*\})?", alt)
            if not m2:
                raise TranslateError(f"kind(): cannot parse pattern {alt!r}")
            name = m2.group(1)
            (special_kind if name in ("None", "Unknown", "Complex") else kind_of)[name] = m.group(1)
    missing = [v for v in known if v not in kind_of]
    if missing or sorted(special_kind) != ["Complex", "None", "Unknown"]:
        raise TranslateError(f"kind(): variants without an arm: {missing}; specials {special_kind}")

    canonical = {}
    for pat, res in arms(fn_body(src, r"fn canonical\(&self\)\s*->\s*Option<Unit>\s*\{")):
        if pat == "_":
            if res != "None":
                raise TranslateError("canonical(): default arm is not None")
            continue
        m = re.fullmatch(r"UnitKind::(\w+)", pat)
        m2 = re.fullmatch(r"Some\(Unit::(\w+)\)", res)
        if not m or not m2:
            raise TranslateError(f"canonical(): cannot parse arm {pat!r} => {res!r}")
        canonical[m.group(1)] = m2.group(1)

    names = {}
    disp = fn_body(src, r"impl fmt::Display for Unit\s*\{")
    for m in re.finditer(r"Unit::(\w+)\s*=>\s*write!\(f,\s*\"([^\"]*)\"\)", disp):
        names[m.group(1)] = m.group(2)
    missing = [v for v in known if v not in names]
    if missing:
        raise TranslateError(f"Display: no name for {missing}")
    spell = {}
    frm = fn_body(src, r"impl From<String> for Unit\s*\{")
    for m in re.finditer(r"\"([^\"]+)\"\s*=>\s*Unit::(\w+)", frm):
        spell[m.group(2)] = m.group(1)
    missing = [v for v in known if v not in spell]
    if missing:
        raise TranslateError(f"From<String>: no spelling for {missing}")
    for v in known:
        if spell[v] != names[v].lower():
            raise TranslateError(f"spelling {spell[v]!r} and display name {names[v]!r} of {v} differ beyond case")
    return {"known": known, "kinds": kinds, "kind_of": kind_of, "special_kind": special_kind,
            "canonical": canonical, "names": names}


# ----------------------------------------------------------------------------------------------
# conversion.rs: constant expressions
# ----------------------------------------------------------------------------------------------

TOK = re.compile(r"\s*(?:(\d+\.\d*|\d+)|(PI)|([*/()]))")


def parse_expr(text):
    toks, pos = [], 0
    text = text.strip()
    while pos < len(text):
        m = TOK.match(text, pos)
        if not m:
            raise TranslateError(f"constant expression: cannot tokenise {text[pos:]!r}")
        toks.append(m.group(1) and ("num", m.group(1)) or m.group(2) and ("pi", "PI") or ("op", m.group(3)))
        pos = m.end()
    i = 0

    def atom():
        nonlocal i
        if i >= len(toks):
            raise TranslateError("constant expression: unexpected end in " + text)
        k, v = toks[i]
        i += 1
        if k == "num":
            fr = Fraction(v)
            return ("lit", fr.numerator, fr.denominator)
        if k == "pi":
            return ("pi",)
        if v == "(":
            e = term()
            if i >= len(toks) or toks[i] != ("op", ")"):
                raise TranslateError("constant expression: missing ) in " + text)
            i += 1
            return e
        raise TranslateError(f"constant expression: unexpected {v!r} in {text}")

    def term():
        nonlocal i
        e = atom()
        while i < len(toks) and toks[i][0] == "op" and toks[i][1] in "*/":
            op = toks[i][1]
            i += 1
            r = atom()
            e = ("mul" if op == "*" else "div", e, r)
        return e

    e = term()
    if i != len(toks):
        raise TranslateError("constant expression: trailing tokens in " + text)
    return e


EXPECTED_ITEMS = [("static", "UNIT_CONVERSION_TABLE"), ("static", "KNOWN_COMPATIBILITIES"),
                  ("fn", "known_compatibilities_by_unit")]
TABLE_HEADER = "pub(crate) static UNIT_CONVERSION_TABLE: Lazy<HashMap<Unit, HashMap<Unit, f64>>> = Lazy::new(|| {"


def depth0(src):
    """the text of `src` outside every {...} (...) [...]"""
    out, depth = [], 0
    for ch in src:
        if ch in "{([":
            depth += 1
        elif ch in "})]":
            depth -= 1
            if depth < 0:
                raise TranslateError("unbalanced brackets")
        elif depth == 0:
            out.append(ch)
    if depth != 0:
        raise TranslateError("unbalanced brackets")
    return "".join(out)


def check_conversion_file_shape(src):
    """conversion.rs holds exactly one table, `PI` is the std constant, nothing else can define factors."""
    items = re.findall(r"\b(static|const|fn|macro_rules|mod|impl|struct|enum|type|trait|extern)\b\s*!?\s*(\w+)", depth0(src))
    if items != EXPECTED_ITEMS:
        raise TranslateError(f"conversion.rs: top-level items changed shape: expected {EXPECTED_ITEMS}, found {items}")
    if len(re.findall(r"\bUNIT_CONVERSION_TABLE\b", src)) != 1:
        raise TranslateError("conversion.rs: UNIT_CONVERSION_TABLE must be mentioned exactly once (its definition)")
    if " ".join(TABLE_HEADER.split()) not in " ".join(src.split()):
        raise TranslateError("conversion.rs: the header of UNIT_CONVERSION_TABLE changed (name, type or initialiser form)")
    uses = re.findall(r"\buse\b[^;]*;", src, flags=re.S)
    if not any(re.search(r"\bf64::consts::PI\b", u) for u in uses):
        raise TranslateError("conversion.rs: PI is not imported from std::f64::consts")
    rest = src
    for u in uses:
        rest = rest.replace(u, "")
    if re.search(r"\b(let|const|static)\s+(mut\s+)?PI\b", rest) or re.search(r"\bas\s+PI\b", src):
        raise TranslateError("conversion.rs: PI is redefined")


def parse_conversion(src):
    src = strip_comments(src)
    check_conversion_file_shape(src)
    body = fn_body(src, r"UNIT_CONVERSION_TABLE\s*:[^=]*=\s*Lazy::new\(\|\|\s*\{")
    blocks, order = {}, []
    outer = {}
    stmts = [" ".join(st.split()) for st in body.split(";")]
    if not stmts or stmts[-1] != "m":
        raise TranslateError("UNIT_CONVERSION_TABLE: the initialiser does not end with the expression `m`")
    phase = 0                       # 0: inner maps, 1: after `let mut m`
    for s in stmts[:-1]:
        if not s:
            raise TranslateError("UNIT_CONVERSION_TABLE: empty statement")
        m = re.fullmatch(r"let mut (\w+) = HashMap::new\(\)", s)
        if m:
            if m.group(1) == "m":
                if phase != 0:
                    raise TranslateError("UNIT_CONVERSION_TABLE: `let mut m` twice")
                phase = 1
                continue
            if phase != 0:
                raise TranslateError(f"UNIT_CONVERSION_TABLE: map {m.group(1)} declared after the outer map")
            if m.group(1) in blocks:
                raise TranslateError("duplicate map " + m.group(1))
            blocks[m.group(1)] = []
            continue
        m = re.fullmatch(r"(\w+)\.insert\(Unit::(\w+), (.+)\)", s)
        if m:
            var, key, val = m.groups()
            if var == "m":
                if phase != 1:
                    raise TranslateError("m.insert before `let mut m`")
                if val not in blocks:
                    raise TranslateError(f"m.insert of unknown map {val}")
                if key in outer:
                    raise TranslateError(f"m.insert: duplicate key {key}")
                if val in outer.values():
                    raise TranslateError(f"m.insert: map {val} inserted twice")
                outer[key] = val
                order.append(key)
            else:
                if phase != 0:
                    raise TranslateError(f"insert into {var} after the outer map was started")
                if var not in blocks:
                    raise TranslateError(f"insert into undeclared map {var}")
                if key in [e[0] for e in blocks[var]]:
                    raise TranslateError(f"{var}: duplicate key {key}")
                blocks[var].append((key, parse_expr(val), val))
            continue
        raise TranslateError(f"UNIT_CONVERSION_TABLE: cannot parse statement {s!r}")
    if phase != 1:
        raise TranslateError("UNIT_CONVERSION_TABLE: no outer map `m`")
    used = set(outer.values())
    if used != set(blocks):
        raise TranslateError(f"maps never inserted into the table: {set(blocks) - used}")
    entries = []
    for to in order:
        if not blocks[outer[to]]:
            raise TranslateError(f"row {to} is empty")
        for frm, tree, text in blocks[outer[to]]:
            entries.append((to, frm, tree, text))
    return entries


# ----------------------------------------------------------------------------------------------
# how the table is indexed by the code that uses it
# ----------------------------------------------------------------------------------------------
USE_SITES = {
    "value/number.rs": (r"pub fn convert\(self, from: &Unit, to: &Unit\) -> Self \{",
                        "Number(self.0 * UNIT_CONVERSION_TABLE[to][from])"),
    "value/sass_number.rs": (r"pub\(crate\) fn conversion_factor\(from: &Unit, to: &Unit\) -> Option<f64> \{",
                             "UNIT_CONVERSION_TABLE.get(to)?.get(from).copied()"),
}


def check_use_sites(files):
    """files: {path relative to crates/compiler/src: text}.  Every mention of the table outside conversion.rs is a
    `use` or exactly one of the two known expressions inside the two known functions."""
    seen = set()
    for rel, text in sorted(files.items()):
        if rel == "unit/conversion.rs" or "UNIT_CONVERSION_TABLE" not in text:
            continue
        src = strip_comments(text)
        src = re.sub(r"\buse\b[^;]*;", "", src, flags=re.S)
        n = len(re.findall(r"\bUNIT_CONVERSION_TABLE\b", src))
        if n == 0:
            continue
        if rel not in USE_SITES:
            raise TranslateError(f"UNIT_CONVERSION_TABLE is used in {rel}: an access the model does not know")
        header, expr = USE_SITES[rel]
        fb = " ".join(fn_body(src, header).split())
        if n != 1 or expr not in fb:
            raise TranslateError(f"{rel}: the access to UNIT_CONVERSION_TABLE changed (expected only `{expr}`)")
        seen.add(rel)
    if seen != set(USE_SITES):
        raise TranslateError(f"UNIT_CONVERSION_TABLE is no longer used in {sorted(set(USE_SITES) - seen)}")


def read_use_site_files(repo):
    root = os.path.join(repo, "crates/compiler/src")
    out = {}
    for d, _, names in os.walk(root):
        for n in names:
            if n.endswith(".rs"):
                p = os.path.join(d, n)
                out[os.path.relpath(p, root)] = open(p, encoding="utf-8", errors="replace").read()
    return out


# ----------------------------------------------------------------------------------------------
# the pinned shape: which units exist and which (to, from) pairs have an entry
# ----------------------------------------------------------------------------------------------
SHAPE_GROUPS = [["In", "Cm", "Pc", "Mm", "Q", "Pt", "Px"], ["Deg", "Grad", "Rad", "Turn"], ["S", "Ms"], ["Hz", "Khz"],
                ["Dpi", "Dpcm", "Dppx"]]
SHAPE_UNITS = ["Px", "Mm", "In", "Cm", "Q", "Pt", "Pc", "Em", "Rem", "Lh", "Ex", "Ch", "Cap", "Ic", "Rlh", "Vw", "Vh", "Vmin",
               "Vmax", "Vi", "Vb", "Deg", "Grad", "Rad", "Turn", "S", "Ms", "Hz", "Khz", "Dpi", "Dpcm", "Dppx", "Fr", "Percent"]
SHAPE_KINDS = ["Absolute", "FontRelative", "ViewportRelative", "Angle", "Time", "Frequency", "Resolution", "Other", "None"]


def shape_errors(mod, entries):
    errs = []
    if sorted(mod["known"]) != sorted(SHAPE_UNITS):
        errs.append(f"enum Unit changed: added {sorted(set(mod['known']) - set(SHAPE_UNITS))}, "
                    f"removed {sorted(set(SHAPE_UNITS) - set(mod['known']))}")
    if mod["kinds"] != SHAPE_KINDS:
        errs.append(f"enum UnitKind changed: {mod['kinds']}")
    rows = {}
    for to, frm, _, _ in entries:
        rows.setdefault(to, set()).add(frm)
    want = {u: set(g) for g in SHAPE_GROUPS for u in g}
    for to in sorted(set(rows) | set(want)):
        if rows.get(to, set()) != want.get(to, set()):
            errs.append(f"row {to}: keys added {sorted(rows.get(to, set()) - want.get(to, set()))}, "
                        f"removed {sorted(want.get(to, set()) - rows.get(to, set()))}")
    return errs


def lean_expr(t):
    if t[0] == "lit":
        return f"(.lit {t[1]} {t[2]})"
    if t[0] == "pi":
        return ".pi"
    return f"(.{t[0]} {lean_expr(t[1])} {lean_expr(t[2])})"


def render(mod_src, conv_src):
    """pure: the two Rust texts -> (UnitKinds.lean text, UnitTable.lean text, summary)"""
    mod = parse_mod(mod_src)
    entries = parse_conversion(conv_src)
    known = mod["known"]
    for to, frm, _, _ in entries:
        if to not in known or frm not in known:
            raise TranslateError(f"table mentions a unit that is not a payload-free variant: {to} {frm}")
    lk = lambda k: k[0].lower() + k[1:]
    a = []
    a.append("/- GENERATED by tools/translate_units.py from crates/compiler/src/unit/mod.rs — do not edit. -/")
    a.append("namespace Grass.Generated\n")
    a.append("/-- the payload-free variants of `enum Unit` except `None` (mod.rs:10) -/")
    a.append("inductive KU where\n" + "\n".join(f"  | {v}" for v in known) + "\n  deriving DecidableEq, Repr, Inhabited\n")
    a.append("def KU.all : List KU := [" + ", ".join("." + v for v in known) + "]\n")
    a.append("/-- position in the enum: table lookups compare these naturals (fast in the kernel) -/")
    a.append("def KU.idx : KU → Nat\n" + "\n".join(f"  | .{v} => {i}" for i, v in enumerate(known)) + "\n")
    a.append("def KU.ofIdx : Nat → KU\n" + "\n".join(f"  | {i} => .{v}" for i, v in enumerate(known)) + f"\n  | _ => .{known[0]}\n")
    a.append("/-- `enum UnitKind` (mod.rs:125) -/")
    a.append("inductive Kind where\n" + "\n".join(f"  | {lk(k)}" for k in mod["kinds"]) + "\n  deriving DecidableEq, Repr, Inhabited\n")
    a.append("/-- `Unit::kind` (mod.rs:191) on the payload-free variants -/")
    a.append("def KU.kind : KU → Kind\n" + "\n".join(f"  | .{v} => .{lk(mod['kind_of'][v])}" for v in known) + "\n")
    a.append(f"def kindOfNone : Kind := .{lk(mod['special_kind']['None'])}")
    a.append(f"def kindOfUnknown : Kind := .{lk(mod['special_kind']['Unknown'])}")
    a.append(f"def kindOfComplex : Kind := .{lk(mod['special_kind']['Complex'])}\n")
    a.append("/-- `Unit::canonical` (mod.rs:179) as a function of the kind -/")
    a.append("def Kind.canonical : Kind → Option KU\n" +
             "\n".join(f"  | .{lk(k)} => Option.some .{v}" for k, v in mod["canonical"].items()) + "\n  | _ => Option.none\n")
    a.append("/-- `Display for Unit` (mod.rs:259) -/")
    a.append("def KU.name : KU → String\n" + "\n".join(f'  | .{v} => "{mod["names"][v]}"' for v in known) + "\n")
    a.append("/-- constant expressions of conversion.rs -/")
    a.append("inductive CExpr where\n  | lit (num den : Nat)\n  | pi\n  | mul (a b : CExpr)\n  | div (a b : CExpr)\n  deriving Repr, Inhabited\n")
    a.append("end Grass.Generated")
    b = []
    b.append("import Grass.Generated.UnitKinds")
    b.append("/- GENERATED by tools/translate_units.py from crates/compiler/src/unit/conversion.rs — do not edit.")
    b.append("   `tableRow to` lists `(from, e)`: UNIT_CONVERSION_TABLE[to][from] = e, the value in `to` of one `from`. -/")
    b.append("namespace Grass.Generated\n")
    b.append("/-- one row per `m.insert(Unit::To, from_to)`: the inner map, in insertion order -/")
    b.append("def tableRow : KU → List (KU × CExpr)")
    rows = {}
    for to, frm, tree, text in entries:
        rows.setdefault(to, []).append((frm, tree, text))
    for to, row in rows.items():
        b.append(f"  | .{to} => [\n" + ",\n".join(f"      (.{frm}, {lean_expr(tree)})   /- {text} -/" for frm, tree, text in row) + "]")
    if len(rows) < len(known):
        b.append("  | _ => []")
    b.append("")
    b.append("end Grass.Generated")
    summary = {"units": len(known), "kinds": len(mod["kinds"]), "entries": len(entries),
               "names": mod["names"], "known": known, "kind_of": mod["kind_of"], "shape_errors": shape_errors(mod, entries)}
    return "\n".join(a) + "\n", "\n".join(b) + "\n", summary


def generate(repo=REPO, out=OUT):
    mod_src = open(os.path.join(repo, "crates/compiler/src/unit/mod.rs")).read()
    conv_src = open(os.path.join(repo, "crates/compiler/src/unit/conversion.rs")).read()
    check_use_sites(read_use_site_files(repo))
    kinds_text, table_text, summary = render(mod_src, conv_src)
    os.makedirs(out, exist_ok=True)
    changed = False
    for name, text in (("UnitKinds.lean", kinds_text), ("UnitTable.lean", table_text)):
        path = os.path.join(out, name)
        old = open(path).read() if os.path.exists(path) else None
        if old != text:
            with open(path, "w") as f:
                f.write(text)
            changed = True
    summary["changed"] = changed
    return summary


# ----------------------------------------------------------------------------------------------
# self-test: mutate copies of the sources in memory
# ----------------------------------------------------------------------------------------------

def _sub1(text, old, new):
    if text.count(old) != 1:
        raise TranslateError(f"self-test: mutation site {old!r} occurs {text.count(old)} times")
    return text.replace(old, new)


def self_test(repo=REPO):
    """-> {mutation: outcome}; outcome is 'changed' (generated text differs, parse ok), 'changed+shape' (differs and a
    shape error is flagged), 'rejected' (TranslateError).  Raises TranslateError when a mutation goes unnoticed or
    is noticed in a weaker way than required."""
    mod_src = open(os.path.join(repo, "crates/compiler/src/unit/mod.rs")).read()
    conv_src = open(os.path.join(repo, "crates/compiler/src/unit/conversion.rs")).read()
    files = read_use_site_files(repo)
    base = render(mod_src, conv_src)
    if render(mod_src, conv_src)[:2] != base[:2]:
        raise TranslateError("self-test: translator is not deterministic")
    A = "from_in.insert(Unit::Cm, 1.0 / 2.54);"
    B = "from_in.insert(Unit::Pc, 1.0 / 6.0);"
    conv_muts = {   # name: (mutated conversion.rs, required outcome)
        "constant-changed": (_sub1(conv_src, A, "from_in.insert(Unit::Cm, 1.0 / 2.55);"), "changed"),
        "constant-last-digit": (_sub1(conv_src, "from_q.insert(Unit::Px, 101.6 / 96.0);", "from_q.insert(Unit::Px, 101.7 / 96.0);"), "changed"),
        "operator-changed": (_sub1(conv_src, "from_rad.insert(Unit::Turn, 2.0 * PI);", "from_rad.insert(Unit::Turn, 2.0 / PI);"), "changed"),
        "row-entry-removed": (_sub1(conv_src, "from_cm.insert(Unit::Pc, 2.54 / 6.0);", ""), "changed+shape"),
        "row-removed": (_sub1(re.sub(r"let mut from_ms = HashMap::new\(\);(\s*from_ms\.insert\([^;]*;)*", "", conv_src),
                              "m.insert(Unit::Ms, from_ms);", ""), "changed+shape"),
        "row-not-inserted": (_sub1(conv_src, "m.insert(Unit::Ms, from_ms);", ""), "rejected"),
        "values-swapped": (_sub1(_sub1(conv_src, A, "from_in.insert(Unit::Cm, 1.0 / 6.0);"), B,
                                 "from_in.insert(Unit::Pc, 1.0 / 2.54);"), "changed"),
        "lines-swapped": (_sub1(conv_src, A + conv_src[conv_src.index(A) + len(A):conv_src.index(B)] + B,
                                B + conv_src[conv_src.index(A) + len(A):conv_src.index(B)] + A), "changed"),
        "maps-swapped": (_sub1(_sub1(conv_src, "m.insert(Unit::In, from_in);", "m.insert(Unit::In, from_cm_);"),
                               "m.insert(Unit::Cm, from_cm);", "m.insert(Unit::Cm, from_in);").replace("from_cm_", "from_cm"), "changed"),
        "entry-for-new-unit": (_sub1(conv_src, A, A + " from_in.insert(Unit::Em, 1.0);"), "changed+shape"),
        "constant-renamed": (conv_src.replace("UNIT_CONVERSION_TABLE", "UNIT_CONVERSION_TABLE_V2"), "rejected"),
        "second-table": (conv_src + "\npub(crate) static UNIT_CONVERSION_TABLE_EXTRA: Lazy<HashMap<Unit, f64>> = "
                                    "Lazy::new(|| HashMap::new());\n", "rejected"),
        "match-function": (conv_src + "\npub(crate) fn factor(to: &Unit, from: &Unit) -> f64 { match (to, from) { _ => 1.0 } }\n",
                           "rejected"),
        "match-in-constant": (_sub1(conv_src, A, "from_in.insert(Unit::Cm, match 1 { _ => 1.0 / 2.54 });"), "rejected"),
        "statement-after-table": (_sub1(conv_src, "m.insert(Unit::In, from_in);",
                                        "m.insert(Unit::In, from_in); m.get_mut(&Unit::In).unwrap().insert(Unit::Cm, 0.4);"), "rejected"),
        "plus-in-constant": (_sub1(conv_src, A, "from_in.insert(Unit::Cm, 1.0 / 2.54 + 0.0);"), "rejected"),
        "pi-shadowed": (_sub1(conv_src, "use once_cell::sync::Lazy;", "use once_cell::sync::Lazy;\nconst PI: f64 = 3.0;"), "rejected"),
        "duplicate-key": (_sub1(conv_src, A, A + " from_in.insert(Unit::Cm, 1.0);"), "rejected"),
    }
    mod_muts = {
        "unit-added": (_sub1(mod_src, "    Percent,\n", "    Percent,\n    Vq,\n"), "rejected"),
        "unit-added-with-arms": (_sub1(_sub1(_sub1(_sub1(mod_src, "    Percent,\n", "    Percent,\n    Vq,\n"),
                                 "Unit::Fr | Unit::Percent |", "Unit::Fr | Unit::Vq | Unit::Percent |"),
                                 '"fr" => Unit::Fr,', '"fr" => Unit::Fr, "vq" => Unit::Vq,'),
                                 'Unit::Fr => write!(f, "fr"),', 'Unit::Fr => write!(f, "fr"), Unit::Vq => write!(f, "vq"),'),
                                 "changed+shape"),
        "kind-changed": (_sub1(mod_src, "Unit::S | Unit::Ms => UnitKind::Time", "Unit::S | Unit::Ms => UnitKind::Frequency"), "changed"),
        "canonical-changed": (_sub1(mod_src, "UnitKind::Absolute => Some(Unit::Px)", "UnitKind::Absolute => Some(Unit::In)"), "changed"),
        "display-name-changed": (_sub1(_sub1(mod_src, 'Unit::Khz => write!(f, "kHz")', 'Unit::Khz => write!(f, "khz2")'),
                                       '"khz" => Unit::Khz', '"khz2" => Unit::Khz'), "changed"),
    }
    out = {}

    def judge(name, want, fn):
        try:
            r = fn()
            got = "unchanged" if r[:2] == base[:2] else ("changed+shape" if r[2]["shape_errors"] else "changed")
        except TranslateError:
            got = "rejected"
        out[name] = got
        if got != want:
            raise TranslateError(f"self-test: mutation {name!r} gave {got!r}, required {want!r}")

    for name, (txt, want) in conv_muts.items():
        judge(name, want, lambda: render(mod_src, txt))
    for name, (txt, want) in mod_muts.items():
        judge(name, want, lambda: render(txt, conv_src))
    # use sites: index order swapped, a new access, an access removed
    nr, sn = files["value/number.rs"], files["value/sass_number.rs"]
    site_muts = {
        "index-order-swapped": {**files, "value/number.rs": _sub1(nr, "UNIT_CONVERSION_TABLE[to][from]", "UNIT_CONVERSION_TABLE[from][to]")},
        "get-order-swapped": {**files, "value/sass_number.rs": _sub1(sn, "UNIT_CONVERSION_TABLE.get(to)?.get(from)", "UNIT_CONVERSION_TABLE.get(from)?.get(to)")},
        "parameters-swapped": {**files, "value/number.rs": _sub1(nr, "pub fn convert(self, from: &Unit, to: &Unit)", "pub fn convert(self, to: &Unit, from: &Unit)")},
        "new-access": {**files, "value/mod.rs": files["value/mod.rs"] + "\nfn f() -> f64 { crate::unit::UNIT_CONVERSION_TABLE[&Unit::In][&Unit::Cm] }\n"},
        "access-bypassed": {**files, "value/number.rs": _sub1(nr, "Number(self.0 * UNIT_CONVERSION_TABLE[to][from])", "Number(self.0 * other_table(to, from))")},
    }
    check_use_sites(files)
    for name, fs in site_muts.items():
        try:
            check_use_sites(fs)
            got = "unchanged"
        except TranslateError:
            got = "rejected"
        out[name] = got
        if got != "rejected":
            raise TranslateError(f"self-test: use-site mutation {name!r} was not noticed")
    return out


if __name__ == "__main__":
    try:
        r = generate()
    except TranslateError as e:
        print("translate_units: " + str(e), file=sys.stderr)
        sys.exit(2)
    print({k: v for k, v in r.items() if k in ("units", "kinds", "entries", "changed", "shape_errors")})
    if "--self-test" in sys.argv:
        try:
            print(self_test())
        except TranslateError as e:
            print("translate_units: " + str(e), file=sys.stderr)
            sys.exit(3)
