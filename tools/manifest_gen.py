#!/usr/bin/env python3
"""Generates /verif/MANIFEST.json from the per-property claim texts below (tools/manifest_gen.py)."""
import json, os
VERIF = os.path.dirname(os.path.dirname(os.path.abspath(__file__)))
TB = ("Trusted base: Lean 4.33.0 kernel; per-theorem axioms audited on every run and limited to propext / "
      "Classical.choice / Quot.sound (no sorry, admit, axiom, native_decide, bv_decide, implemented_by, unsafe); the "
      "hand-written model lean/Grass/*.lean is tied to /repo only by the correspondence run (runner/ over grass's public "
      "API, python generators and canonicalisers in tools/), so the theorem reaches the code as far as that run does. ")
TECH = "Lean 4 theorems about a hand-written executable model + correspondence run against the real compiler + Lean-evaluated property predicate on the implementation's output"

CLAIMS = {
 "C17": dict(
  text="Theorems C17_merge_ok_sound, C17_merge_empty_sound, C17_mergeLists_sound, C17_nest_sound and C17_chain_sound (chains of any length) prove, for all admissible query lists and every media environment, that what the model of MediaQuery::merge / merge_media_queries / visit_media_rule emits is satisfied by exactly the environments satisfying all nested lists; the property's own exclusions are explicit hypotheses. Tie: all ordered pairs of single queries of the alphabet plus random lists and triples, grass's emitted @media structure = the model's; the truth-table predicate is evaluated by the Lean driver on grass's own output.",
  note="Known finding D22 (through-by-equality in chains of three) is modelled by a switch; theorems are about the specified variant, the correspondence runs against the as-found variant.",
  technique="Lean 4 theorems over a model of MediaQuery::merge / merge_media_queries / visit_media_rule; exhaustive-pairs correspondence; truth-table oracle on grass's output"),
 "C19": dict(
  text="Lean theorems about a hand-written model of Lexer span arithmetic (span_at_index/span_from/prev_span/current_span incl. re-lexed interpolated text), the codemap look-up, the Display renderer and logger routing over a mini statement language: every span obtainable from lexer calls, re-lexing to any depth, detached lexers, the empty span and merges lies inside the file on character boundaries and is located without panic (C19_span_in_bounds, C19_span_on_char_boundary, C19_location_valid, C19_reachable_span_located); the rendering starts with `Error: <message>` in both modes and its caret/padding arithmetic never underflows (C19_render_prefix, C19_render_total); each executed @debug/@warn is logged exactly once per execution in program order and nothing is logged under quiet (C19_debug_warn_trace, C19_warn_in_loop_each_iteration, C19_quiet_silent). Tie: exact-rendering tie (Display output = model render byte for byte on every located error, both modes), re-lexed-span tie, logger-trace tie on generated multi-file programs; direct location/renderer/fd-capture oracle on thousands of failing inputs.",
  note="That every error site in grass only uses such reachable spans of one file is by reading and by the correspondence (C19_full comment), not a theorem. Trace theorems are about the mini language; event columns, multi-line directives, @each/@while/@use in logging programs are outside. As-found witnesses kept for D12, D19, D23.",
  technique=TECH),
 "C02": dict(
  text="PARTIAL. Lean theorems about an executable model of the state that survives a compilation (thread-local interner, process-wide id counters) and a small language of how the compiler may use identifiers and ids: interner laws over all histories (C02_resolve_intern, _intern_idempotent, _keys_stable_history, _wf_reachable, _keyEq_iff_streq), non-interference of any program that uses identifiers only through key equality / resolve / insertion-ordered iteration from any two initial interner states (C02_noninterference_eq_resolve, _history_independent), invariance under the counters' initial values and under every interleaving of fetch_add request sequences with pairwise distinct ids (C02_freshId_offset_invariant, _interleaving_distinct, _schedule_invariant), and kernel-checked witnesses that key-ordered and hash-ordered iteration are NOT history/permutation independent (the model of the known leaks). Whole-compiler purity (C02_full) is not a theorem: it is tested metamorphically — same program after adversarial histories on one thread, on N concurrent threads and in fresh processes must give byte-identical output; the comparison predicate is evaluated by the Lean driver. Tie: the as-found model's predicted keywords()/error-name order after random histories equals grass's; a static list of BTreeMap/BTreeSet<Identifier>/HashMap iteration sites is regenerated from /repo on every run and diffed against the committed list.",
  note="Real scheduler/memory-model behaviour, allocator state and evaluator container uses beyond the modelled observables are outside the model (named runtime behaviour the model cannot exhibit). D13 (five observables: keywords() order, `No arguments named` order, module-variables/functions order with and without @forward, which non-configurable variable a `with` error names) are known findings keyed by class tags computed only when the feature occurs and the difference is a pure reordering.",
  technique="Lean 4 proof about a model of interner/id-counter state and an identifier-usage language; tie by predicted iteration order after generated histories + static container-site translator; metamorphic run (histories, threads, processes)"),
 "C20": dict(
  text="PARTIAL. Lean theorems about a model of crates/lib/src/main.rs: flags→Options mapping (C20_optionsOf_spec incl. both negated flags and load-path order, _optionsOf_default, _unnegated_variant_differs), command-line reading (C20_parse_render, _input_required), and the outcome function (C20_err_exit_nonzero_no_stdout, _ok_exit_zero_css_to_sink, _warnings_not_in_css, _unopenable_output, _input_kind_irrelevant). The mirror/exit/stream claims for the real binary are established by the tie: the binary is rebuilt from /repo and run on hand-written, generated and corpus inputs × flag combinations × {file, --stdin} × {stdout, new/existing/unopenable output file}; (exit, stdout, stderr, file) must equal outcome(flags, library result under optionsOf flags) byte for byte, where the library result comes from the in-process runner; the agreement predicate is evaluated by the Lean driver; the clap argument table of main.rs is compared statically with the table the model was written from.",
  note="clap's own parsing beyond the documented flags and OS process behaviour (signals, closed pipes, permissions) are outside the model. Known finding C20-stdin-output (`grass --stdin out.css` treats the positional as INPUT). The output file is truncated before compiling (modelled as found; not contradicted by the property text).",
  technique="Lean 4 proof about a model of main.rs; tie by running the freshly built binary against the in-process library with byte-exact comparison + static clap-table comparison"),
 "C16": dict(
  text="Lean theorems about a model of calculation.rs / sass_number.rs / the calculation printer: simplification (operate_internal incl. sign flip, min/max/clamp reduction, calc, unit conversion and cancellation) preserves the denoted quantity under EVERY unit environment (C16_compile_value for the whole pipeline, C16_operate_value, C16_sign_flip_sound, C16_min_max_value, C16_clamp_value), print-then-parse preserves it for every well-formed tree so parenthesisation and precedence are right (C16_print_parse_value, by induction over the tree, with C16_parse_fuel_sufficient), fully-known-unit inputs reduce to the plain number (C16_known_units_plain_number), provably incompatible operands are rejected (C16_incompatible_rejected, C16_operate_rejects_incompatible) and no conversion is unguarded / the pipeline never panics (C16_never_unguarded_convert, C16_never_panics). Tie: generated expressions up to depth 4 with nested calc/min/max/clamp, var(), interpolation and Sass variables; grass's printed value is read by the proved Lean reader and compared structurally with the model, and source vs grass output are evaluated by the Lean evaluator under 6 exact-rational unit environments; the Lean factor table is also compared with unit/conversion.rs.",
  note="Guards: well-formed environment, no legacy min/max unitless coercion, specified clamp. The code deviates in D40 (clamp with MAX < MIN < VAL) and D41 (unitless + length accepted) — known findings with kernel-checked witnesses C16_asFound_*; f64 arithmetic (checked by error bound), rad/grad, interpolation re-interpretation and non-finite values are outside the model.",
  technique="Lean 4 proof over an executable model + correspondence run (proved Lean reader on grass output, exact-rational evaluation under random unit environments, table tie to conversion.rs)"),
 "C09": dict(
  text="Lean theorems about an executable model of Value::eq / not_equals / SassMap / map literals / index(): == is reflexive (NaN-free), symmetric and transitive, != is its negation, map-get/has-key/remove/merge/literals and index() find an entry exactly when a key/element == the probe, maps keep first-insertion order and the distinct-key invariant — for every variant with canonical-unit comparison: on all values for the specified variant, on argument-list-free values with canonical convertible units for the code as it stands (the `_now_partial` theorems; the unguarded statement is refuted, C09_full_refuted). Tie: all ordered pairs of a ~120-value universe, all triples through grass's own == matrix, triples evaluated by grass, random map-operation sequences; the laws are evaluated by the Lean driver on grass's answers.",
  note="Exact rationals instead of f64 (universe kept away from bucket boundaries); complex units, calculations, function references outside the model. Known findings (same-unit vs canonical scale, arglist brackets/keywords, map-remove via not_equals) are modelled by switches and replayed every run.",
  technique=TECH),
 "C14": dict(
  text="Lean theorems about an executable reference model of 28 list/map/string built-ins — length/append, nth/set-nth incl. negative indices and every error branch, join length/separator/bracket rule, zip length, str-slice/insert/index laws on code points, quote/unquote, map get/merge/set/remove/deep-merge laws — tied to /repo by a correspondence run over generated calls (global and sass:list/map/string names side by side, results through inspect(), errors by class) with the laws also evaluated on grass's own answers.",
  note="Map theorems assume == is an equivalence on the keys involved (KeyEquiv, proved for string keys; see C09). index(), string.split, nested has-key/deep-remove paths are covered by correspondence only; named arguments and string.split with empty operands are outside the claim. Known findings K14a–d are modelled by switches.",
  technique=TECH),
 "C04": dict(
  text="C04_treeBuild_eq_flattenSpec_rules proves, for all trees of style rules (any selector lists, `&` anywhere), declarations and nested properties and for every variant of the visitor model, that grass's CSS-tree algorithm (add_child/through/with_parent, finish, invisibility, the reader's block view) yields exactly the hand-flattened block list; C04_resolveParent_cross_product / _repeated_length give parents × children in source order; C04_nested_property_name, C04_finish_invisible, C04_declaration_order cover names, vanishing empty rules and order. PARTIAL: bubbling @media/@supports/unknown at-rules and @at-root are covered by the correspondence only (C04_full stated, C04_specHolds_rules_partial proved). Tie: generated rule trees, two diffs per tree (treeBuild vs grass = tie; flattenSpec vs grass = property verdict by the Lean driver).",
  note="Known findings C04-D1/D2/D3 (@at-root) are modelled by explicit switches; the check detects from the witnesses which deviations are present and ties against that variant. Outside the model: @extend, keyframes, placeholders, :not(&), general media-query merge (C17).",
  technique="Lean 4 theorems over a model of grass's CSS-tree splicing checked against an independent hand-flattening spec; generated-tree correspondence with two diffs"),
}

def main():
    props = [json.loads(l) for l in open(os.path.join(VERIF, "properties.jsonl"))]
    checks = []
    for p in props:
        c = CLAIMS.get(p["id"])
        if not c:
            continue
        checks.append({
            "property_id": p["id"], "quick_cmd": f"./check {p['id']} --tier quick",
            "thorough_cmd": f"./check {p['id']} --tier thorough", "evidence_file": f"evidence/{p['id']}.json",
            "replay_cmd_template": f"./check {p['id']} --replay {{path}}", "engine": "lean-model+correspondence",
            "technique": c["technique"],
            "level_claimed": {"category": "proof", "text": c["text"], "design_ref": f"DESIGN.md §8 {p['id']}, §11"},
            "level_note": TB + c["note"]})
    m = {"version": 1, "setup_cmd": "./setup.sh",
         "hooks": {"guard": "grass_verif",
                   "enable": "none needed: every check drives grass through its public API (from_string/from_path/Options/Fs/Logger and the CLI binary); the runner crate path-depends on /repo/crates/compiler and is rebuilt from /repo's working tree by every check",
                   "baseline_off_cmd": "cd /repo && cargo test --workspace --no-fail-fast --offline",
                   "source_commits": [], "add_only": True},
         "engines": [{"name": "lean-model+correspondence", "path": "lean/ runner/ tools/ check",
                      "serves_properties": sorted(CLAIMS),
                      "kind_free_text": "Lean 4 model + theorems (lake build, generated axiom audit), compiled per-core model drivers, Rust compile server over grass's public API, python orchestrator/generators"}],
         "checks": checks,
         "not_applicable": [{"property_id": p["id"], "reason": "not yet claimed: its check is still being built/reviewed in this round (Lean model and tie planned in DESIGN.md §8)"}
                            for p in props if p["id"] not in CLAIMS],
         "notes": "Technique family: machine-checked proof in Lean 4 with a checked tie to the code (correspondence + translators). See DESIGN.md, in particular §3 (how a check decides), §5 (trusted base), §11 (status, fixes, known findings, seeded changes)."}
    json.dump(m, open(os.path.join(VERIF, "MANIFEST.json"), "w"), indent=1)
    print("claimed:", sorted(CLAIMS))

main()
