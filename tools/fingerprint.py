#!/usr/bin/env python3
"""Record the content hashes of every property's anchor files (the snapshot the hand-written
models were validated against):  tools/fingerprint.py --update"""
import json, os, sys
sys.path.insert(0, os.path.dirname(os.path.abspath(__file__)))
import vlib
props = [json.loads(l)["id"] for l in open(os.path.join(vlib.VERIF, "properties.jsonl"))]
data = {p: vlib.source_hashes(p) for p in props}
if "--update" in sys.argv:
    os.makedirs(os.path.dirname(vlib.FINGERPRINTS), exist_ok=True)
    json.dump(data, open(vlib.FINGERPRINTS, "w"), indent=1, sort_keys=True)
    print("updated", vlib.FINGERPRINTS)
else:
    for p in props:
        print(p, vlib.changed_sources(p))
