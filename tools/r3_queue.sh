#!/bin/bash
# Sequentially confirm and test seeded changes listed in a queue file (one seeded/<name> per line);
# new lines may be appended while it runs. Stops when it reads the line "END".
cd "$(dirname "$0")/.."
Q=${1:-/tmp/r3_queue.txt}; touch $Q
n=0
while true; do
  total=$(wc -l < $Q)
  if [ $n -ge $total ]; then sleep 20; continue; fi
  n=$((n+1)); d=$(sed -n "${n}p" $Q)
  [ "$d" = "END" ] && break
  [ -d "$d" ] || continue
  echo "=== $d confirm $(date +%T)"
  python3 tools/confirm_seed.py $d 2>&1 | tail -2
  echo "=== $d check $(date +%T)"
  python3 tools/seedqueue.py $d 2>&1 | tail -2
done
