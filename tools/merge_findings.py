#!/usr/bin/env python3
"""Folds known-findings.d/*.json into the single committed known-findings.json (the per-property
files exist only so that several builders could work in parallel).  Entries keep their fields;
`fixed` entries of the per-property files that duplicate a fixed entry of the main file (same id)
are dropped.  After merging the directory is removed; vlib reads the single file."""
import glob, json, os, shutil
V = os.path.dirname(os.path.dirname(os.path.abspath(__file__)))
main = json.load(open(os.path.join(V, "known-findings.json")))
have = {(f["property"], f["id"], f["status"]) for f in main["findings"]}
ids_fixed = {f["id"] for f in main["findings"] if f["status"] == "fixed"}
for p in sorted(glob.glob(os.path.join(V, "known-findings.d", "*.json"))):
    k = json.load(open(p))
    for f in k.get("findings", []):
        if f.get("status") == "fixed" and (f["id"] in ids_fixed or any(f["id"].endswith(i) or i.endswith(f["id"]) for i in ids_fixed)):
            continue
        key = (f["property"], f["id"], f.get("status"))
        if key in have:
            continue
        have.add(key)
        main["findings"].append(f)
main["findings"].sort(key=lambda f: (0 if f["status"] == "known" else 1, f["property"], f["id"]))
main["comment"] = ("Genuine defects of connorskees/grass found by the checks. status=known entries are reported as "
                   "KNOWN-FINDING lines (exit 0) when the failing case matches `match` (an exact input, or a class tag the "
                   "check computes from the Lean model); status=fixed entries record a repair (`fixed_line`: "
                   "`fixed: property=<id> <commit> <what failed>`) and suppress nothing. Never written at run time.")
json.dump(main, open(os.path.join(V, "known-findings.json"), "w"), indent=1, ensure_ascii=False)
shutil.rmtree(os.path.join(V, "known-findings.d"))
print(sum(f["status"] == "known" for f in main["findings"]), "known,", sum(f["status"] == "fixed" for f in main["findings"]), "fixed")
