#!/usr/bin/env python3
"""Markdown table of the seeded changes and which check detects them (from seeded/*/meta.json)."""
import glob, json, os
VERIF = os.path.dirname(os.path.dirname(os.path.abspath(__file__)))
rows = []
for d in sorted(glob.glob(os.path.join(VERIF, "seeded", "*"))):
    mp = os.path.join(d, "meta.json")
    if not os.path.exists(mp):
        continue
    m = json.load(open(mp))
    c = m.get("confirmed")
    conf = "yes" if isinstance(c, dict) and c.get("ok") else ("no: " + json.dumps(c)[:60] if isinstance(c, dict) else str(c))
    det = []
    for k, v in (m.get("detection") or {}).items():
        if isinstance(v, dict):
            impl = [x for x in v.get("violations", []) if "no-failing-input-found" not in x]
            det.append(f"{k}: {'DETECTED' if impl else ('alarm without input' if v.get('violations') else 'missed')}")
    summ = (m.get("summary") or m.get("needs_to_manifest") or "")[:110].replace("|", "/").replace("\n", " ")
    rows.append(f"| {os.path.basename(d)} | {m.get('property')} | {summ} | {conf} | {'; '.join(det) or 'not run yet'} |")
print("| seeded change | property | what it does | confirmed (suite green, demo fails) | checks |")
print("|---|---|---|---|---|")
print("\n".join(rows))
