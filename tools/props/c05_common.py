"""Shared by C05 / C06: model-tree generator with its SCSS printer and driver encoding (the tie),
program generator for the direct oracles, CSS canonicalisers, corpus selection.

Model trees (python mirror of Grass.Serialize.Stmt):
  ("rule", ge, sel, body)        sel = [(lineBreak, [comp…])], comp = ("cb", ch) | ("cp", [("s", text) | ("ph", name)])
  ("decl", name, custom, value)  value = ("a", atom) | ("l", sep, [atom…]); atom = ("r", text) | ("qs", text); sep in "scl"
  ("media", ge, [query…], body)  query = (modifier|None, type|None, [cond…], conjunction)
  ("supports", ge, params, body)
  ("at", ge, name, params, hasBody, body)
  ("kf", [sel…], body)
  ("comment", col, text)
  ("import", url, mods|None)
"""
import json
import os
import re

import cssread
from vlib import VERIF, hexs

# ---------------------------------------------------------------------------------------------
# driver encoding
# ---------------------------------------------------------------------------------------------


def _b(x):
    return "1" if x else "0"


def _oh(x):
    return "_" if x is None else hexs(x)


def enc_atom(a):
    return [a[0], hexs(a[1])]


def enc_value(v):
    if v[0] == "a":
        return ["a"] + enc_atom(v[1])
    out = ["l", v[1], str(len(v[2]))]
    for a in v[2]:
        out += enc_atom(a)
    return out


def enc_sel(sel):
    out = [str(len(sel))]
    for lb, comps in sel:
        out += ["cx", _b(lb), str(len(comps))]
        for c in comps:
            if c[0] == "cb":
                out += ["cb", c[1]]
            else:
                out += ["cp", str(len(c[1]))]
                for s in c[1]:
                    out += [s[0], hexs(s[1])]
    return out


def enc_body(body):
    out = [str(len(body))]
    for s in body:
        out += enc_stmt(s)
    return out


def enc_stmt(s):
    k = s[0]
    if k == "rule":
        return ["rule", _b(s[1])] + enc_sel(s[2]) + enc_body(s[3])
    if k == "decl":
        return ["decl", hexs(s[1]), _b(s[2])] + enc_value(s[3])
    if k == "media":
        out = ["media", _b(s[1]), str(len(s[2]))]
        for (m, t, cs, conj) in s[2]:
            out += ["q", _oh(m), _oh(t), _b(conj), str(len(cs))] + [hexs(c) for c in cs]
        return out + enc_body(s[3])
    if k == "supports":
        return ["supports", _b(s[1]), hexs(s[2])] + enc_body(s[3])
    if k == "at":
        return ["at", _b(s[1]), hexs(s[2]), hexs(s[3]), _b(s[4])] + enc_body(s[5])
    if k == "kf":
        return ["kf", str(len(s[1]))] + [hexs(x) for x in s[1]] + enc_body(s[2])
    if k == "comment":
        return ["comment", str(s[1]), hexs(s[2])]
    if k == "import":
        return ["import", hexs(s[1]), _oh(s[2])]
    raise ValueError(k)


def print_request(style, charset, tree):
    return " ".join(["ser", "print", "c" if style == "compressed" else "e", _b(charset)] + enc_body(tree))


# ---------------------------------------------------------------------------------------------
# source nodes -> SCSS text and expected model tree
# ---------------------------------------------------------------------------------------------
# A source node is a model node, or ("bubble", sel, decls, atnode) = a top-level style rule whose
# last child is an at-rule containing declarations (grass hoists the at-rule after the rule and
# marks IT as the group end).

SAFE_Q = set("abcdefghijklmnopqrstuvwxyzABCDEFGHIJKLMNOPQRSTUVWXYZ0123456789 _-.,:;{}/*@$&%()!<>=+~[]|^?")


def scss_string_literal(s, rng):
    out = ['"']
    for ch in s:
        if ch in SAFE_Q or (ord(ch) >= 0xA0 and rng.random() < 0.7):
            out.append(ch)
        else:
            out.append("\\%x " % ord(ch))
    out.append('"')
    return "".join(out)


def src_atom(a, rng):
    if a[0] == "qs":
        return scss_string_literal(a[1], rng)
    t = a[1]
    if re.fullmatch(r"[a-z][a-z0-9-]*|[a-z]\\[;}][a-z]?|(0|[1-9][0-9]*)(px|em|%)?|url\([a-z/.]+\)|var\(--[a-z]+\)", t) and t != "":
        return t
    return "unquote(" + scss_string_literal(t, rng) + ")"


def src_value(v, rng):
    if v[0] == "a":
        return src_atom(v[1], rng)
    sep, items = v[1], v[2]
    parts = [src_atom(a, rng) for a in items]
    if sep == "l":
        return "list.slash(" + ", ".join(parts) + ")"
    if len(parts) == 1:
        return "(" + parts[0] + ",)" if sep == "c" else "list.append((), " + parts[0] + ", $separator: space)"
    if sep == "c":
        return ", ".join(parts)
    return " ".join(parts)


def src_selector(sel, rng):
    out = []
    for i, (lb, comps) in enumerate(sel):
        if i:
            out.append(",\n" + " " * rng.randrange(0, 3) if lb else rng.choice([",", ", ", " , "]))
        prev_comb = True
        for c in comps:
            if c[0] == "cb":
                out.append(rng.choice(["", " "]) + c[1] + rng.choice(["", " "]))
                prev_comb = True
            else:
                if not prev_comb:
                    out.append(" ")
                out.append("".join(("%" + s[1]) if s[0] == "ph" else s[1] for s in c[1]))
                prev_comb = False
    return "".join(out)


def src_query(q):
    m, t, cs, conj = q
    head = " ".join(x for x in (m, t) if x)
    conds = (" and " if conj else " or ").join(cs)
    if head and conds:
        return head + " and " + conds
    return head or conds


def src_stmt(s, ind, rng, out):
    pad = " " * ind
    k = s[0]
    if k == "rule":
        out.append(pad + src_selector(s[2], rng) + " {")
        for c in s[3]:
            src_stmt(c, ind + 2, rng, out)
        out.append(pad + "}")
    elif k == "bubble":
        _, sel, decls, at = s
        out.append(pad + src_selector(sel, rng) + " {")
        for c in decls:
            src_stmt(c, ind + 2, rng, out)
        src_stmt(at, ind + 2, rng, out)
        out.append(pad + "}")
    elif k == "decl":
        if s[2]:
            a = s[3][1]
            out.append(pad + s[1] + ":" + a[1] + ";")
        else:
            out.append(pad + s[1] + ": " + src_value(s[3], rng) + ";")
    elif k == "media":
        out.append(pad + "@media " + ", ".join(src_query(q) for q in s[2]) + " {")
        for c in s[3]:
            src_stmt(c, ind + 2, rng, out)
        out.append(pad + "}")
    elif k == "supports":
        out.append(pad + "@supports " + s[2] + " {")
        for c in s[3]:
            src_stmt(c, ind + 2, rng, out)
        out.append(pad + "}")
    elif k == "at":
        head = pad + "@" + s[2] + (" " + s[3] if s[3] else "")
        if not s[4]:
            out.append(head + ";")
        else:
            out.append(head + " {")
            for c in s[5]:
                src_stmt(c, ind + 2, rng, out)
            out.append(pad + "}")
    elif k == "kf":
        out.append(pad + ", ".join(s[1]) + " {")
        for c in s[2]:
            src_stmt(c, ind + 2, rng, out)
        out.append(pad + "}")
    elif k == "comment":
        # the comment starts at column `ind` (s[1] is set by the generator to the same number)
        out.append(" " * s[1] + s[2])
    elif k == "import":
        out.append(pad + "@import " + s[1] + (" " + s[2] if s[2] else "") + ";")
    else:
        raise ValueError(k)


def with_col(s, ind):
    """Comments carry the column at which the printer will put them."""
    k = s[0]
    if k == "comment":
        return ("comment", ind, s[2])
    if k == "rule":
        return ("rule", s[1], s[2], [with_col(c, ind + 2) for c in s[3]])
    if k == "bubble":
        return ("bubble", s[1], [with_col(c, ind + 2) for c in s[2]], with_col(s[3], ind + 2))
    if k == "media":
        return ("media", s[1], s[2], [with_col(c, ind + 2) for c in s[3]])
    if k == "supports":
        return ("supports", s[1], s[2], [with_col(c, ind + 2) for c in s[3]])
    if k == "at":
        return ("at", s[1], s[2], s[3], s[4], [with_col(c, ind + 2) for c in s[5]])
    if k == "kf":
        return ("kf", s[1], [with_col(c, ind + 2) for c in s[2]])
    return s


def to_source(nodes, rng):
    out = ['@use "sass:list";']
    for s in nodes:
        src_stmt(s, 0, rng, out)
    return "\n".join(out) + "\n"


def _blank_atom(a):
    return a[0] == "r" and a[1] == ""


def _blank_value(v):
    return _blank_atom(v[1]) if v[0] == "a" else (len(v[2]) > 0 and all(_blank_atom(a) for a in v[2]))


def drop_blank(s):
    """visitor.rs visit_style: a declaration whose value is blank never reaches the tree."""
    k = s[0]
    if k in ("rule", "media", "supports", "kf"):
        return s[:-1] + ([drop_blank(c) for c in s[-1] if not (c[0] == "decl" and _blank_value(c[3]))],)
    if k == "at":
        return s[:-1] + ([drop_blank(c) for c in s[-1] if not (c[0] == "decl" and _blank_value(c[3]))],)
    return s


def expected_tree(nodes):
    return [drop_blank(s) for s in _expected_tree(nodes)]


def _expected_tree(nodes):
    """The flattened tree grass builds for these source nodes: top-level plain imports are hoisted
    to the front (visitor.rs import_nodes); a top-level style rule is a group end; a bubbled
    at-rule takes the group-end mark of the rule it came out of."""
    imports, rest = [], []
    for s in nodes:
        if s[0] == "import":
            imports.append(s)
        elif s[0] == "rule":
            rest.append(("rule", True, s[2], s[3]))
        elif s[0] == "bubble":
            _, sel, decls, at = s
            rest.append(("rule", False, sel, decls))
            inner = ("rule", False, sel, at[-1])
            if at[0] == "media":
                rest.append(("media", True, at[2], [inner]))
            elif at[0] == "supports":
                rest.append(("supports", True, at[2], [inner]))
            else:
                rest.append(("at", True, at[2], at[3], True, [inner]))
        else:
            rest.append(s)
    return imports + rest


# ---------------------------------------------------------------------------------------------
# generator
# ---------------------------------------------------------------------------------------------

PROPS = ["b", "c", "k", "width", "margin-top", "x-y"]
RAW_TOKENS = ["c", "auto", "10px", "2em", "url(a/b.png)", "var(--x)", "solid", "100%", "a-b", "x1", "0", "12", "c\\;", "c\\;",
              "a\\}b"]
RAW_ALPHA = list("abz09 -_./;;") + ["\n", " ", "é", "✓"]
Q_ALPHA = (list("afgAF09xyz") + [" ", " ", "\t", '"', '"', "'", "'", "\\", "\n", "\r", "\x0c", "\x01", "\x08", "\x0b",
                                  "\x0e", "\x1f", "\x7f", "{", "}", ";", "/", "*", "#", "$", "&", "%", "@", ":", ",",
                                  "é", "✓", "\U0001F600", "\xa0", " "])
TYPES = ["a", "b", "div", "é"]
EXTRAS = [".x", ".y-z", "#i", "[t]", "[t=v]", ":hover", "::before", ":focus"]
MEDIA_CONDS = ["(color)", "(min-width: 100px)", "(a: b)", "(é: 1)"]
SUPPORTS = ["(a: b)", "not (a: b)", "(a: b) and (c: d)", "(a: b) or (c: d)", "(é: ✓)"]
AT_NAMES = ["foo", "bar-baz", "font-face", "page", "layer", "x"]
AT_PARAMS = ["", "", "a", "a b", "é", ":first"]
IMPORT_URLS = ['"a.css"', "url(b.css)", '"http://x/y.css"', '"é.css"']
IMPORT_MODS = [None, None, "screen", "print and (color)"]
COMMENT_WORDS = ["x", "note", "é", "a b", "*", "--", "{", "}", "\"q", "it's", "$v", "&", "%p"]


def gen_quoted(rng):
    r = rng.random()
    if r < 0.15:
        return ""
    n = rng.choice([1, 1, 2, 2, 3, 4, 6, 10])
    return "".join(rng.choice(Q_ALPHA) for _ in range(n))


CLEAN = [False]     # generator mode: raw (unquoted) atoms restricted to CSS tokens


def gen_raw(rng):
    if rng.random() < 0.7:
        return rng.choice(RAW_TOKENS)
    if CLEAN[0]:
        # identifiers separated by spaces / a newline followed by spaces (exercises visit_unquoted_string)
        ws = [rng.choice(["a", "b-c", "é", "x1", "_u"]) for _ in range(rng.choice([1, 2, 3]))]
        return rng.choice([" ", "\n", "\n   ", "  "]).join(ws)
    n = rng.choice([0, 1, 2, 3, 5, 8])
    s = "".join(rng.choice(RAW_ALPHA) for _ in range(n))
    return s


def gen_atom(rng):
    return ("qs", gen_quoted(rng)) if rng.random() < 0.45 else ("r", gen_raw(rng))


def gen_value(rng):
    r = rng.random()
    if r < 0.5:
        return ("a", gen_atom(rng))
    sep = rng.choice("sscl")
    n = rng.choice([1, 2, 2, 3, 4]) if sep != "l" else rng.choice([2, 3])
    return ("l", sep, [gen_atom(rng) for _ in range(n)])


def gen_decl(rng):
    if rng.random() < 0.12:
        # custom property: the value text is kept verbatim (no space is added after the colon)
        txt = rng.choice(["y", " y", " y z", "10px", " url(a/b.png)", " é"])
        return ("decl", "--" + rng.choice(["x", "w", "é"]), True, ("a", ("r", txt)))
    return ("decl", rng.choice(PROPS), False, gen_value(rng))


def gen_compound(rng, allow_ph):
    parts = []
    if rng.random() < 0.6:
        parts.append(("s", rng.choice(TYPES + ["*"])))
    for _ in range(rng.choice([0, 0, 1, 1, 2]) if parts else rng.choice([1, 1, 2])):
        if allow_ph and rng.random() < 0.15:
            parts.append(("ph", rng.choice(["p", "q"])))
        else:
            parts.append(("s", rng.choice(EXTRAS)))
    return ("cp", parts)


def gen_complex(rng, allow_ph):
    comps = [gen_compound(rng, allow_ph)]
    for _ in range(rng.choice([0, 0, 0, 1, 1, 2])):
        c = rng.choice(["", ">", "+", "~"])
        if c:
            comps.append(("cb", c))
        comps.append(gen_compound(rng, allow_ph))
    return comps


def gen_selector(rng, allow_ph=True):
    r = rng.random()
    if allow_ph and r < 0.06:
        return [(False, [("cp", [("ph", rng.choice(["p", "q"]))])])]
    n = rng.choice([1, 1, 1, 2, 2, 3])
    return [(i > 0 and rng.random() < 0.3, gen_complex(rng, allow_ph)) for i in range(n)]


def gen_comment(rng):
    loud = rng.random() < 0.4
    words = [rng.choice(COMMENT_WORDS) for _ in range(rng.choice([0, 1, 2, 3]))]
    if rng.random() < 0.35:
        # multi-line: later lines carry their own indentation
        lines = [" ".join(words)]
        for _ in range(rng.choice([1, 2])):
            lines.append(" " * rng.randrange(0, 7) + rng.choice(["* ", "", "  "]) + rng.choice(COMMENT_WORDS))
        body = "\n".join(lines) + ("\n" + " " * rng.randrange(0, 5) if rng.random() < 0.5 else " ")
    else:
        body = " " + " ".join(words) + " "
    return ("comment", 0, "/*" + ("!" if loud else "") + body + "*/")


def gen_rule_body(rng):
    out = []
    for _ in range(rng.choice([0, 1, 1, 2, 2, 3])):
        out.append(gen_comment(rng) if rng.random() < 0.15 else gen_decl(rng))
    return out


def gen_rule(rng):
    return ("rule", True, gen_selector(rng), gen_rule_body(rng))


def gen_query(rng):
    r = rng.random()
    if r < 0.1:
        return (None, rng.choice([None, "screen"]), ["(not (color))"], True)
    t = rng.choice([None, "screen", "print", "all"])
    m = rng.choice([None, None, "not", "only"]) if t else None
    if t:
        k = rng.choice([0, 0, 1, 2])
        return (m, t, rng.sample(MEDIA_CONDS, k), True)
    k = rng.choice([1, 1, 2, 3])
    return (None, None, rng.sample(MEDIA_CONDS, k), k < 2 or rng.random() < 0.6)


def gen_at_children(rng, depth, in_media, allow_decl):
    out = []
    for _ in range(rng.choice([0, 1, 1, 2, 3])):
        r = rng.random()
        if r < 0.5:
            out.append(gen_rule(rng))
        elif r < 0.6:
            out.append(gen_comment(rng))
        elif r < 0.68 and allow_decl:
            out.append(gen_decl(rng))
        elif r < 0.74:
            out.append(("import", rng.choice(IMPORT_URLS), rng.choice(IMPORT_MODS)))
        elif r < 0.8:
            out.append(("at", False, rng.choice(AT_NAMES), rng.choice(AT_PARAMS), False, []))
        elif depth < 2:
            out.append(gen_at(rng, depth + 1, in_media))
    return out


def gen_at(rng, depth=0, in_media=False):
    r = rng.random()
    if r < 0.4 and not in_media:
        qs = [gen_query(rng) for _ in range(rng.choice([1, 1, 2, 3]))]
        return ("media", False, qs, gen_at_children(rng, depth, True, False))
    if r < 0.6:
        return ("supports", False, rng.choice(SUPPORTS), gen_at_children(rng, depth, in_media, False))
    if r < 0.7:
        frames = []
        for _ in range(rng.choice([0, 1, 2, 3])):
            sels = rng.sample(["from", "to", "50%", "33.5%", "0%"], rng.choice([1, 1, 2]))
            frames.append(("kf", sels, [gen_decl(rng) for _ in range(rng.choice([0, 1, 2]))]))
        return ("at", False, "keyframes", rng.choice(["k", "é"]), True, frames)
    return ("at", False, rng.choice(AT_NAMES), rng.choice(AT_PARAMS), True,
            gen_at_children(rng, depth, in_media, True))


def gen_nodes(rng, ascii_only=False, clean=False):
    CLEAN[0] = clean
    n = rng.choice([0, 1, 1, 2, 2, 3, 3, 4, 5, 6])
    nodes = []
    for _ in range(n):
        r = rng.random()
        if r < 0.4:
            nodes.append(gen_rule(rng))
        elif r < 0.62:
            nodes.append(gen_at(rng))
        elif r < 0.74:
            nodes.append(gen_comment(rng))
        elif r < 0.82:
            nodes.append(("import", rng.choice(IMPORT_URLS), rng.choice(IMPORT_MODS)))
        elif r < 0.88:
            nodes.append(("at", False, rng.choice(AT_NAMES), rng.choice(AT_PARAMS), False, []))
        else:
            decls = [gen_decl(rng) for _ in range(rng.choice([0, 1, 2]))]
            inner = [gen_decl(rng) for _ in range(rng.choice([0, 1, 2]))]
            k = rng.random()
            if k < 0.5:
                at = ("media", False, [gen_query(rng)], inner)
            elif k < 0.75:
                at = ("supports", False, rng.choice(SUPPORTS), inner)
            else:
                at = ("at", False, rng.choice(["foo", "layer"]), rng.choice(AT_PARAMS), True, inner)
            nodes.append(("bubble", gen_selector(rng, allow_ph=False), decls, at))
    nodes = [with_col(s, 0) for s in nodes]
    if ascii_only:
        nodes = _asciify(nodes)
    return nodes


def _asciify(x):
    if isinstance(x, str):
        return "".join(ch if ord(ch) < 128 else "u" for ch in x)
    if isinstance(x, (list, tuple)):
        return tuple(_asciify(y) for y in x) if isinstance(x, tuple) else [_asciify(y) for y in x]
    return x


def tuplify(x):
    if isinstance(x, list):
        return [tuplify(y) for y in x]
    if isinstance(x, tuple):
        return tuple(tuplify(y) for y in x)
    return x


def tree_features(tree):
    """Branch set reached by a model tree (for the non-triviality rule and the histogram)."""
    f = set()

    def atom(a):
        if a[0] == "qs":
            s = a[1]
            if '"' in s and "'" in s:
                f.add("quote:both")
            elif '"' in s:
                f.add("quote:double-inside")
            if any(ord(c) < 32 and c != "\t" for c in s):
                f.add("quote:control")
            if "\\" in s:
                f.add("quote:backslash")
        else:
            if "\n" in a[1]:
                f.add("raw:newline")
            if a[1] == "":
                f.add("raw:blank")

    def walk(s, top):
        k = s[0]
        f.add(("top:" if top else "in:") + k)
        if k == "rule":
            if all(any(x[0] == "ph" for c in comps if c[0] == "cp" for x in c[1]) for _, comps in s[2]):
                f.add("invisible:placeholder-rule")
            elif any(any(x[0] == "ph" for c in comps if c[0] == "cp" for x in c[1]) for _, comps in s[2]):
                f.add("selector:placeholder-complex-dropped")
            if any(lb for lb, _ in s[2]):
                f.add("selector:linebreak")
            if any(c[0] == "cb" for _, comps in s[2] for c in comps):
                f.add("selector:combinator")
            if not s[3]:
                f.add("invisible:empty-rule")
            for c in s[3]:
                walk(c, False)
        elif k == "decl":
            v = s[3]
            if s[2]:
                f.add("decl:custom")
            if v[0] == "a":
                atom(v[1])
            else:
                f.add("list:" + v[1])
                for a in v[2]:
                    atom(a)
        elif k == "media":
            if len(s[2]) > 1:
                f.add("media:list")
            if any(q[2] == ["(not (color))"] for q in s[2]):
                f.add("media:not-slice")
            if not s[3]:
                f.add("invisible:empty-at")
            for c in s[3]:
                walk(c, False)
        elif k == "supports":
            for c in s[2 + 1]:
                walk(c, False)
        elif k == "at":
            if s[1]:
                f.add("groupend:at")
            if not s[4]:
                f.add("at:no-body")
            for c in s[5]:
                walk(c, False)
        elif k == "kf":
            for c in s[2]:
                walk(c, False)
        elif k == "comment":
            f.add("comment:loud" if s[2].startswith("/*!") else "comment:plain")
            if "\n" in s[2]:
                f.add("comment:multiline")

    for s in tree:
        walk(s, True)
        if s[0] in ("media", "supports") and s[1]:
            f.add("groupend:at")
    if any(ord(c) > 127 for c in json.dumps(tree, ensure_ascii=False)):
        f.add("non-ascii")
    return f


# ---------------------------------------------------------------------------------------------
# canonicalisation of CSS text (independent reader: tools/cssread.py)
# ---------------------------------------------------------------------------------------------

_NAMED = None


def named_colors():
    global _NAMED
    if _NAMED is None:
        d = json.load(open(os.path.join(VERIF, "tools", "data", "css_named_colors.json")))
        _NAMED = {k: tuple(v) for k, v in d["colors"].items()}
        _NAMED["transparent"] = (0, 0, 0, 0)
    return _NAMED


_tok = re.compile(
    r"""(?P<str>"(?:[^"\\]|\\.)*"|'(?:[^'\\]|\\.)*')
      |(?P<ws>\s+)
      |(?P<hash>\#[0-9a-fA-F]+(?![\w-]))
      |(?P<num>(?<![\w.#-])[+-]?(?:\d+\.?\d*|\.\d+)(?:[eE][+-]?\d+)?)
      |(?P<ident>-?-?[A-Za-z_\u0080-\U0010ffff][\w\u0080-\U0010ffff-]*|--)
      |(?P<other>.)""", re.X | re.S)

CANON_RULES = [
    "whitespace runs collapse to one space; dropped at the ends, after '(' and before ')'; in preludes (selectors, at-rule "
    "parameters) also around ',' '>' '+' '~' ':'; in values wherever removing it leaves the CSS token stream unchanged "
    "(e.g. around ',' '/' '*', next to a string, before '#hash' or '!important'), never before '(', after ')' when an identifier/number follows, or around a bare '+'/'-'",
    "a number token drops a leading '+', leading zeros of the integer part ('0.5' = '.5') and trailing fraction zeros",
    "#rgb/#rgba/#rrggbb/#rrggbbaa and CSS colour keywords used as a whole value token become rgba(r,g,b,a)",
    "comments other than /*! … */ are dropped; the last declaration's semicolon is optional",
    "@charset rule / BOM at the start is dropped",
    "a style rule, @media or @supports block with no declarations, rules or kept comments inside is dropped (other at-rules with an empty block are kept)",
    "a string token is compared by its value (CSS escapes decoded, either quote kind)",
    "rgb()/rgba() with integer channels and #rrggbbaa compare by channels with alpha rounded to 5 decimals",
    "when styles differ: hsl()/hsla() values are converted to channels and colour tokens may differ by 1/255 per channel (rounding)",
    "whitespace inside kept comments collapses (re-indentation of comment lines is not meaning)",
]


def _canon_num(t):
    m = re.fullmatch(r"([+-]?)(\d*)\.?(\d*)((?:[eE][+-]?\d+)?)", t)
    if not m:
        return t
    sign, ip, fp, ex = m.groups()
    if ex:
        return t.lower()
    ip = ip.lstrip("0")
    fp = fp.rstrip("0")
    if not ip and not fp:
        return "0"
    return ("-" if sign == "-" else "") + ip + ("." + fp if fp else "")


def _hash_rgba(h):
    h = h[1:]
    if len(h) in (3, 4):
        h = "".join(c * 2 for c in h)
    if len(h) == 6:
        h += "ff"
    if len(h) != 8:
        return None
    return tuple(int(h[i:i + 2], 16) for i in (0, 2, 4, 6))


_esc = re.compile(r"\\(?:([0-9a-fA-F]{1,6})[ \t\n]?|(\n)|(.))", re.S)


def string_value(tok):
    """The value of a CSS string token (escapes decoded, quote kind forgotten)."""
    body = tok[1:-1]

    def rep(m):
        if m.group(1):
            n = int(m.group(1), 16)
            return chr(n) if 0 < n < 0x110000 and not (0xD800 <= n < 0xE000) else "\ufffd"
        if m.group(2):
            return ""
        return m.group(3)
    return _esc.sub(rep, body)


def canon_string(tok):
    return json.dumps(string_value(tok), ensure_ascii=False)


_rgba_fn = re.compile(r"rgba?\(\s*(\d+)\s*,\s*(\d+)\s*,\s*(\d+)\s*(?:,\s*([0-9.]+)\s*)?\)")


def _rgba_str(r, g, b, a):
    return "rgba(%d,%d,%d,%s)" % (r, g, b, _canon_num("%.5f" % a))


def canon_text(s, colors=True, prelude=False):
    """Canonical form of a value / prelude (rules: CANON_RULES)."""
    toks = []
    prev_kind = None
    if colors:
        s = _rgba_fn.sub(lambda m: _rgba_str(int(m.group(1)), int(m.group(2)), int(m.group(3)),
                                             float(m.group(4)) if m.group(4) else 1.0).replace("rgba(", "rgba\x00("), s)
    ms = [(m.lastgroup, m.group()) for m in _tok.finditer(s)]
    ms = [(k, " " if k == "ws" else t) for k, t in ms]
    # pass 1: canonical text of every token (colour decisions look at the ORIGINAL neighbours)
    canon, standin = [], []
    for i, (k, t) in enumerate(ms):
        c, sd = t, t
        if k == "str":
            c = sd = canon_string(t)
        elif k == "num":
            c = sd = _canon_num(t)
        elif k == "hash":
            rgba = _hash_rgba(t)
            if rgba:
                sd = "zz"       # spelling-independent stand-in: a colour hash counts as an identifier
                if colors:
                    c = _rgba_str(rgba[0], rgba[1], rgba[2], rgba[3] / 255)
        elif k == "ident" and colors:
            nxt = ms[i + 1][1] if i + 1 < len(ms) else ""
            prv = ms[i - 1][1] if i else ""
            rgba = named_colors().get(t.lower())
            if rgba and nxt != "(" and prv not in (".", "#", "-", "@", ":", "%", "$"):
                c = _rgba_str(rgba[0], rgba[1], rgba[2], rgba[3] / 255)
        canon.append(c)
        standin.append(sd)
    # pass 2: whitespace that does not change the token stream (values only)
    if not prelude:
        keep = _drop_insignificant_ws(standin)
        canon = [c for c, kp in zip(canon, keep) if kp]
    toks = canon
    out = "".join(toks)
    out = re.sub(r" +", " ", out)
    parts = re.split(r"""("(?:[^"\\]|\\.)*"|'(?:[^'\\]|\\.)*')""", out)
    for i in range(0, len(parts), 2):
        if prelude:
            parts[i] = re.sub(r" ?([,>+~:]) ?", r"\1", parts[i])
        parts[i] = re.sub(r"\( ", "(", parts[i])
        parts[i] = re.sub(r" \)", ")", parts[i])
    return "".join(parts).strip().replace("rgba\x00(", "rgba(")


def _retok(s):
    return [m.group() for m in _tok.finditer(s)]


def _drop_insignificant_ws(toks):
    """Values: a whitespace token is dropped when the two tokens around it stay two separate tokens
    without it (so it does not change the CSS token stream), except before '(' (function call vs
    parenthesis), after ')' (a functional colour may be spelled as a hash in the other style) and
    around a bare '+' / '-' (calc() needs them).  Returns a keep-mask."""
    keep = [True] * len(toks)
    n = len(toks)
    for i, t in enumerate(toks):
        if t == " " and 0 < i < n - 1:
            a, b = toks[i - 1], toks[i + 1]
            if a in (",", "/", "*", "(") or b in (",", "/", "*", ")"):
                keep[i] = False
            elif b != "(" and a not in ("+", "-", " ") and b not in ("+", "-", " "):
                if a == ")":
                    a = "zz"     # a functional colour may be spelled as a hash / keyword in the other style
                if _retok(a + b) == [a, b]:
                    keep[i] = False
    return keep


def canon_nodes(nodes, colors=True, keep_all_comments=False):
    out = []
    for nd in nodes:
        t = nd["type"]
        if t == "comment":
            if keep_all_comments or nd["text"].startswith("/*!"):
                out.append(("comment", re.sub(r"\s+", " ", nd["text"])))
        elif t == "decl":
            # (a name starting with `--` is not necessarily a declared custom property: `#{--p}: 0.75` is an
            # ordinary declaration whose number is spelled per style, so these values are canonicalised too)
            out.append(("decl", nd["name"], canon_text(nd["value"], colors)))
        elif t == "stmt":
            if nd["text"].lower().startswith("@charset"):
                continue
            out.append(("stmt", canon_text(nd["text"], False, True)))
        else:
            pre = canon_text(nd["prelude"], False, True)
            kids = canon_nodes(nd["children"], colors, keep_all_comments)
            if not kids and (not pre.startswith("@") or re.match(r"@(media|supports)\b", pre, re.I)):
                continue      # an empty style rule / @media / @supports block means nothing
            out.append(("rule", pre, kids))
    return out


def canon_css(text, colors=True):
    """cssread.parse + canonicalisation; raises cssread.IllFormed."""
    text = re.sub(r"""("(?:[^"\\]|\\.)*"|'(?:[^'\\]|\\.)*')""", lambda m: m.group().replace("\\\n", ""), text, flags=re.S)
    return canon_nodes(cssread.parse(text), colors)


_hsl_fn = re.compile(r"hsla?\(\s*(-?[0-9.]+)(?:deg)?\s*,\s*([0-9.]+)%\s*,\s*([0-9.]+)%\s*(?:,\s*([0-9.]+)\s*)?\)")


def _hsl_to_rgb(h, s, l):
    h = (h % 360) / 360.0
    s /= 100.0
    l /= 100.0
    m2 = l * (s + 1) if l <= 0.5 else l + s - l * s
    m1 = l * 2 - m2

    def hue(x):
        x = x % 1.0
        if x * 6 < 1:
            return m1 + (m2 - m1) * x * 6
        if x * 2 < 1:
            return m2
        if x * 3 < 2:
            return m1 + (m2 - m1) * (2 / 3 - x) * 6
        return m1
    return [255 * hue(h + 1 / 3), 255 * hue(h), 255 * hue(h - 1 / 3)]


_rgba_tok = re.compile(r"rgba\((\d+),(\d+),(\d+),([0-9.]+)\)")


def _fuzzy_text_eq(x, y):
    """Equal up to colour tokens: hsl()/hsla() are converted to channels and every colour token may
    differ by at most 1/255 per channel and 1e-4 in alpha (rounding of converted colours)."""
    def norm(t):
        def rep(m):
            r, g, b = _hsl_to_rgb(float(m.group(1)), float(m.group(2)), float(m.group(3)))
            return _rgba_str(round(r), round(g), round(b), float(m.group(4)) if m.group(4) else 1.0)
        return _hsl_fn.sub(rep, t)
    x, y = norm(x), norm(y)
    if x == y:
        return True
    cx, cy = _rgba_tok.findall(x), _rgba_tok.findall(y)
    if len(cx) != len(cy) or _rgba_tok.sub("C", x) != _rgba_tok.sub("C", y):
        return False
    for a, b in zip(cx, cy):
        if any(abs(int(a[i]) - int(b[i])) > 1 for i in range(3)) or abs(float(a[3]) - float(b[3])) > 1e-4:
            return False
    return True


def canon_equal(a, b):
    """Equality of canonical trees; declaration values are compared with `_fuzzy_text_eq`."""
    if a == b:
        return True
    if len(a) != len(b):
        return False
    for x, y in zip(a, b):
        if x == y:
            continue
        if x[0] != y[0]:
            return False
        if x[0] == "decl":
            if x[1] != y[1] or not _fuzzy_text_eq(x[2], y[2]):
                return False
        elif x[0] == "rule":
            if x[1] != y[1] or not canon_equal(x[2], y[2]):
                return False
        else:
            return False
    return True


def first_diff(a, b, path="/"):
    """Smallest description of where two canonical trees differ."""
    if len(a) != len(b):
        for i, (x, y) in enumerate(zip(a, b)):
            if x != y:
                break
        else:
            i = min(len(a), len(b))
        return {"path": path, "index": i, "a": a[i] if i < len(a) else None, "b": b[i] if i < len(b) else None,
                "len_a": len(a), "len_b": len(b)}
    for i, (x, y) in enumerate(zip(a, b)):
        if x == y:
            continue
        if x[0] == "rule" and y[0] == "rule" and x[1] == y[1]:
            return first_diff(x[2], y[2], path + x[1] + "/")
        return {"path": path, "index": i, "a": _shallow(x), "b": _shallow(y)}
    return None


def _shallow(x):
    return (x[0], x[1], "…") if x and x[0] == "rule" else x


# ---------------------------------------------------------------------------------------------
# corpus selection
# ---------------------------------------------------------------------------------------------

_RANDOM = re.compile(r"random\s*\(|unique-id\s*\(|unique_id\s*\(")


def corpus_cases():
    """Golden-corpus `test` cases usable by C05/C06: not ignored, default-syntax options kept, no
    random()/unique-id()."""
    import corpus
    cases, _ = corpus.load()
    out = []
    for c in cases:
        if c["kind"] != "test" or c["ignored"]:
            continue
        if _RANDOM.search(c["input"]):
            continue
        out.append(c)
    return out


def seq_batches(jobs, size=40):
    return [{"mode": "seq", "jobs": jobs[i:i + size]} for i in range(0, len(jobs), size)]


def run_jobs(pool, jobs, size=40, timeout=60):
    """Run compile jobs in `seq` batches (one runner request per batch); a batch that does not
    come back is re-run job by job."""
    from vlib import compile_job  # noqa
    batches = seq_batches(jobs, size)
    res = pool.map(batches, timeout=timeout)
    out = []
    for b, r in zip(batches, res):
        rs = r.get("results") if r.get("status") == "ok" else None
        if rs is None or len(rs) != len(b["jobs"]):
            rs = pool.map(b["jobs"], timeout=20)
        out += rs
    return out


# ---------------------------------------------------------------------------------------------
# program generator for the direct oracles (SassScript features; not tied to the model)
# ---------------------------------------------------------------------------------------------

P_NUMS = ["0.5", "1.25", "10", "0.125", "3", "100", "0.05", "2.5", "1e-3", "0.999", "33.3333333333", "7"]
P_UNITS = ["", "px", "em", "%", "rem", "s", "deg"]
P_COLORS = ["red", "#ff0000", "#f00", "#00f", "blue", "#abcdef", "#aabbcc", "rgba(1, 2, 3, 0.5)", "hsl(120, 50%, 50%)",
            "#123", "transparent", "white", "#ffffff", "rgb(255, 0, 0)", "#ff000080", "rebeccapurple", "#808080"]
P_STRS = ['"a b"', '"é"', "'q'", "foo", "bar-baz", '"✓ ok"', '"a,b"', '"a-b"']
P_SELS = ["a", ".x", "#i", "b > c", ".y + .z", "d ~ e", "f g", "h:hover", "[t=v]", "k, l", "m::before", "é"]
P_PROPS = ["color", "width", "margin", "content", "b", "font-family", "z-index", "background"]


def _p_num(rng):
    return rng.choice(P_NUMS) + rng.choice(P_UNITS)


def _p_expr(rng, depth=0):
    r = rng.random()
    if depth > 2 or r < 0.25:
        return rng.choice([_p_num(rng), rng.choice(P_COLORS), rng.choice(P_STRS), "$n", "$c", "$s", "$l"])
    if r < 0.4:
        return _p_arith(rng)
    if r < 0.55:
        return rng.choice(["mix(%s, %s, 30%%)" % (rng.choice(P_COLORS), rng.choice(P_COLORS)),
                           "lighten(%s, 10%%)" % rng.choice(P_COLORS[:6]),
                           "rgba(%s, 0.%d)" % (rng.choice(P_COLORS[:6]), rng.randrange(1, 10)),
                           "darken($c, 5%)", "invert(%s)" % rng.choice(P_COLORS[:6]),
                           "adjust-hue($c, 45deg)", "opacify(rgba(#102030, 0.25), 0.25)"])
    if r < 0.7:
        return rng.choice(['"#{%s}"' % _p_expr(rng, depth + 1), "#{%s}" % _p_expr(rng, depth + 1),
                           'quote(%s)' % rng.choice(["foo", '"a"']), "unquote(%s)" % rng.choice(['"a b"', '"é"', "'q'", "foo"]),
                           'str-insert("abc", %s, 2)' % rng.choice(P_STRS[:4]),
                           "%s + %s" % (rng.choice(["white", "#ff0000", "aquamarine", "#f00"]), rng.choice(["-fg", '""', "x", "null"])),
                           'str-length(%s + %s)' % (rng.choice(["$c", "rgba(1, 2, 3, 0.5)", "#fff"]), rng.choice(["-fg", '"-q"', "x"])),
                           'str-length(%s + %s)' % (rng.choice(["white", "#ff0000", "aquamarine", "$c"]), rng.choice(["-fg", '""', "x"])), '"a" + "%s"' % rng.choice(["b", " c", "é"]),
                           "to-upper-case($s)", "str-length(\"#{%s}\")" % _p_expr(rng, depth + 1),
                           "to-lower-case(%s)" % rng.choice(P_STRS)])
    if r < 0.85:
        items = [_p_expr(rng, depth + 2) for _ in range(rng.choice([2, 2, 3]))]
        return rng.choice([" ".join(items), "(" + ", ".join(items) + ")", "nth($l, 1)", "join($l, (%s))" % ", ".join(items),
                           "length($l)", "append($l, %s)" % items[0], "[%s]" % ", ".join(items)])
    return rng.choice(["if($n > 1, %s, %s)" % (_p_expr(rng, depth + 1), _p_expr(rng, depth + 1)),
                       "round(%s)" % _p_num(rng), "percentage(0.%d)" % rng.randrange(1, 99),
                       "math.div(1, 3)", "math.div(2, 3) * 1px", "min(1px, 2px)", "calc(1px + 2%)", "calc(0.5 * 3px)",
                       "calc(100% - 32px)", "calc(var(--a) - 1px)", "min(1px - 1%, 2em)", "clamp(1px, 50% - 2px, 3em)",
                       "calc(1px - (2% - 3em))", "max(10% - 1px, 2px + 1%)", "calc(-1 * (1px - 2%))",
                       "abs(-0.5)", "max(0.5, 0.25)", "f(%s)" % _p_num(rng), "map-get($m, k)", "null", "()"][:-1])


def _p_arith(rng):
    a, b = rng.choice(P_NUMS), rng.choice(P_NUMS)
    u = rng.choice(P_UNITS)
    if rng.random() < 0.2:
        # magnitudes below the printing precision (float noise), both signs
        return rng.choice(["0.3 - 0.1 - 0.2", "(0.3 - 0.1 - 0.2) * 1%s" % (u or "px"), "0.1 + 0.2 - 0.3", "-1e-11%s" % u, "1e-11%s" % u,
                           "-0.00000000004%s" % u, "0.00000000004%s" % u, "-0.0", "math.div(-1%s, 1e12)" % u, "0.3%s - 0.1 - 0.2" % u,
                           "-0.00000000006%s" % u, "1 - 0.9 - 0.1"])
    return rng.choice(["%s%s + %s%s" % (a, u, b, u), "%s%s - %s%s" % (a, u, b, u), "%s%s * %s" % (a, u, b),
                       "math.div(%s%s, %s)" % (a, u, b), "-%s%s" % (a, u), "(%s + %s) * 1%s" % (a, b, u or "px"),
                       "%s %% %s" % (a, b)])


def _p_decl(rng, ind):
    pad = " " * ind
    r = rng.random()
    if r < 0.08:
        return pad + "#{%s}-x: %s;" % (rng.choice(["a", "b-c", '"w"']), _p_expr(rng))
    if r < 0.14:
        return pad + "font: { family: %s; size: %s; }" % (rng.choice(P_STRS), _p_num(rng))
    if r < 0.2:
        return pad + "--%s: %s;" % (rng.choice(["v", "w"]), rng.choice(["#{$n}", "1px", "{a: b}", "#{$c}", " x  y", '"q"']))
    if r < 0.24:
        # a value whose last character is an (escaped) ';'
        return pad + "%s: %s" % (rng.choice(["sep", "b"]), rng.choice(["c\\;", "x c\\;", "a, c\\;"])) + rng.choice([";", ""])
    imp = " !important" if rng.random() < 0.05 else ""
    return pad + "%s: %s%s;" % (rng.choice(P_PROPS), _p_expr(rng), imp)


def _p_block(rng, ind, depth):
    pad = " " * ind
    out = []
    for _ in range(rng.choice([1, 2, 2, 3, 4])):
        r = rng.random()
        if r < 0.5 or depth > 2:
            out.append(_p_decl(rng, ind))
        elif r < 0.62:
            sel = rng.choice(["&:hover", "&-s", "& + &", ".n &", "> i", "&.on", rng.choice(P_SELS), "#{$s}-k", "& &"])
            out.append(pad + sel + " {")
            out += _p_block(rng, ind + 2, depth + 1)
            out.append(pad + "}")
        elif r < 0.7:
            out.append(pad + "@media %s {" % rng.choice(["screen", "(min-width: #{10 * 2}px)", "print and (a: b)", "not all"]))
            out += _p_block(rng, ind + 2, depth + 1)
            out.append(pad + "}")
        elif r < 0.76:
            out.append(pad + "@extend %s;" % rng.choice(["%ph", "%ph2", ".base"]))
        elif r < 0.82:
            out.append(pad + rng.choice(["@include mx(%s);" % _p_num(rng), "@include my { z: 1; }", "@include mx;"]))
        elif r < 0.87:
            out.append(pad + "@if %s { %s } @else { %s }" % (rng.choice(["$n > 1", "$s == foo", 'str-length("#{$n}") == 3', "not $b", '"#{$c}" == "red"']),
                                                              _p_decl(rng, 0), _p_decl(rng, 0)))
        elif r < 0.92:
            out.append(pad + rng.choice(["@each $e in $l { e-#{$e}: $e; }", "@for $i from 1 through 3 { w#{$i}: $i * 0.25; }",
                                         "@each $k, $v in $m { #{$k}: $v; }", "$j: 0; @while $j < 2 { j#{$j}: $j; $j: $j + 1; }"]))
        elif r < 0.96:
            out.append(pad + rng.choice(["/* c #{$n} */", "/*! loud */", "// silent", "/* multi\n" + pad + "   line */"]))
        else:
            out.append(pad + "@at-root .r { %s }" % _p_decl(rng, 0))
    return out


def gen_program(rng):
    out = ['@use "sass:math";',
           "$n: %s; $c: %s; $s: %s; $b: %s;" % (_p_num(rng), rng.choice(P_COLORS), rng.choice(P_STRS), rng.choice(["true", "false", "null"])),
           "$l: %s;" % rng.choice(["1px 2px 3px", "(a, b, c)", "(0.5, red, \"q\")", "[x y]", "(1, 2 3, 4)"]),
           "$m: (k: %s, j: %s);" % (_p_num(rng), rng.choice(P_COLORS)),
           "@function f($x) { @return $x * 2; }",
           "@mixin mx($a: 1px) { m: $a; &:focus { n: $a * 0.5; } }",
           "@mixin my { .in & { @content; } }",
           "%ph { ph: 1; }", "%ph2 { ph: $n; .deep & { q: r; } }", ".base { base: $c; }"]
    if rng.random() < 0.15:
        out.append('@import "x.css";')
    for _ in range(rng.choice([1, 2, 2, 3, 4])):
        r = rng.random()
        if r < 0.7:
            out.append(rng.choice(P_SELS + ["%s, %s" % (rng.choice(P_SELS), rng.choice(P_SELS)), ".#{$s}x"]) + " {")
            out += _p_block(rng, 2, 0)
            out.append("}")
        elif r < 0.8:
            out.append("@media %s {" % rng.choice(["screen", "screen and (max-width: 10em)", "(a: #{1 + 1})"]))
            out.append("  " + rng.choice(P_SELS) + " {")
            out += _p_block(rng, 4, 1)
            out.append("  }")
            out.append("}")
        elif r < 0.86:
            out.append("@supports (display: grid) { .g { " + _p_decl(rng, 0) + " } }")
        elif r < 0.9:
            out.append("@font-face { font-family: %s; src: url(a.woff); }" % rng.choice(P_STRS))
        elif r < 0.94:
            out.append("@keyframes kf { from { %s } #{percentage(0.%d)} { a: b; } to { %s } }" % (_p_decl(rng, 0), rng.randrange(1, 99), _p_decl(rng, 0)))
        else:
            out.append(rng.choice(["/* top #{$s} */", "/*! keep é */", "@foo bar;", "@layer a, b;"]))
    return "\n".join(out) + "\n"


# ---------------------------------------------------------------------------------------------
# raw declaration values with nested brackets (custom properties, expression()): matched and
# DELIBERATELY mismatched closers
# ---------------------------------------------------------------------------------------------

_OPEN = "([{"
_CLOSE = {"(": ")", "[": "]", "{": "}"}
_BR_FILL = ["a", "b c", "1px", "x: y", "a, b", "é", "--k", "0"]
# text in which brackets must NOT count: strings, comments, escapes
_BR_NOISE = ['"}"', "'('", '"[{("', "/* ) */", "/* { */", "/* ] } */", "\\}", "\\(", "\\]", '"\\"}"', "'\\')'", "/*(*/"]


def _bracket_body(rng, depth, openers, noise):
    """text with properly nested brackets; `openers` collects (position-independent) the opener kinds used"""
    parts = []
    for _ in range(rng.choice([1, 1, 2])):
        r = rng.random()
        if depth > 0 and r < 0.6:
            o = rng.choice(_OPEN)
            openers.append(o)
            parts.append(o + _bracket_body(rng, depth - 1, openers, noise) + _CLOSE[o])
        elif noise and r < 0.8:
            parts.append(rng.choice(_BR_NOISE))
        else:
            parts.append(rng.choice(_BR_FILL))
    return " ".join(parts)


def bracket_value(rng, depth, noise, mismatch):
    """(text, matched?)  With `mismatch`, exactly one closer of the nest is replaced by a closer of another kind."""
    o = rng.choice(_OPEN)
    inner = _bracket_body(rng, depth - 1, [], noise)
    text = o + inner + _CLOSE[o]
    if not mismatch:
        return text, True
    # positions of real closers (outside strings / comments / escapes)
    pos, i, n = [], 0, len(text)
    while i < n:
        ch = text[i]
        if ch in "\"'":
            j = i + 1
            while j < n and text[j] != ch:
                j += 2 if text[j] == "\\" else 1
            i = j + 1
            continue
        if text.startswith("/*", i):
            i = text.index("*/", i) + 2
            continue
        if ch == "\\":
            i += 2
            continue
        if ch in ")]}":
            pos.append(i)
        i += 1
    k = rng.choice(pos)
    wrong = rng.choice([c for c in ")]}" if c != text[k]])
    return text[:k] + wrong + text[k + 1:], False


def gen_bracket_probe(rng, idx=None):
    """A tiny stylesheet with one raw-value declaration.  The first 27+ probes (idx given) enumerate every
    opener x closer pair at depth 1..3; the rest are random."""
    if idx is not None and idx < 27:
        o, c, d = _OPEN[idx % 3], ")]}"[(idx // 3) % 3], idx // 9 + 1
        wrap_o, wrap_c = "(" * (d - 1), ")" * (d - 1)
        val = wrap_o + o + "b" + c + wrap_c
        matched = _CLOSE[o] == c
        noise = False
    else:
        d = rng.choice([1, 1, 2, 2, 3])
        noise = rng.random() < 0.5
        val, matched = bracket_value(rng, d, noise, rng.random() < 0.5)
    ctx = rng.choice(["custom", "custom", "custom-last", "custom-nosemi", "expression", "custom-media", "custom-compact"])
    if ctx == "custom":
        src = "a { --x: %s; c: d }\nz { y: w }\n" % val
    elif ctx == "custom-last":
        src = "a { c: d; --x: %s; }\nz { y: w }\n" % val
    elif ctx == "custom-nosemi":
        src = "a { c: d; --x: %s }\nz { y: w }\n" % val
    elif ctx == "custom-compact":
        src = "a{--x:%s;c:d}z{y:w}\n" % val
    elif ctx == "custom-media":
        src = "@media screen { a { --x: %s; c: d } }\nz { y: w }\n" % val
    else:
        src = "a { c: expression(%s); e: f }\nz { y: w }\n" % val
    return {"src": src, "matched": matched, "ctx": ctx, "value": val, "depth": d, "noise": noise}
