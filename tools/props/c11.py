"""C11 — selector functions are sound with respect to element matching."""
import json
import re
import time

import cssread
from props import selgen as G
from vlib import Check, RunnerPool, compile_job, hexs, log, unhex
from vlib import driver as _driver

def driver(lines, chunk=2500):
    """vlib.driver in chunks: bounded memory of the driver process and of the pipe buffers"""
    out = []
    for i in range(0, len(lines), chunk):
        out += _driver(lines[i:i + chunk])
    return out


EXPECT = ("is-superselector(A,B)=true only if every element context matched by B is matched by A; reflexive; "
          "selector-unify results match only what both operands match; nest/append equal the nested rule; "
          "extend/replace agree with @extend; parse/print keeps the meaning; no crash")


# ---------------------------------------------------------------------------------------------
# implementation side
# ---------------------------------------------------------------------------------------------

def q(text):
    """a Sass string literal holding `text` (selectors of the alphabet contain at most one kind of quote)"""
    return ("'" + text + "'") if '"' in text else ('"' + text + '"')


def _values(css):
    tree = cssread.parse(css)
    out = {}
    for nd in tree:
        if nd["type"] == "rule" and nd["prelude"] == "x":
            d = {c["name"]: c["value"] for c in nd["children"] if c["type"] == "decl"}
            if "i" in d:
                out[int(d["i"])] = d.get("v")
    return out


def eval_exprs(pool, exprs, batch=150):
    """Evaluate Sass expressions with real grass.  Result per expression:
    ('ok', text) | ('null',) | ('err', message) | ('panic', message) | ('timeout',) | ('bad', why)."""
    res = [None] * len(exprs)
    jobs, spans = [], []
    for off in range(0, len(exprs), batch):
        chunk = exprs[off:off + batch]
        src = "\n".join(f"x{{i:{off + k}; v: {e}}}" for k, e in enumerate(chunk))
        jobs.append(compile_job(src, syntax="scss"))
        spans.append((off, len(chunk)))
    answers = pool.map(jobs, timeout=60)
    redo = []
    for (off, n), ans in zip(spans, answers):
        if ans.get("status") == "ok":
            try:
                vals = _values(ans["css"])
            except cssread.IllFormed as e:
                vals = None
            if vals is not None:
                for k in range(n):
                    if off + k in vals:
                        v = vals[off + k]
                        res[off + k] = ("null",) if v is None else ("ok", v)
                    else:
                        res[off + k] = ("bad", "rule missing from output")
                continue
        redo += list(range(off, off + n))
    if redo:
        singles = [compile_job(f"x{{i:{k}; v: {exprs[k]}}}", syntax="scss") for k in redo]
        for k, ans in zip(redo, pool.map(singles, timeout=20)):
            st = ans.get("status")
            if st == "ok":
                try:
                    vals = _values(ans["css"])
                    v = vals.get(k, "<missing>")
                    res[k] = ("null",) if v is None else (("ok", v) if v != "<missing>" else ("bad", "rule missing"))
                except cssread.IllFormed as e:
                    res[k] = ("bad", "ill-formed css: " + str(e))
            elif st == "err":
                res[k] = ("err", (ans.get("err") or {}).get("message", ""))
            elif st == "panic":
                res[k] = ("panic", str(ans.get("panic"))[:300])
            else:
                res[k] = (st or "abort",)
    return res


def eval_rules(pool, sources):
    """Compile whole stylesheets; answer per sheet {marker: selector text} for rules holding `i: N`."""
    out = []
    for ans in pool.map([compile_job(s, syntax="scss") for s in sources], timeout=20):
        st = ans.get("status")
        if st != "ok":
            out.append((st, (ans.get("err") or {}).get("message") or str(ans.get("panic"))[:300]))
            continue
        try:
            rules = cssread.flat_rules(cssread.parse(ans["css"]))
        except cssread.IllFormed as e:
            out.append(("bad", str(e)))
            continue
        found = {}
        for ctx, sel, decls in rules:
            for n, v in decls:
                if n == "i" and sel is not None:
                    found[int(v)] = (sel, ctx)
        out.append(("ok", found))
    return out


def H(text):
    return hexs(text)


def crash_tags(call, g):
    """Class tags of a crash: the call and the panic location make the class precise."""
    msg = " ".join(str(x) for x in g[1:]) if isinstance(g, tuple) else str(g)
    if g[0] == "panic" and call.startswith("simple-selectors(") and "builtin/functions/selector.rs" in msg \
            and "not yet implemented" in msg:
        return ["crash", "S2"]
    if g[0] == "panic" and call.startswith("selector-replace(") and "selector/extend/mod.rs" in msg \
            and "Option::unwrap()" in msg:
        return ["crash", "S3"]
    return ["crash"]


def dec(ans):
    """'ok <hex>' -> text"""
    p = ans.split(" ")
    return unhex(p[1]) if len(p) > 1 else ""


# ---------------------------------------------------------------------------------------------
# case generation
# ---------------------------------------------------------------------------------------------

CORPUS_SUPER = [
    # S1 (fixed, 75edc67): components were skipped after a child / sibling combinator (wrong `true`); regression cases
    ("a > b c", "a > x > b c"), ("a > b c", "a > x b c"), ("a + b c", "a + x + b c"), ("a ~ b c", "a + x > b c"),
    ("a > b", "a > x b"), ("a + b", "a + x b"), ("a ~ b", "a ~ x b"), (".a > .c", ".a > .b .c"), ("x > z", "x > y z"),
    (":not(.a)", ":not(.a.b)"), (":not(.a.b)", ":not(.a)"), (":not(.a, .b)", ":not(.a, .b)"), (":not(.a, .b)", ":not(.a)"),
    (":not(.a)", ":not(.a, .b)"), (":not(a.x, .y)", ":not(a.x, .y)"), (":not(.x .y)", ":not(.y)"), (":not(.y)", ":not(.x .y)"),
    # attributes that differ only in the modifier: `i` matches more values than none / `s`
    ("[t=v]", "[t=v i]"), ("[t=v i]", "[t=v]"), ("[t=v s]", "[t=v i]"), ("[t=v i]", "[t=v s]"), ("a[t=v]", "a[t=v i].x"),
    ("[c=d]", "[c=d i]"), (":not([t=v i])", ":not([t=v])"), (":not([t=v])", ":not([t=v i])"), ("[t=v i]", "[t=v i]"),
    ("[t=\"v w\" i]", "[t=\"v w\"]"), ("[t=\"v w\"]", "[t=\"v w\" i]"),
    # round 3: attribute operators are compared by equality (name, value, modifier, operator)
    ("[t^=v]", "[t^=v]"), ("[t^=v]", "[t=v]"), ("[t=v]", "[t^=v]"), ("[t*=v]", "[t$=v]"), ("[t$=v]", "[t*=v]"), ("[t~=v]", "[t|=v]"),
    ("[t|=v]", "a[t|=v].x"), ("[t~=v i]", "[t~=v]"), ("[t~=v]", "[t~=v i]"), ("[t*=\"v w\"]", "[t*=\"v w\"]:hover"),
    (":not([t^=v])", ":not([t=v])"), (":not([t=v])", ":not([t^=v])"), (":is([t$=v], .x)", "[t$=v]"), ("a > [t^=v]", "a > b[t^=v]"),
    # round 3: pseudos with a non-selector argument are opaque, compared by text
    (":nth-child(2n+1)", "a:nth-child(2n+1)"), (":nth-child(2n+1)", ":nth-child(odd)"), (":nth-child(odd)", ":nth-child(2n+1)"),
    (":lang(en)", ".x:lang(en)"), (":nth-child(2n+1)", ":nth-last-child(2n+1)"), ("a::part(foo)", "a::part(foo)"), ("a", "a::part(foo)"),
    (":not(:nth-child(3))", ":not(:nth-child(3), .x)"), (":is(:nth-child(3), .x)", ".y:nth-child(3)"), ("a ~ :nth-child(2)", "a + b:nth-child(2)"),
    # conservative answers that must stay sound
    ("a > b", "x a > b"), ("a b", "a > x b"), ("a ~ b", "a + b"), ("a", "a.x"), (":is(a, .x)", "a"),
    (":not(.x)", ":not(.x, .y)"), ("a", "a::before"), (".x", ".x:after"),
]


def gen_not_pair(rng):
    """`:not(X)` against `:not(Y)` (also :is/:where/:matches) with comma lists and nested compounds; Y is X with arguments
    added / dropped / strengthened / weakened, so that both directions of the comparison are exercised."""
    k = rng.choice(["not", "not", "not", "is", "where", "matches"])
    args = [[G.gen_compound(rng, 0, False, False, min_simples=rng.choice([1, 1, 2]))] for _ in range(rng.choice([1, 1, 2, 3]))]
    if rng.random() < 0.2:
        args[0] = G.gen_complex(rng, 2, 0, False, False)
    other = [list(x) for x in args]
    op = rng.random()
    if op < 0.3:
        i = rng.randrange(len(other))
        other[i] = G.strengthen(rng, other[i])
    elif op < 0.5 and len(other) > 1:
        other.pop(rng.randrange(len(other)))
    elif op < 0.7:
        other.append([G.gen_compound(rng, 0, False, False)])
    elif op < 0.85:
        i = rng.randrange(len(other))
        c = [s for s in other[i][-1]]
        if len(c) > 1:
            c.pop(rng.randrange(len(c)))
            other[i] = other[i][:-1] + [c]
    host = [s for s in G.gen_compound(rng, 0, False, False) if s[0] in ("type", "cls")] if rng.random() < 0.4 else []
    a = [G._order(host + [("sel", k, args)])]
    b = [G._order(host + [("sel", k, other)])]
    if rng.random() < 0.3:
        pre = [G.gen_compound(rng, 0, False, False), rng.choice(G.COMBS)]
        a, b = pre + a, pre + b
    return ([a], [b]) if rng.random() < 0.5 else ([b], [a])


ATTR_FORMS = [None, "v", "v i", "v s", "V", "V i", "w"]

# round 3 — attribute operators and pseudos with a non-selector argument.  selgen prints ('attr', n, v) as `[n=v]`, so the
# operator's first character rides on the name: ('attr', 't^', 'v i') is `[t^=v i]`.
ATTR_OPS = ["~", "|", "^", "$", "*"]
ATTR_VALUES = ["v", "v", "v", "V", "w", '"v w"', '"v"', '"1x"']
ATTR_MODS = ["", "", "", " i", " s", " I"]
FPSEUDOS = ["nth-child(2n+1)", "nth-child(odd)", "nth-child(even)", "nth-child(3)", "nth-child(n)", "nth-child(-n+3)", "nth-last-child(2n)",
            "nth-last-child(+2)", "nth-of-type(2n+1)", "nth-last-of-type(2)", "lang(en)", "dir(ltr)", "foo(bar)", "state(on)"]
FPELEMS = ["part(foo)", "highlight(h)", "foo(bar)"]


def gen_attr_op(rng, name="t"):
    op = rng.choice(ATTR_OPS + [""])
    return ("attr", name + op, rng.choice(ATTR_VALUES) + rng.choice(ATTR_MODS))


def mk_map(rng):
    """a substitution of alphabet simples by round-3 constructs (applied to both operands of a case, so that derived
    pairs keep their relation)"""
    m = {}
    if rng.random() < 0.8:
        m[("attr", "t", "v")] = gen_attr_op(rng)
    if rng.random() < 0.4:
        m[("attr", "t", None)] = gen_attr_op(rng)
    if rng.random() < 0.6:
        m[("pc", "hover")] = ("pc", rng.choice(FPSEUDOS))
    if rng.random() < 0.3:
        m[("pc", "focus")] = ("pc", rng.choice(FPSEUDOS))
    if rng.random() < 0.3:
        m[("pe", "before")] = ("pe", rng.choice(FPELEMS))
    return m


def remap(l, m):
    def simple(s):
        if s[0] == "sel":
            return ("sel", s[1], remap(s[2], m))
        return m.get(tuple(s), s)
    return [[p if isinstance(p, str) else [simple(s) for s in p] for p in x] for x in l]


def decorate(rng, *lists, p=0.3):
    """with probability p: the lists with one substitution applied to all of them (10%: a second substitution for the last)"""
    if rng.random() >= p:
        return lists
    m = mk_map(rng)
    out = [remap(l, m) for l in lists]
    if len(out) > 1 and rng.random() < 0.1:
        out[-1] = remap(lists[-1], mk_map(rng))
    return tuple(out)


_ATTR_RE = re.compile(r"\[\s*[\w-]+\s*(?:([~|^$*]?=)\s*(\"[^\"]*\"|'[^']*'|[\w-]+)\s*([A-Za-z])?\s*)?\]")
_FP_RE = re.compile(r"(::?)([\w-]+)\(")
_SELP = {"not", "is", "where", "matches", "any"}


def note_constructs(ck, section, *texts):
    """histogram keys: attribute operator / modifier / value form, pseudo kinds actually present in the generated case"""
    for t in texts:
        for mt in _ATTR_RE.finditer(t):
            op, val, md = mt.group(1), mt.group(2), mt.group(3)
            ck.hist(f"{section}:attr[{op or 'any'}]")
            if md:
                ck.hist(f"{section}:attr-modifier-{md}")
            if val and val[0] in "\"'":
                ck.hist(f"{section}:attr-quoted-value")
        for mt in _FP_RE.finditer(t):
            name = mt.group(2)
            if name in _SELP and mt.group(1) == ":":
                ck.hist(f"{section}:pseudo-selector-arg:{name}")
            else:
                ck.hist(f"{section}:pseudo-opaque-arg:{mt.group(1)}{name}")


def gen_attr_pair(rng):
    """compounds / complexes that differ only in the form of one attribute selector (value case, `i` / `s` modifier)"""
    host = [s for s in G.gen_compound(rng, 0, False, False) if s[0] in ("type", "cls", "pc")]
    f1, f2 = rng.choice(ATTR_FORMS), rng.choice(ATTR_FORMS)
    s1, s2 = ("attr", "t", f1), ("attr", "t", f2)
    if rng.random() < 0.6:
        s1 = gen_attr_op(rng)
        r = rng.random()
        s2 = s1 if r < 0.4 else (gen_attr_op(rng) if r < 0.8 else s2)
    a = G._order(host + [s1])
    b = G._order(host + [s2] + ([G.gen_simple(rng, ["cls", "id"])] if rng.random() < 0.3 else []))
    if rng.random() < 0.3:
        pre = [G.gen_compound(rng, 0, False, False), rng.choice(G.COMBS)]
        return [pre + [a]], [pre + [b]]
    if rng.random() < 0.2:
        k = rng.choice(G.SELS)
        return [[[("sel", k, [[a]])]]], [[[("sel", k, [[b]])]]]
    return [[a]], [[b]]


def gen_super_pairs(rng, n):
    pairs = []
    for _ in range(n):
        r = rng.random()
        if r < 0.08:
            pairs.append(gen_attr_pair(rng))
            continue
        if r < 0.15:
            pairs.append(decorate(rng, *gen_not_pair(rng)))
            continue
        if r < 0.45:
            a = G.gen_complex(rng)
            b = G.strengthen(rng, a)
            A, B = [a], [b]
        elif r < 0.6:
            A = G.gen_list(rng)
            B = [G.strengthen(rng, rng.choice(A)) for _ in range(rng.choice([1, 2]))]
        elif r < 0.75:
            # chains that exercise the combinator bookkeeping of the walk
            k = rng.choice([2, 3])
            a = []
            for i in range(k):
                if i:
                    a.append(rng.choice(G.COMBS))
                a.append([rng.choice([("type", "a"), ("type", "b"), ("cls", "x"), ("cls", "y")])])
            b = G.strengthen(rng, a)
            A, B = [a], [b]
        elif r < 0.85:
            A = G.gen_list(rng, 2)
            B = A
        else:
            A, B = G.gen_list(rng, 2), G.gen_list(rng, 2)
        pairs.append(decorate(rng, A, B))
    return pairs


WEIRD = ["> a", "a >", "a > > b", "+ a ~ b", "a ~", ":not(a >)", ":is(> a)", "a, , b", "*|a", "a|b", "[t|=v]", "[t~=v i]",
         ":nth-child(2n+1)", ":nth-child(2n+1 of .x)", ":has(> a)", "::slotted(.x)", ":host(.x)", ":current(a)",
         "a:not(:not(.x))", ":is(:is(a))", ":not(%p)", ":is(%p)", "%p", "%p.x", "a::before:hover", "*", "**", "a*",
         ":not(a, b > c)", ":where(a b, c)", ".\\31 x", "#i#j", "a:after::before", ":matches(.x):matches(.y)",
         ":-moz-any(a, b)", ":not(.x .y)", "a ~ b + c > d e", "::before", ":before:after"]


PSEUDO_NAMES = ["not", "is", "matches", "where", "any", "has", "host", "host-context", "slotted", "current", "nth-child",
                "nth-last-child", "nth-of-type", "cue", "cue-region", "part", "dir", "lang", "state", "highlight", "view-transition-group",
                "-moz-any", "-webkit-any", "foo", "before", "after", "first-line", "selection", "past", "future"]
PSEUDO_ARGS = ["b", ".x", "a b", "> a", "a, .x", "2n+1", "2n+1 of .x", "en", "ltr", "*", ":hover", "b::after", "%p"]


def pseudo_vocabulary(rng, per_name=2):
    """pseudo-classes and pseudo-elements WITH arguments over every name the parser knows (and unknown ones), bare and in a
    compound, for the no-crash clause"""
    out = []
    for name in PSEUDO_NAMES:
        for colons in (":", "::"):
            for arg in rng.sample(PSEUDO_ARGS, per_name):
                p = f"{colons}{name}({arg})"
                out.append(rng.choice([p, "video" + p, ".x" + p, "a > b" + p, p + ":hover", f"{p}, .x", f".x, video{p}"]))
    return out


# ---------------------------------------------------------------------------------------------

def run(tier, seed):
    ck = Check("C11", tier, seed)
    ck.disagreements = []
    ck.cov["rule"] = ("pairs of selector lists over the alphabet of DESIGN Appendix C (types a,b; universal; classes x,y; ids i,j; "
                      "[t],[t=v] and (round 3, by substitution in ~30% of the cases) [t op v md] with op in = ~= |= ^= $= *=, "
                      "bare/quoted values, modifiers i/s/I, :nth-child(An+B) and other pseudos with a non-selector argument, "
                      "::part(x); :hover,:focus; ::before,:after; :not/:is/:where/:matches with <=2 arguments; combinators "
                      "descendant > + ~; <=3 compounds (+ inserted ones), <=3 complexes): derived (strengthened) pairs, "
                      "combinator chains, reflexive pairs, random pairs; unify on compound and complex pairs; nest/append with "
                      "&, &-suffix, &.x; extend/replace vs @extend; parse/print.  A case is distinct by (operation, operand "
                      "texts) and non-trivial when the driver found at least one element context matched by the relevant "
                      "selector (is-superselector: answer true and B matched somewhere).")
    ck.assumptions = [
        "matching semantics: Grass.Selector.matchesList (CSS Selectors 4 restricted to the alphabet; a pseudo-element is a "
        "single-valued feature of the matched element; placeholders match nothing; attribute operators ~= |= ^= $= *= and "
        "the i modifier per Selectors 4 §6.1-6.3 over attribute value strings; a pseudo with a non-selector argument "
        "such as :nth-child(2n+1) is an opaque flag of the element, like :hover)",
        "element contexts judged: canonical minimal contexts of the selectors involved, their single-feature and "
        "structural perturbations, pseudo-random contexts (depth <=4, <=2 preceding siblings per level); thorough adds "
        "every single-element context",
        "grass observed through function results printed into declarations (tools/cssread.py); selector text is parsed "
        "only by the Lean driver"]
    ck.do_prove(cores=("sel",))
    if not ck.do_build_runner():
        ck.unproved("correspondence-broken", {"why": "runner does not build against /repo", "error": getattr(ck, "build_error", "")})
        return ck.finish()
    pool = RunnerPool()
    rng = ck.rng
    big = tier == "thorough"
    NR = 150 if not big else 600
    EXH = "1" if big else "0"
    failing = []        # (size, case_text, payload, tags)

    def fail(case_text, payload, tags=()):
        payload = dict(payload)
        payload["case"] = case_text
        payload["expected_by_property"] = EXPECT
        payload["tags"] = list(tags)
        failing.append((len(case_text), case_text, payload, list(tags)))

    def disagree(d):
        ck.cov["model_disagreements"] += 1
        if len(ck.disagreements) < 5:
            ck.disagreements.append(d)

    T0 = time.time()

    def lap(what):
        log(f"[C11] {what}: t+{time.time() - T0:.1f}s")

    lap('start (after proof + runner build)')
    # ---------------------------------------------------------------- is-superselector ------
    pairs = [(a, b) for a, b in CORPUS_SUPER]
    gp = gen_super_pairs(rng, 2000 if not big else 20000)
    pairs += [(G.list_text(a), G.list_text(b)) for a, b in gp]
    trees = [None] * len(CORPUS_SUPER) + gp
    if big:
        # exhaustive: every ordered pair of <=2-compound selectors over a reduced simple alphabet
        atoms = ["a", "b", ".x", "a.x", ".x.y", "#i", ":hover", "a:not(.x)", ":is(a, .x)"]
        small = list(atoms)
        for l in ["a", ".x", "b.y"]:
            for c in [" ", " > ", " + ", " ~ "]:
                for r in ["a", ".x", "a.x", "b"]:
                    small.append(l + c + r)
        for a in small:
            for b in small:
                pairs.append((a, b))
                trees.append(None)

    def super_round(pairs, record=True):
        impl = eval_exprs(pool, [f"is-superselector({q(a)}, {q(b)})" for a, b in pairs])
        lines = []
        for k, (a, b) in enumerate(pairs):
            lines.append(f"sel super 1 {H(a)} {H(b)}")
            lines.append(f"sel super 0 {H(a)} {H(b)}")
            lines.append(f"sel subset {H(a)} {H(b)} {seed * 7919 + k} {NR} {EXH}"
                         if impl[k] == ("ok", "true") else "ping")
        outs = driver(lines)
        bad = []
        for k, (a, b) in enumerate(pairs):
            g = impl[k]
            m_af, m_spec, verdict = outs[3 * k], outs[3 * k + 1], outs[3 * k + 2]
            case = f"is-superselector({q(a)}, {q(b)})"
            if g[0] in ("panic", "timeout", "abort", "bad"):
                bad.append((k, case, {"impl_observation": g}, ["crash"]))
                continue
            if g[0] == "err":
                if record:
                    ck.hist("super:impl-error")
                continue
            gv = g[1] == "true"
            if record:
                ck.hist("super:" + ("true" if gv else "false"))
                note_constructs(ck, "super", a, b)
            if not m_spec.startswith("ok"):
                if record:
                    ck.cov["unsupported_dropped"] += 1
                    ck.hist("super:model-unsupported")
            else:
                mv = m_spec.split(" ")[1] == "1"      # the code as it stands = model with asFound := false
                nosel = m_spec.split(" ")[2] == "1"
                if record:
                    ck.hist("super:left-without-selector-pseudo" if nosel else "super:left-with-selector-pseudo")
                if mv != gv and record:
                    disagree({"case": case, "model_observation": mv, "impl_observation": gv})
            nontrivial = False
            if gv:
                if verdict.startswith("ok holds"):
                    _, _, nctx, nmatched = verdict.split(" ")
                    nontrivial = int(nmatched) > 0
                    if record:
                        ck.hist("super:true-checked-on-contexts", int(nctx))
                elif verdict.startswith("ok fails"):
                    ctx = dec(verdict.replace("ok fails", "ok"))
                    bad.append((k, case, {"impl_observation": "true", "refuting_context": ctx,
                                          "model_now": m_spec, "model_pinned_tree_walk": m_af}, []))
                    nontrivial = True
                elif record:
                    ck.hist("super:true-not-judged(" + verdict.split(" ")[0] + ")")
            if a == b and not gv and m_spec.startswith("ok"):
                bad.append((k, case, {"impl_observation": "false", "why": "not reflexive"}, ["refl"]))
            if record:
                ck.count(("super", a, b), nontrivial)
                if k % 397 == 0:
                    ck.sample({"case": case, "impl": g[1], "model_now": m_spec, "model_pinned_tree_walk": m_af, "P": verdict[:60]})
        return bad

    bad = super_round(pairs)
    # shrink the first few failures per tag on the generator tree
    shrunk = {}
    for k, case, payload, tags in bad:
        key = tuple(tags)
        if trees[k] is not None and shrunk.get(key, 0) < 3 and "crash" not in tags:
            shrunk[key] = shrunk.get(key, 0) + 1
            A, B = trees[k]
            for _ in range(6):
                cands = [(x, B) for x in G.shrink_candidates(A)] + [(A, y) for y in G.shrink_candidates(B)]
                cands = [(x, y) for x, y in cands if x and y and all(x) and all(y)][:60]
                if not cands:
                    break
                texts = [(G.list_text(x), G.list_text(y)) for x, y in cands]
                sub = super_round(texts, record=False)
                sub = [s for s in sub if s[3] == tags]
                if not sub:
                    break
                j = min(sub, key=lambda s: len(s[1]))[0]
                A, B = cands[j]
                case, payload = [s for s in sub if s[0] == j][0][1:3]
            payload = dict(payload)
            payload["shrunk_from"] = f"is-superselector({q(pairs[k][0])}, {q(pairs[k][1])})"
        fail(case, payload, tags)

    lap('before selector-unify')
    # ---------------------------------------------------------------- selector-unify --------
    ucases = []
    for _ in range(700 if not big else 6000):
        r = rng.random()
        if r < 0.6:
            a = [[G.gen_compound(rng, sel_depth=rng.choice([0, 0, 1]))]]
            b = [[G.gen_compound(rng, sel_depth=rng.choice([0, 0, 1]))]]
        elif r < 0.9:
            a, b = [G.gen_complex(rng, 2)], [G.gen_complex(rng, 2)]
        else:
            a, b = G.gen_list(rng, 2, max_compounds=2), G.gen_list(rng, 2, max_compounds=2)
        a, b = decorate(rng, a, b)
        ucases.append((G.list_text(a), G.list_text(b)))
    for _ in range(100 if not big else 800):
        a, b = gen_attr_pair(rng)
        ucases.append((G.list_text(a), G.list_text(b)))
    ucases += [("[c=d i]", "[c=d]"), ("[c=d]", "[c=d i]"), ("[t=v i]", "[t=v s]"), ("a[t=v i]", ".x[t=v]"),
               ("[t^=v]", "[t=v]"), ("[t^=v]", "[t^=v]"), ("[t~=v i]", "a[t~=v]"), ("[t*=v]", ".x[t$=v]:hover"), ("[t|=v]", "*"),
               (":nth-child(2n+1)", "a:hover"), (":nth-child(2n+1)", ":nth-child(2n+1)"), ("a:nth-child(3)", ".x::before"),
               ("::part(foo)", "::before"), ("::part(foo)", ".x::part(foo)"), (":lang(en)", ":not(.x)"), ("::part(foo)", ":nth-child(2)"),
               ("#i", "#j"), ("a", "b"), (".x", "a:hover"), ("::before", ":after"), (".x::before", ".y"), ("*", ".x"),
               ("a", "*"), (".x:hover", ".y::before"), ("a > b", "c > d"), ("a b", "c d"), ("a + b", "c ~ b"), ("#i a", "#i b")]
    impl = eval_exprs(pool, [f"selector-unify({q(a)}, {q(b)})" for a, b in ucases])
    lines = []
    for k, (a, b) in enumerate(ucases):
        lines.append(f"sel unify {H(a)} {H(b)}")
        g = impl[k]
        if g[0] == "ok":
            lines.append(f"sel inter {H(g[1])} {H(a)} {H(b)} {seed * 31 + k} {NR} {EXH}")
        elif g[0] == "null":
            lines.append(f"sel empty-inter {H(a)} {H(b)} {seed * 31 + k} {NR} {EXH}")
        else:
            lines.append("ping")
    outs = driver(lines)
    follow = []
    for k, (a, b) in enumerate(ucases):
        g, m, verdict = impl[k], outs[2 * k], outs[2 * k + 1]
        case = f"selector-unify({q(a)}, {q(b)})"
        if g[0] in ("panic", "timeout", "abort", "bad"):
            fail(case, {"impl_observation": g}, ["crash"])
            continue
        if g[0] == "err":
            ck.hist("unify:impl-error")
            continue
        ck.hist("unify:" + g[0])
        note_constructs(ck, "unify", a, b)
        compound_pair = m.startswith("ok")
        if not compound_pair:
            ck.hist("unify:complex-operands(direct oracle only)")
        nontrivial = False
        if g[0] == "ok":
            if verdict.startswith("ok holds"):
                nontrivial = int(verdict.split(" ")[3]) > 0
            elif verdict.startswith("ok fails"):
                fail(case, {"impl_observation": g[1], "refuting_context": dec(verdict.replace("ok fails", "ok")),
                            "why": "result matches a context not matched by both operands"}, ["unify-unsound"])
                nontrivial = True
            else:
                ck.hist("unify:not-judged(" + verdict.split(" ")[0] + ")")
            if compound_pair:
                if m == "ok null":
                    disagree({"case": case, "model_observation": "null", "impl_observation": g[1]})
                else:
                    follow.append((k, f"sel equiv {H(g[1])} {m.split(' ')[1]} {seed * 37 + k} {NR} {EXH}", g[1], dec(m)))
        else:
            if compound_pair:
                if m != "ok null":
                    disagree({"case": case, "model_observation": dec(m), "impl_observation": "null"})
                # "null only when it cannot express an intersection" — decidable for compound operands
                if verdict.startswith("ok fails"):
                    fail(case, {"impl_observation": "null", "context_matched_by_both": dec(verdict.replace("ok fails", "ok"))},
                         ["unify-null-but-nonempty"])
                nontrivial = True
        ck.count(("unify", a, b), nontrivial)
        if k % 211 == 0:
            ck.sample({"case": case, "impl": g, "model": dec(m) if m.startswith("ok ") and m != "ok null" else m, "P": verdict[:40]})
    for (k, _, gtxt, mtxt), ans in zip(follow, driver([f[1] for f in follow])):
        if ans.startswith("ok fails"):
            disagree({"case": f"selector-unify({q(ucases[k][0])}, {q(ucases[k][1])})", "model_observation": mtxt,
                      "impl_observation": gtxt, "differing_context": dec(ans.replace("ok fails", "ok"))})
        elif not ans.startswith("ok"):
            ck.cov["unsupported_dropped"] += 1

    lap('before nest / append')
    # ---------------------------------------------------------------- nest / append ---------
    ncases = []
    for _ in range(350 if not big else 2000):
        P = G.gen_list(rng, 2, max_compounds=2, sel_depth=0, pe=False)
        kids = []
        for _ in range(rng.choice([1, 1, 2])):
            r = rng.random()
            x = G.gen_complex(rng, 2, sel_depth=0, pe=False)
            if r < 0.3:
                x[0] = [("parent", None)] + [s for s in x[0] if s[0] not in ("type", "univ")]
            elif r < 0.45:
                x[0] = [("parent", rng.choice(["-s", "_t", "z"]))] + [s for s in x[0] if s[0] not in ("type", "univ")]
            elif r < 0.55:
                x = [[("type", "a")], " ", [("parent", None)]]
            elif r < 0.62:
                x = [[("parent", None)], "+", [("parent", None)]]
            kids.append(x)
        P, kids = decorate(rng, P, kids, p=0.25)
        ncases.append(("nest", G.list_text(P), G.list_text(kids)))
    for _ in range(250 if not big else 1500):
        P = G.gen_list(rng, 2, max_compounds=2, sel_depth=0, pe=False)
        kids = []
        for _ in range(rng.choice([1, 1, 2])):
            x = G.gen_complex(rng, 2, sel_depth=0, pe=False)
            r = rng.random()
            if r < 0.6:
                x[0] = [s for s in x[0] if s[0] not in ("type", "univ")] or [("cls", "x")]
            elif r < 0.8:
                x[0] = [("type", rng.choice(["-s", "_t", "z"]))] + [s for s in x[0] if s[0] not in ("type", "univ")]
            kids.append(x)
        P, kids = decorate(rng, P, kids, p=0.25)
        ncases.append(("append", G.list_text(P), G.list_text(kids)))
    ncases += [("nest", "a b", "&.x, c"), ("nest", "a, b", "& + &"), ("append", "a, .y", "-s"), ("append", "a", "*"),
               ("nest", "a >", "b"), ("append", "a::before", "-s"), ("append", "[t]", "-s"), ("append", "[t^=v]", "-s"),
               ("nest", "a[t^=v i]", "&:nth-child(2n+1), b"), ("append", "a:nth-child(2)", "-s"), ("append", "a", ":nth-child(2)"),
               ("append", "a, b", "[t~=v]"), ("nest", "[t|=v]", "& > &")]
    impl = eval_exprs(pool, [f"selector-{op}({q(p)}, {q(c)})" for op, p, c in ncases])
    sheets = []
    for k, (op, p, c) in enumerate(ncases):
        if op == "nest":
            sheets.append(f"{p} {{ {c} {{ i: {k} }} }}")
        else:
            # selector-append(P, C) is the nested rule `P { &C {…} }` for every complex of C
            sheets.append(f"{p} {{ {', '.join('&' + x.strip() for x in c.split(','))} {{ i: {k} }} }}")
    rules = eval_rules(pool, sheets)
    lines, meta = [], []
    for k, (op, p, c) in enumerate(ncases):
        lines.append(f"sel {op} {H(p)} {H(c)}")
    mouts = driver(lines)
    lines = []
    for k, (op, p, c) in enumerate(ncases):
        g, r, m = impl[k], rules[k], mouts[k]
        case = f"selector-{op}({q(p)}, {q(c)})"
        if g[0] in ("panic", "timeout", "abort", "bad") or r[0] in ("panic", "timeout", "abort"):
            fail(case, {"impl_observation": g, "nested_rule": r}, ["crash"])
            continue
        ck.hist(f"{op}:" + g[0])
        note_constructs(ck, op, p, c)
        rule_sel = r[1].get(k, (None,))[0] if r[0] == "ok" else None
        # direct: function result == nested rule result (both grass), compared as ASTs by the driver
        if g[0] == "ok" and rule_sel is not None:
            lines.append(f"sel eqast {H(g[1])} {H(rule_sel)}")
            meta.append((k, "rule"))
        elif (g[0] == "ok") != (rule_sel is not None) and not (g[0] == "err" and r[0] == "err"):
            ck.hist(f"{op}:function-vs-rule-outcome-differs")
            if (g[0] == "ok" and r[0] == "err" or g[0] == "err" and rule_sel is not None) and m != "err cant-append":
                fail(case, {"impl_observation": g, "nested_rule": r, "why": "function and nested rule disagree on success"},
                     [f"{op}-vs-rule"])
        # tie: model result
        if m.startswith("ok ") and g[0] == "ok":
            lines.append(f"sel eqast {H(g[1])} {m.split(' ')[1]}")
            meta.append((k, "model"))
        elif m.startswith("err") and g[0] == "ok" or m.startswith("ok ") and g[0] == "err":
            disagree({"case": case, "model_observation": m if m.startswith("err") else dec(m), "impl_observation": g})
        elif m == "unsupported":
            ck.cov["unsupported_dropped"] += 1
        ck.count((op, p, c), g[0] == "ok" and "&" in c or op == "append")
        if k % 97 == 0:
            ck.sample({"case": case, "impl": g, "nested_rule": rule_sel, "model": dec(m) if m.startswith("ok ") else m})
    for (k, what), ans in zip(meta, driver(lines)):
        op, p, c = ncases[k]
        case = f"selector-{op}({q(p)}, {q(c)})"
        if ans == "ok 0":
            if what == "rule":
                fail(case, {"impl_observation": impl[k], "nested_rule": rules[k][1].get(k), "why": "differs from the nested rule"},
                     [f"{op}-vs-rule"])
            else:
                disagree({"case": case, "model_observation": dec(mouts[k]), "impl_observation": impl[k][1]})
        elif not ans.startswith("ok"):
            ck.cov["unsupported_dropped"] += 1

    lap('before extend / replace')
    # ---------------------------------------------------------------- extend / replace ------
    ecases = []
    for _ in range(300 if not big else 2000):
        S = G.gen_list(rng, 2, sel_depth=rng.choice([0, 0, 1]), pe=False)
        (S,) = decorate(rng, S, p=0.25)
        simples = [s for x in S for p in x if not isinstance(p, str) for s in p if s[0] in ("cls", "id", "type", "attr", "pc")]
        if not simples:
            continue
        T = rng.choice(simples)
        r = rng.random()
        E = [[G.gen_compound(rng, 0, False, False)]] if r < 0.6 else [G.gen_complex(rng, 2, 0, False, False)]
        if r > 0.9:
            E.append([G.gen_compound(rng, 0, False, False)])
        ecases.append((G.list_text(S), G.simple_text(T), G.list_text(E)))
    ecases += [("a[t^=v]", "[t^=v]", ".y"), ("[t^=v] b", "[t=v]", ".y"), ("a:nth-child(2n+1)", ":nth-child(2n+1)", ".y b"),
               (":not([t~=v])", "[t~=v]", ".y"), ("[t$=v i].x", ".x", "[t*=v]"),
               (".a .b", ".b", ".x .y"), ("a.x b", ".x", ".y"), (":not(.x)", ".x", ".y"), (".x.y", ".x", "a"), ("a.x", ".x", "b")]
    ex = eval_exprs(pool, [f"selector-extend({q(s)}, {q(t)}, {q(e)})" for s, t, e in ecases])
    rp = eval_exprs(pool, [f"selector-replace({q(s)}, {q(t)}, {q(e)})" for s, t, e in ecases])
    rules = eval_rules(pool, [f"{s} {{ i: {k} }}\n{e} {{ @extend {t}; }}" for k, (s, t, e) in enumerate(ecases)])
    lines, meta = [], []
    for k, (s, t, e) in enumerate(ecases):
        case = f"selector-extend/replace({q(s)}, {q(t)}, {q(e)})"
        for fn, g in (("selector-extend", ex[k]), ("selector-replace", rp[k])):
            if g[0] in ("panic", "timeout", "abort", "bad"):
                call = f"{fn}({q(s)}, {q(t)}, {q(e)})"
                fail(call, {"impl_observation": g}, crash_tags(call, g))
        if rules[k][0] in ("panic", "timeout", "abort"):
            fail(f"{s} {{i:0}} {e} {{@extend {t}}}", {"impl_observation": rules[k]}, ["crash"])
        rule_sel = rules[k][1].get(k, (None,))[0] if rules[k][0] == "ok" else None
        ck.hist("extend:" + ex[k][0])
        note_constructs(ck, "extend", s, t, e)
        nontrivial = False
        if ex[k][0] == "ok" and rule_sel is not None:
            lines.append(f"sel equiv {H(ex[k][1])} {H(rule_sel)} {seed * 41 + k} {NR} {EXH}")
            meta.append((k, "extend-vs-@extend", ex[k][1], rule_sel))
            nontrivial = ex[k][1].strip() != s.strip()
            if rp[k][0] == "ok" and ":not(" not in s:
                # (not under :not(), where extension narrows instead of widening)
                # extend keeps the original and adds every combination; replace substitutes every occurrence:
                # original ∪ replace ⊆ extend
                lines.append(f"sel subset {H(ex[k][1])} {H(s + ', ' + rp[k][1])} {seed * 43 + k} {NR} {EXH}")
                meta.append((k, "original+replace-within-extend", ex[k][1], s + ", " + rp[k][1]))
        ck.count(("extend", s, t, e), nontrivial)
        if k % 83 == 0:
            ck.sample({"case": case, "extend": ex[k], "replace": rp[k], "@extend": rule_sel})
    for (k, what, l, r), ans in zip(meta, driver(lines)):
        s, t, e = ecases[k]
        if ans.startswith("ok fails"):
            fail(f"selector-extend({q(s)}, {q(t)}, {q(e)})", {"comparison": what, "left": l, "right": r,
                 "differing_context": dec(ans.replace("ok fails", "ok"))}, [what])
        elif not ans.startswith("ok"):
            ck.cov["unsupported_dropped"] += 1

    lap('before parse / print, crash')
    # ---------------------------------------------------------------- parse / print, crash ---
    pcases = [G.list_text(decorate(rng, G.gen_list(rng), p=0.4)[0]) for _ in range(300 if not big else 1500)]
    # round 3: every operator x value form x modifier, with free whitespace inside the brackets
    for op in ATTR_OPS + [""]:
        for val in ["v", '"v w"', "'v w'", '"1x"', "v-x"]:
            for md in ["", " i", " S"]:
                sp = rng.choice(["", " "])
                at = f"[{sp}t{sp}{op}={sp}{val}{md}{sp}]"
                pcases += [at, rng.choice(["a", ".x", "a > b", "*"]) + at + rng.choice(["", ":hover", "::before", ":nth-child(2n+1)"])]
    for fp in FPSEUDOS:
        pcases += [":" + fp, "a.x:" + fp, f":not(:{fp})", f"b > :{fp}::before"]
    for fe in FPELEMS:
        pcases += ["::" + fe, "a::" + fe, f".x::{fe}, b"]
    # attribute selectors with quoted values and `i`/`s` modifiers (attribute.rs Display)
    attrs = ['[t="v w"]', '[t="v w" i]', '[t="v" i]', '[t=v s]', '[t=v i]', "[t='v w' s]", '[t="1x"]', '[t="1x" i]', '[t=v]', '[t="v"]',
             '[a="b c" i]', '[t="--x"]', '[t="--x" i]']
    for at in attrs:
        pcases += [at, "a" + at, ".x" + at + ":hover", "a > b" + at, f":not({at})", f"{at}, a"]
    impl = eval_exprs(pool, [f"selector-parse({q(a)})" for a in pcases])
    lines = []
    for k, a in enumerate(pcases):
        lines.append(f"sel parse {H(a)}")
        lines.append(f"sel eqast {H(a)} {H(impl[k][1])}" if impl[k][0] == "ok" else "ping")
        lines.append(f"sel equiv {H(a)} {H(impl[k][1])} {seed * 47 + k} {NR // 2} 0" if impl[k][0] == "ok" else "ping")
    outs = driver(lines)
    # the model's own printer/parser round trip (C11_parse_print_roundtrip_statement), evaluated on every case
    rt = driver([f"sel eqast {H(a)} {outs[3 * k].split(' ')[1]}" if outs[3 * k].startswith("ok ") else "ping"
                 for k, a in enumerate(pcases)])
    for k, a in enumerate(pcases):
        if rt[k] == "ok 0":
            disagree({"case": f"model parse/print round trip on {a}", "model_observation": dec(outs[3 * k]), "impl_observation": a})
        elif rt[k] == "ok 1":
            ck.hist("parse:model-roundtrip-ok")
    for k, a in enumerate(pcases):
        g, m, same, eqv = impl[k], outs[3 * k], outs[3 * k + 1], outs[3 * k + 2]
        case = f"selector-parse({q(a)})"
        note_constructs(ck, "parse", a)
        if g[0] != "ok":
            fail(case, {"impl_observation": g}, ["crash"] if g[0] in ("panic", "timeout", "abort", "bad") else ["parse-rejects"])
            continue
        if m == "unsupported":
            ck.cov["unsupported_dropped"] += 1
        elif same == "ok 0":
            disagree({"case": case, "model_observation": dec(m), "impl_observation": g[1]})
        if eqv.startswith("ok fails"):
            fail(case, {"impl_observation": g[1], "differing_context": dec(eqv.replace("ok fails", "ok"))}, ["parse-print-meaning"])
        ck.count(("parse", a), eqv.startswith("ok holds") and int(eqv.split(" ")[3]) > 0)

    # no crash on anything the style-rule parser accepts (full + weird alphabet)
    vocab = pseudo_vocabulary(rng, 2 if not big else 6)
    weird = list(WEIRD) + vocab + [G.list_text(G.gen_list(rng, placeholders=True)) for _ in range(150 if not big else 800)]
    accepted = eval_rules(pool, [f"{w} {{ i: {k} }}" for k, w in enumerate(weird)])
    exprs, owner = [], []
    for k, w in enumerate(weird):
        if accepted[k][0] in ("panic", "timeout", "abort"):
            fail(f"{w} {{ i: 0 }}", {"impl_observation": accepted[k]}, ["crash"])
            continue
        if accepted[k][0] != "ok":
            ck.hist("weird:rejected-by-style-rule-parser")
            continue
        ck.hist("weird:accepted")
        o = rng.choice(weird) if rng.random() < 0.5 else rng.choice(vocab)
        for e in (f"selector-extend({q(w)}, {q('.x')}, {q(w)})", f"selector-replace({q(w)}, {q('.x')}, {q(o)})",
                  f"selector-unify({q(o)}, {q(w)})",f"is-superselector({q(w)}, {q(o)})", f"is-superselector({q(o)}, {q(w)})", f"is-superselector({q(w)}, {q(w)})",
                  f"selector-unify({q(w)}, {q(o)})", f"selector-nest({q(o)}, {q(w)})", f"selector-append({q(o)}, {q(w)})",
                  f"selector-extend({q(w)}, {q('.x')}, {q(o)})", f"selector-replace({q(o)}, {q('.x')}, {q(w)})",
                  f"selector-parse({q(w)})", f"simple-selectors({q(w)})"):
            exprs.append(e)
            owner.append(w)
    ext_sheets = []
    for w in vocab:
        first = w.split(",")[0].strip()
        ext_sheets.append(f".x, {w} {{ i: 0 }}\n{first} {{ i: 1; @extend .x; }}")
        ext_sheets.append(f"{w} {{ i: 0 }}\n.y {{ i: 1; @extend .x !optional; }}\n.x {w} {{ i: 2 }}")
    for sh, ans in zip(ext_sheets, eval_rules(pool, ext_sheets)):
        ck.hist("weird-@extend:" + ans[0])
        ck.count(("weird-extend", sh), ans[0] == "ok")
        if ans[0] in ("panic", "timeout", "abort", "bad"):
            fail(sh, {"impl_observation": ans[:2]}, ["crash"])
    # small batches: many of these are errors by design
    for e, g in zip(exprs, eval_exprs(pool, exprs, batch=12)):
        ck.hist("weird-call:" + g[0])
        ck.count(("weird", e), g[0] in ("ok", "null"))
        if g[0] in ("panic", "timeout", "abort", "bad"):
            fail(e, {"impl_observation": g}, crash_tags(e, g))

    lap('before verdicts')
    # ---------------------------------------------------------------- verdicts --------------
    failing.sort(key=lambda f: f[0])
    reported = 0
    for _, case, payload, tags in failing:
        if ck.impl_violation(case, payload, tags=tags):
            reported += 1
    ck.cov["disagreement_samples"] = ck.disagreements
    ck.cov["failing_cases_by_tag"] = {}
    ck.cov["failing_samples"] = [{"case": c, "tags": t, "impl": str(p.get("impl_observation"))[:200]} for _, c, p, t in failing[:40]]
    for _, _, _, tags in failing:
        key = ",".join(tags) or "untagged"
        ck.cov["failing_cases_by_tag"][key] = ck.cov["failing_cases_by_tag"].get(key, 0) + 1
    if ck.cov["model_disagreements"] and not reported:
        ck.unproved("correspondence-broken", {"correspondence": "Grass.Selector (asFound := false, the code as it stands) vs grass selector functions",
                                              "cases": ck.disagreements})
    return ck.finish()


def replay(path):
    r = json.load(open(path))
    ck = Check("C11", "quick", 0)
    ck.do_build_runner()
    pool = RunnerPool(1)
    case = r.get("case")
    print(json.dumps(r, indent=1))
    if case and case.startswith(("is-superselector", "selector-")):
        print("grass now:", eval_exprs(pool, [case.replace("selector-extend/replace", "selector-extend")]))
    return 0
