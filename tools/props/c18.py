"""C18 — The three input syntaxes and insignificant source variations agree.

(a) PROOF   lean/GrassProofs/C18.lean over lean/Grass/Lexer.lean: newline-style invariance of the lexer
            (kinds and positions), BOM prefix, identifier normalisation (idempotent, `_`/`-` swap, normal forms
            equal iff equal up to `_`/`-`).
(b) TIE     the lexer theorems against grass on an observable: for texts that fail to compile, the reported
            error span under LF / CRLF / CR / FF newlines must be the model's token positions for that style
            (`lex tokens`), message unchanged; identifier normalisation: `$n1: 1; z{y: $n2}` (and functions,
            mixins, keyword arguments) resolves exactly when the model says the normal forms are equal.
(c) DIRECT  metamorphic relations on grass itself (PARTIAL: the parsers are not modelled, this is testing):
            printScss(p) vs printSass(p) for generated programs; plain CSS as css vs scss; Sass-only constructs
            rejected as css; corpus and generated programs under newline style, inserted whitespace / silent
            comments, leading BOM, leading @charset, `_`<->`-` in variable/function/mixin names.
"""
import json
import re

import corpus
from props import c01_gen as g
from vlib import Check, RunnerPool, compile_job, driver, hexs, known_findings

# --------------------------------------------------------------------------------------------
# program generator: one statement tree, two independent printers
# --------------------------------------------------------------------------------------------

UNITS = ["", "", "px", "em", "%", "s"]
IDENTS = ["red", "bold", "auto", "none", "solid", "inherit", "a-b", "x_y"]
PROPS = ["color", "width", "margin", "p-q", "border-top", "content", "z_index", "--custom"]
SELS = ["a", "b", ".c", "#d", "a b", "a > b", ".c.d", "a:hover", "[e]", "a, b", ".c, #d", "*", "a + b", "a ~ b", "::before",
        "a:not(.c)", "e[f=\"g\"]"]
NESTED_SELS = SELS + ["&:hover", "&.x", "& + &", "& > a", "a &", "&-suffix", "&, b"]


class Gen:
    def __init__(self, rng, plain_css=False):
        self.rng = rng
        self.plain = plain_css
        self.n = 0
        self.funcs = []       # (name, arity)
        self.mixins = []      # (name, arity, has_content)

    def fresh(self, base):
        self.n += 1
        sep = self.rng.choice(["-", "_", ""])
        return f"{base}{sep}{self.n}"

    # ---- expressions (the same text in both syntaxes: single line) ----
    def num(self, unit=None):
        r = self.rng
        v = r.choice([0, 1, 2, 3, 10, 0.5, 1.25, 100, -1, -2.5])
        return f"{v}{r.choice(UNITS) if unit is None else unit}"

    def atom(self, vars_):
        r = self.rng
        k = r.randrange(10)
        if self.plain:
            if k < 3:
                # a plain CSS function whose name is a Sass built-in only after lower-casing: Sass function names are
                # case sensitive, so both parsers must pass it through (checked on the unchanged tree for every
                # name of c01_gen.GLOBAL_FUNCS in 4 spellings: css and scss agree)
                n = r.choice(g.GLOBAL_FUNCS)
                v = r.choice([n.upper(), n.capitalize(), n[:-1] + n[-1].upper(), "-".join(p.capitalize() for p in n.split("-"))])
                if v != n:
                    return f"{v}({r.choice(['1.5', 'red, 10%', '1, 2, 3', '#abc', '1px'])})"
            return r.choice([self.num(), r.choice(IDENTS), '"s t"', "'q'", "#abc", "#a1b2c3", "url(x.png)", "1px solid red",
                             "translate(1px, 2px)", "foo(1)", "rgb(1, 2, 3)", "1px -1px 2px -.5px"])
        if k < 3:
            return self.num()
        if k < 5 and vars_:
            return "$" + self.swap_some(r.choice(vars_))
        if k == 5:
            return r.choice(IDENTS)
        if k == 6:
            return r.choice(['"s t"', "'q'", '"a#{1 + 1}b"', '"\\"esc"', "unquote(\"u\")"])
        if k == 7:
            return r.choice(["#abc", "red", "true", "false", "null", "(1 2 3)", "(1, 2)", "[a b]", "1px -1px 2px -.5px", "3em -1em", "2 -1"])
        if k == 8 and self.funcs:
            name, ar = r.choice(self.funcs)
            return f"{self.swap_some(name)}({', '.join(self.num() for _ in range(ar))})"
        return r.choice(["length(1 2 3)", "nth(4 5 6, 2)", "str-length(\"abc\")", "if(true, 1, 2)", "type-of(1px)", "max(1, 2)",
                         "str_length(\"ab\")", "map-get((k: 1), k)", "map_get((k: 2), k)", "percentage(0.5)", "#{1 + 2}px", "inspect((a: 1))"])

    def swap_some(self, name):
        """use a defined name with some `_`/`-` written the other way (must resolve to the same member)"""
        r = self.rng
        return "".join((("_" if c == "-" else "-") if c in "_-" and r.random() < 0.4 else c) for c in name)

    def expr(self, vars_, depth=0):
        r = self.rng
        if self.plain or depth > 2 or r.random() < 0.45:
            return self.atom(vars_)
        op = r.choice([" + ", " - ", " * ", " == ", " != ", " < ", " and ", " or ", " ", ", "])
        a, b = self.expr(vars_, depth + 1), self.expr(vars_, depth + 1)
        if op in (" + ", " - ", " * ", " < "):
            # keep arithmetic on numbers so that programs mostly evaluate
            u = r.choice(UNITS)
            a, b = self.num(u), (self.num(u) if r.random() < 0.7 else "2")
            if op == " * ":
                b = r.choice(["2", "3", "0.5"])
        s = f"{a}{op}{b}"
        return f"({s})" if r.random() < 0.3 and op not in (" ", ", ") else s

    def cond(self, vars_):
        r = self.rng
        return r.choice(["true", "false", "1 == 1", "1 > 2", "not false", "null", "1 < 2 and 2 < 3", "(1 + 1) == 2"] +
                        (["$" + r.choice(vars_) + " == 1"] if vars_ else []))

    # ---- statements ----
    def stmts(self, depth, vars_, in_rule, in_mixin=False, in_func=False):
        r = self.rng
        out = []
        vars_ = list(vars_)
        for _ in range(r.randint(1, 4 if depth < 2 else 2)):
            k = r.randrange(15)
            if self.plain:
                if in_rule:
                    out.append(("decl", r.choice(PROPS[:6]), self.expr(vars_)))
                elif k < 9:
                    out.append(("rule", r.choice(SELS), self.stmts(depth + 1, vars_, True)))
                elif k < 11 and depth == 0:
                    out.append(("media", r.choice(["screen", "print and (min-width: 100px)", "(max-width: 5em)"]),
                                self.stmts(depth + 1, vars_, False)))
                elif k < 13:
                    out.append(("loud", r.choice(["c", "! keep", "two words", "*stars*"])))
                else:
                    out.append(("rule", r.choice(SELS), self.stmts(depth + 1, vars_, True)))
                continue
            if in_func:
                if k < 5:
                    name = self.fresh("v")
                    out.append(("var", name, self.expr(vars_), ""))
                    vars_.append(name)
                elif k < 8 and depth < 3:
                    out.append(("if", [(self.cond(vars_), self.stmts(depth + 1, vars_, in_rule, in_func=True))], None))
                continue
            if k < 3 and in_rule:
                out.append(("decl", r.choice(PROPS), self.expr(vars_)))
            elif k < 5:
                name = self.fresh("v")
                out.append(("var", name, self.expr(vars_), r.choice(["", "", " !default", " !global"] if depth == 0 else ["", "", " !default"])))
                vars_.append(name)
            elif k == 5 and depth < 3:
                sel = r.choice(NESTED_SELS if in_rule else SELS)
                out.append(("rule", sel, self.stmts(depth + 1, vars_, True, in_mixin)))
            elif k == 6 and depth < 3:
                clauses = [(self.cond(vars_), self.stmts(depth + 1, vars_, in_rule, in_mixin))]
                for _ in range(r.choice([0, 0, 1, 2])):
                    clauses.append((self.cond(vars_), self.stmts(depth + 1, vars_, in_rule, in_mixin)))
                els = self.stmts(depth + 1, vars_, in_rule, in_mixin) if r.random() < 0.5 else None
                out.append(("if", clauses, els))
            elif k == 7 and depth < 3:
                v = self.fresh("i")
                out.append(("for", v, r.choice(["1", "0", "3"]), r.choice(["through", "to"]), r.choice(["2", "3", "1"]),
                            self.stmts(depth + 1, vars_ + [v], in_rule, in_mixin)))
            elif k == 8 and depth < 3:
                v = self.fresh("e")
                lst = r.choice(["a b c", "1, 2", "(x: 1, y: 2)", "red", "(1 2) (3 4)"])
                if lst.startswith("(x"):
                    v2 = self.fresh("w")
                    out.append(("each", [v, v2], lst, self.stmts(depth + 1, vars_ + [v, v2], in_rule, in_mixin)))
                else:
                    out.append(("each", [v], lst, self.stmts(depth + 1, vars_ + [v], in_rule, in_mixin)))
            elif k == 9 and depth == 0:
                name = self.fresh("mix")
                ar = r.choice([0, 0, 1, 2])
                params = [self.fresh("p") for _ in range(ar)]
                content = r.random() < 0.3
                body = self.stmts(1, vars_ + params, True, in_mixin=True)
                if content:
                    body.append(("content",))
                out.append(("mixin", name, params, body))
                self.mixins.append((name, ar, content))
            elif k == 10 and self.mixins and in_rule and not in_mixin:
                name, ar, content = r.choice(self.mixins)
                args = [self.num() for _ in range(ar)]
                block = self.stmts(depth + 1, vars_, True) if content and depth < 3 else None
                out.append(("include", self.swap_some(name), args, block))
            elif k == 11 and depth == 0:
                name = self.fresh("fn")
                ar = r.choice([0, 1, 2])
                params = [self.fresh("p") for _ in range(ar)]
                body = self.stmts(1, vars_ + params, False, in_func=True)
                body.append(("return", self.expr(vars_ + params)))
                out.append(("function", name, params, body))
                self.funcs.append((name, ar))
            elif k == 12 and depth < 2:
                out.append(("media", r.choice(["screen", "print and (min-width: 100px)", "(max-width: 5em)", "#{screen}"]),
                            self.stmts(depth + 1, vars_, in_rule, in_mixin)))
            elif k == 13:
                out.append(("loud", r.choice(["c", "! keep", "two words", "v #{1 + 1}"])))
            elif k == 14:
                out.append(("silent", r.choice(["note", "$x: 1;", "a { b: c }", ""])))
            elif in_rule:
                out.append(("decl", r.choice(PROPS), self.expr(vars_)))
        if not out and in_rule:
            out.append(("decl", "k", "v"))
        return out

    def program(self):
        body = self.stmts(0, [], False)
        if self.plain:
            return body
        # a final rule that uses what was defined (so that most programs emit CSS and every
        # definition is reached through some spelling of its name)
        top_vars = [s[1] for s in body if s[0] == "var"]
        inner = self.stmts(1, top_vars, True)
        for name, ar, content in self.mixins:
            args = [self.num() for _ in range(ar)]
            inner.append(("include", self.swap_some(name), args, [("decl", "k", "v")] if content else None))
        for name, ar in self.funcs:
            inner.append(("decl", "f", f"{self.swap_some(name)}({', '.join(self.num() for _ in range(ar))})"))
        for v in top_vars[:3]:
            inner.append(("decl", "w", "$" + self.swap_some(v)))
        body.append(("rule", self.rng.choice(SELS), inner))
        return body


def print_scss(rng, stmts, ind=0):
    """SCSS printer: braces and semicolons; whitespace between tokens chosen freely."""
    pad = rng.choice(["", " ", "  ", "\t"]) * ind
    nl = rng.choice(["\n", "\n", " ", "\n\n"])
    out = []

    def block(head, body):
        sp = rng.choice([" ", "", "\n" + pad])
        return f"{pad}{head}{sp}{{{nl}{print_scss(rng, body, ind + 1)}{pad}}}{nl}"

    for s in stmts:
        k = s[0]
        semi = rng.choice([";", ";", " ;"])
        if k == "decl":
            if s[1].startswith("--"):
                # the value of a custom property is raw text: whitespace in it is significant
                out.append(f"{pad}{s[1]}: {s[2]};{nl}")
            else:
                out.append(f"{pad}{s[1]}:{rng.choice([' ', '  ', ''])}{s[2]}{semi}{nl}")
        elif k == "var":
            out.append(f"{pad}${s[1]}:{rng.choice([' ', ''])}{s[2]}{s[3]}{semi}{nl}")
        elif k == "rule":
            out.append(block(s[1], s[2]))
        elif k == "if":
            txt = ""
            for n, (c, body) in enumerate(s[1]):
                head = ("@if " if n == 0 else "@else if ") + c
                b = block(head, body)
                txt += b if n == 0 else b.lstrip()
                txt = txt.rstrip("\n ") + rng.choice([" ", "\n" + pad, ""])
            if s[2] is not None:
                txt += block("@else", s[2]).lstrip()
            out.append(txt.rstrip(" ") + ("" if txt.endswith("\n") else "\n"))
        elif k == "for":
            out.append(block(f"@for ${s[1]} from {s[2]} {s[3]} {s[4]}", s[5]))
        elif k == "each":
            out.append(block(f"@each {', '.join('$' + v for v in s[1])} in {s[2]}", s[3]))
        elif k == "mixin":
            params = f"({', '.join('$' + p for p in s[2])})" if s[2] or rng.random() < 0.3 else ""
            out.append(block(f"@mixin {s[1]}{params}", s[3]))
        elif k == "include":
            args = f"({', '.join(s[2])})" if s[2] else ""
            if s[3] is not None:
                out.append(block(f"@include {s[1]}{args}", s[3]))
            else:
                out.append(f"{pad}@include {s[1]}{args}{semi}{nl}")
        elif k == "content":
            out.append(f"{pad}@content{semi}{nl}")
        elif k == "function":
            out.append(block(f"@function {s[1]}({', '.join('$' + p for p in s[2])})", s[3]))
        elif k == "return":
            out.append(f"{pad}@return {s[1]}{semi}{nl}")
        elif k == "media":
            out.append(block(f"@media {s[1]}", s[2]))
        elif k == "loud":
            out.append(f"{pad}/* {s[1]} */{nl}")
        elif k == "silent":
            out.append(f"{pad}// {s[1]}\n")
    return "".join(out)


def print_sass(stmts, ind=0, unit="  "):
    """Indented-syntax printer: one statement per line, blocks by indentation."""
    pad = unit * ind
    lines = []
    for s in stmts:
        k = s[0]
        if k == "decl":
            lines.append(f"{pad}{s[1]}: {s[2]}")
        elif k == "var":
            lines.append(f"{pad}${s[1]}: {s[2]}{s[3]}")
        elif k == "rule":
            lines.append(f"{pad}{s[1]}")
            lines.append(print_sass(s[2], ind + 1, unit))
        elif k == "if":
            for n, (c, body) in enumerate(s[1]):
                lines.append(f"{pad}{'@if' if n == 0 else '@else if'} {c}")
                lines.append(print_sass(body, ind + 1, unit))
            if s[2] is not None:
                lines.append(f"{pad}@else")
                lines.append(print_sass(s[2], ind + 1, unit))
        elif k == "for":
            lines.append(f"{pad}@for ${s[1]} from {s[2]} {s[3]} {s[4]}")
            lines.append(print_sass(s[5], ind + 1, unit))
        elif k == "each":
            lines.append(f"{pad}@each {', '.join('$' + v for v in s[1])} in {s[2]}")
            lines.append(print_sass(s[3], ind + 1, unit))
        elif k == "mixin":
            params = f"({', '.join('$' + p for p in s[2])})" if s[2] else ""
            lines.append(f"{pad}@mixin {s[1]}{params}")
            lines.append(print_sass(s[3], ind + 1, unit))
        elif k == "include":
            args = f"({', '.join(s[2])})" if s[2] else ""
            lines.append(f"{pad}@include {s[1]}{args}")
            if s[3] is not None:
                lines.append(print_sass(s[3], ind + 1, unit))
        elif k == "content":
            lines.append(f"{pad}@content")
        elif k == "function":
            lines.append(f"{pad}@function {s[1]}({', '.join('$' + p for p in s[2])})")
            lines.append(print_sass(s[3], ind + 1, unit))
        elif k == "return":
            lines.append(f"{pad}@return {s[1]}")
        elif k == "media":
            lines.append(f"{pad}@media {s[1]}")
            lines.append(print_sass(s[2], ind + 1, unit))
        elif k == "loud":
            lines.append(f"{pad}/* {s[1]} */")
        elif k == "silent":
            lines.append(f"{pad}// {s[1]}")
    return "\n".join(l for l in lines if l != "") + ("\n" if ind == 0 else "")


def sass_blank_lines(rng, text, unit):
    """Blank lines between the statements of an indented document, empty or holding stray white space — of the
    OTHER kind than the indentation unit as well (a blank line is not indentation).  Never before the first
    line ("Indenting at the beginning of the document is illegal" looks at the first character)."""
    other = "\t" if " " in unit else "  "
    out = []
    lines = text.split("\n")
    for n, l in enumerate(lines):
        out.append(l)
        if n < len(lines) - 1 and rng.random() < 0.25:
            out.append(rng.choice(["", other, other * 2, unit, " ", "\t", " \t", other + " "]))
    return "\n".join(out)


def sass_inline_comments(rng, text):
    """A silent comment or stray white space at the END of statement lines of an indented document."""
    out = []
    for l in text.split("\n"):
        st = l.strip()
        if st and not st.startswith("@charset") and not st.startswith("@import") and not st.startswith("@use") \
                and not st.startswith("@forward") and not st.endswith(",") and '"' not in st and "'" not in st and rng.random() < 0.4:
            l = l + rng.choice([" // note", " //", "  // a // b", " ", "\t", " // $x: 1"])
        out.append(l)
    return "\n".join(out)


# --------------------------------------------------------------------------------------------
# token-preserving rewrites
# --------------------------------------------------------------------------------------------

def safe_points(src):
    """Offsets just after a `;`, `{` or `}` that is outside strings, comments, parentheses/brackets,
    interpolation and url( ): places where SCSS allows whitespace and silent comments between
    statements.  Returns None when the text is not understood (unbalanced, so nothing is inserted)."""
    pts = []
    i, n = 0, len(src)
    stack = []           # '(' '[' '#{' and '{' (block)
    while i < n:
        c = src[i]
        if src.startswith("/*", i):
            j = src.find("*/", i + 2)
            if j < 0:
                return None
            i = j + 2
            continue
        if src.startswith("//", i) and (i == 0 or src[i - 1] != ":"):
            j = src.find("\n", i)
            i = n if j < 0 else j + 1
            continue
        if c in "\"'":
            j = i + 1
            while j < n and src[j] != c:
                if src[j] == "\\":
                    j += 1
                elif src[j] == "\n":
                    return None
                elif src.startswith("#{", j):
                    return None          # interpolation inside a string: leave such texts alone
                j += 1
            if j >= n:
                return None
            i = j + 1
            continue
        if c == "\\":
            i += 2
            continue
        if src.startswith("#{", i):
            stack.append("#{")
            i += 2
            continue
        if c in "([":
            stack.append(c)
        elif c in ")]":
            if not stack or stack[-1] != {")": "(", "]": "["}[c]:
                return None
            stack.pop()
        elif c == "{":
            if any(s in ("(", "[", "#{") for s in stack):
                return None
            stack.append("{")
            pts.append(i + 1)
        elif c == "}":
            if not stack:
                return None
            top = stack.pop()
            if top == "{":
                pts.append(i + 1)
            elif top != "#{":
                return None
        elif c == ";":
            if not any(s in ("(", "[", "#{") for s in stack):
                pts.append(i + 1)
        i += 1
    if stack:
        return None
    return pts


_UNSAFE_FOR_INSERT = re.compile(r"--[A-Za-z0-9_-]*\s*:|url\(|@import|@supports|@charset|\\", re.I)


def insert_ws_comments(rng, src, comments=True):
    if _UNSAFE_FOR_INSERT.search(src):
        return None
    pts = safe_points(src)
    if not pts:
        return None
    chosen = sorted(set(rng.sample(pts, min(len(pts), rng.randint(1, 6)))), reverse=True)
    out = src
    for p in chosen:
        ins = rng.choice([" ", "\n", "\t", "  \n  ", "\n\n"] + ([" // inserted\n", "\n// x\n// y\n", " //\n"] if comments else []))
        out = out[:p] + ins + out[p:]
    return out


_DECL = re.compile(r"(?P<head>[;{]\s*[A-Za-z][A-Za-z-]*\s*:\s+)(?P<val>[^;{}\"'#\\/@!]*[^;{}\"'#\\/@!\s])(?P<tail>\s*(?:!important\s*)?[;}])")


def value_newlines(rng, src):
    """Replace single spaces BETWEEN the operands of declaration values by a line break (LF, CRLF, CR or FF,
    possibly with a space on either side).  Values are taken only from `name: value;` / `name: value}` statements
    whose value has no quote, `#`, backslash, slash, `@`, `!` or brace (strings, interpolation, comments, urls and
    flags are left alone); custom properties are skipped (raw text).  On the unchanged tree every such rewrite of
    `1px -1px`, `1 - 2`, `1 -2`, `a -b`, `$x -1`, `1 +2`, `(1 -1)`, … leaves the CSS unchanged (probed: 528 cases)."""
    changed = [False]

    def repl(m):
        if m.group("head").lstrip(";{ \t\r\n\f").startswith("--"):
            return m.group(0)
        val = m.group("val")
        spots = [i for i, c in enumerate(val) if c == " " and 0 < i < len(val) - 1 and val[i - 1] not in " \t\n\r\f" and val[i + 1] not in " \t\n\r\f"]
        if not spots:
            return m.group(0)
        for i in sorted(rng.sample(spots, min(len(spots), rng.randint(1, 3))), reverse=True):
            nl = rng.choice(["\n", "\r\n", "\r", "\f"])
            val = val[:i] + rng.choice([nl, nl, nl + " ", " " + nl, nl + "   "]) + val[i + 1:]
            changed[0] = True
        return m.group("head") + val + m.group("tail")

    out = _DECL.sub(repl, src)
    return out if changed[0] else None


_VAR = re.compile(r"\$[A-Za-z][A-Za-z0-9_-]*[A-Za-z0-9]")


_SASS_AT = {"@if", "@else", "@each", "@for", "@while", "@include", "@mixin", "@function", "@return", "@debug", "@warn", "@error",
            "@media", "@at-root", "@use", "@forward", "@import", "@content", "@extend", "@supports"}


def swap_names(rng, src, syn="scss"):
    """Exchange `_` and `-` inside some occurrences of variable names and of the names of mixins and
    functions defined in the text (each occurrence independently: every spelling must resolve)."""
    if re.search(r"get-function|get-mixin|function-exists|mixin-exists|variable-exists|module-variables|module-functions|@forward|keywords\(",
                 src):
        return None
    defined = set(re.findall(r"@(?:mixin|function)\s+([A-Za-z][A-Za-z0-9_-]*[A-Za-z0-9])", src))
    defined = {d for d in defined if ("_" in d or "-" in d)}
    toks = g.tokenize(src)
    changed = False
    out = []
    prev_sig = ""
    raw, depth = False, 0    # inside the value of a custom property (raw text, `$x` is not a variable there)
    for k, (kind, t) in enumerate(toks):
        nt = t
        if not raw and ((kind == "ident" and t.startswith("--")) or (kind == "at" and t.lower() not in _SASS_AT)):
            raw, depth = True, 0      # custom property value / prelude of an unknown at-rule: raw text
        elif raw:
            if kind == "interp" or t in ("{", "(", "["):
                depth += 1
            elif t in ("}", ")", "]") and depth > 0:
                depth -= 1
            elif depth == 0 and (t in (";", "}", "{") or (syn == "sass" and kind == "ws" and "\n" in t)):
                raw = False
        if raw:
            out.append(t)
            continue
        if kind == "variable" and ("_" in t or "-" in t) and not t.endswith(("-", "_")):
            nt = "$" + _swap(rng, t[1:])
        elif kind == "ident" and t in defined and prev_sig in ("@mixin", "@include", "@function") :
            nt = _swap(rng, t)
        elif kind == "ident" and t in defined and k + 1 < len(toks) and toks[k + 1][1] == "(" and prev_sig != ".":
            nt = _swap(rng, t)
        if nt != t:
            changed = True
        out.append(nt)
        if kind not in ("ws",):
            prev_sig = t
    return "".join(out) if changed else None


def _swap(rng, name):
    return "".join((("_" if c == "-" else "-") if c in "_-" and rng.random() < 0.6 else c) for c in name)


# --------------------------------------------------------------------------------------------
# the check
# --------------------------------------------------------------------------------------------

SASS_ONLY_IN_CSS = [
    "$a: 1;", "a{b{c:d}}", "a{&:hover{c:d}}", "a{&{c:d}}", "@mixin m{}", "@include m;", "a{b:#{1}}", "a#{b}{c:d}", "// c\na{b:c}",
    "a{b:c} // c", "@if true{}", "@each $i in 1{}", "@for $i from 1 to 2{}", "@function f(){@return 1}", "@while false{}",
    "a{@extend b}", "@debug 1;", "@warn 1;", "@error 1;", "@return 1;", "@content;", "@at-root a{b:c}", "%p{b:c}", "&{b:c}",
    "a{b:1+1}", "a{b:$x}", "a{b:(1 2)}", "a{b:1 > 2}", "a{b:if(true,1,2)}", "a{b:lighten(red,1%)}", "a{b:\"x\" + \"y\"}",
    "a{b:\"#{1}\"}", "a{b:url(x#{1})}", "@media #{x}{a{b:c}}", "a{b:c;d:{e:f}}", "a{b:1 == 2}", "a{b:1*2}", "a{b:1 - 2}",
    "@media (min-width: 1px + 1px){a{b:c}}", "a{b:-$x}", "a{/* c */ // d\nb:c}", "a{b:c}\n$z: 2;", "@media screen{a{&.x{b:c}}}",
    "a{@include m}", "a{b:c; @debug x}", "a:not(&){b:c}", "a{--x: #{1}}",
]

CORPUS = [
    # minimised past failures of the rewriters (false alarms repaired) and of grass, run first
    ("scss", "a{b:c}\r\nd{e:f}"),
    ("scss", "$a_b: 1; z{y: $a-b}"),
    # C18-F1 (fixed by e81c3e6; must pass now): the column of a loud comment was taken from codemap (LF only, BOM counted)
    ("scss", "a{b:c}\n  /* x\n      y */\n"),
    ("scss", "  /*\n    a */"),
    # shapes that independently seeded changes broke (must agree on the unchanged tree):
    ("css", "a {\n  b: Darken(red, 10%);\n  c: Round(1.5);\n  d: Map-Get(x, y);\n}\n"),
    ("scss", "a{margin: 1px -1px 2px -.5px; b: 1 - 2; c: 1 -2; d: 3 +1}"),
    ("sass", "a\n  b: c\n  d: e\n  f\n    g: h\n"),
    # false alarms of earlier versions of the rewriters (kept so that they stay repaired):
    ("scss", "a {\n  @box-shadow: $btn-focus-box-shadow, $btn-active-box-shadow;\n}"),   # `$x` in an unknown at-rule is raw text
    ("scss", "$v-1: 1;\na{--c: $v-1, -1 + 3px;\n w: $v-1}"),                              # ... and in a custom property
    ("scss", "\ufeffa {\n  color: red\n}\n"),                                           # a second BOM is not "a leading BOM"
    ("scss", "a{--c:  1.25 < 2 ;}"),                                                     # whitespace in a custom property is significant
    ("scss", "$v-3: 1;\na{--custom: 0.5 * 3, #{1 + 2}px == $v-3;\n w: $v-3}"),           # raw text continues after an interpolation
]


def outcome(ans):
    st = ans.get("status")
    if st == "ok":
        return ("ok", ans.get("css"))
    if st == "err":
        return ("err", ans.get("err", {}).get("message"))
    return (st, ans.get("panic") or ans.get("why"))


def same(a, b):
    """equal CSS, or both fail (failure messages are not compared: the property says "or both fail";
    a crash on both sides is C01's finding, not a disagreement)"""
    if a[0] == "ok" and b[0] == "ok":
        return a[1] == b[1]
    return a[0] != "ok" and b[0] != "ok"


def crashed(o):
    return o[0] not in ("ok", "err")


def run(tier, seed):
    ck = Check("C18", tier, seed)
    ck.fail, ck.disagreements = [], []
    quick = tier == "quick"
    rng = ck.rng
    ck.cov["rule"] = (
        "generated programs (nested rules, declarations, variables, @if/@else, @for, @each, @mixin/@include/@content, "
        "@function/@return, @media, comments, `_`/`-` spellings of defined names) printed by two independent printers (SCSS with "
        "free whitespace, indented); generated plain-CSS programs as css vs scss; a fixed list of Sass-only constructs as css; "
        "golden-corpus and generated programs under LF->CRLF/CR/FF (applied everywhere: the lexer normalises before any parser "
        "sees the text), whitespace / `//` comments inserted after `;` `{` `}` outside strings, comments, parentheses, "
        "interpolation (SCSS only; texts with custom properties, url(, @import, @supports, @charset, backslashes are left alone), "
        "leading BOM, leading @charset, `_`<->`-` in variable names and in the names of mixins/functions defined in the text. "
        "A case is distinct by (relation, source, variant) and non-trivial when the base program compiles to non-empty CSS or the "
        "relation is about an error span.")
    ck.assumptions = [
        "PARTIAL: agreement of the SCSS / indented / CSS parsers and insignificance of whitespace and comments are tested "
        "metamorphically, not proved (C18_full); only the lexer and identifier normalisation are theorems",
        "two failing compilations count as agreeing whatever their messages (the property says 'or both fail')",
        "error spans are reconstructed from codemap's (line, column): lines split on LF, columns count characters",
    ]
    import time
    t0 = time.time()
    ck.do_prove(cores=("lex",))
    if not ck.do_build_runner():
        ck.unproved("correspondence-broken", {"why": "runner does not build against /repo", "error": getattr(ck, "build_error", "")})
        return ck.finish()
    ck.cov["phase_wall"] = {"prove+build_s": round(time.time() - t0, 1)}
    t0 = time.time()
    pool = RunnerPool()
    cases, _ = corpus.load()
    cases = [c for c in cases if len(c["input"]) <= 1500]

    jobs, meta = [], []      # meta: (relation, key, base_index or None, extra)

    def add(rel, src, syntax, base=None, extra=None, **opts):
        jobs.append(compile_job(src, syntax=syntax, quiet=True, **opts))
        meta.append((rel, src, syntax, base, extra))
        return len(jobs) - 1

    # ---- (1) SCSS vs indented, generated ------------------------------------------------------
    n_prog = 700 if quick else 25000
    for _ in range(n_prog):
        gen = Gen(rng)
        p = gen.program()
        scss = print_scss(rng, p)
        unit = rng.choice(["  ", "    ", "\t", " "])
        sass = print_sass(p, unit=unit)
        b = add("scss-base", scss, "scss", extra=p)
        add("scss-vs-sass", sass, "sass", base=b)
        add("scss-vs-sass", sass_blank_lines(rng, sass, unit), "sass", base=b)
        # the same SCSS with line breaks (any style) between the operands of declaration values
        v = value_newlines(rng, scss)
        if v is not None:
            add("rewrite:value-nl", v, "scss", base=b)
        # rewrites of the generated SCSS text
        add_rewrites(ck, rng, add, scss, "scss", b, n=2 if quick else 3)
    # ---- (2) plain CSS as css vs scss -----------------------------------------------------------
    for _ in range(300 if quick else 8000):
        p = Gen(rng, plain_css=True).program()
        t = print_scss(rng, p)
        b = add("css-base", t, "scss")
        add("css-vs-scss", t, "css", base=b)
    css_cases = [c for c in cases if c["kind"] == "test" and c["options"].get("syntax") == "css"]
    for c in css_cases:
        b = add("css-base", c["input"], "scss")
        add("css-vs-scss", c["input"], "css", base=b)
    for t in SASS_ONLY_IN_CSS:
        add("sass-only-rejected", t, "css")
    # ---- (3) rewrites of corpus programs --------------------------------------------------------
    pick = rng.sample(cases, 500) if quick else cases
    for syn, src in CORPUS:
        b = add("corpus-base", src, syn)
        add_rewrites(ck, rng, add, src, syn, b, n=9)
        if syn == "css":
            b2 = add("css-base", src, "scss")
            add("css-vs-scss", src, "css", base=b2)
    for c in pick:
        syn = c["options"].get("syntax", "scss")
        opts = {k: v for k, v in c["options"].items() if k != "syntax"}
        b = add("corpus-base", c["input"], syn, **opts)
        add_rewrites(ck, rng, add, c["input"], syn, b, n=3 if quick else 7, **opts)
    # ---- (3b) texts that FAIL to compile, under the three other newline styles: feeds the span tie ----
    multi_err = [c for c in cases if c["kind"] == "error" and "\n" in c["input"].strip("\n")]
    for c in (rng.sample(multi_err, min(len(multi_err), 250)) if quick else multi_err):
        syn = c["options"].get("syntax", "scss")
        b = add("corpus-base", c["input"], syn)
        for kd in NL_STYLES:
            add("rewrite:nl-" + kd, nl_subst(kd, c["input"]), syn, base=b)
    for _ in range(150 if quick else 5000):
        t = print_scss(rng, Gen(rng).program())
        if t.count("\n") < 2:
            continue
        cut = rng.randrange(len(t) // 2, len(t))
        t = t[:cut] + rng.choice(["", "}", ")", "\"", "@", "$", "#{"])
        b = add("corpus-base", t, "scss")
        for kd in NL_STYLES:
            add("rewrite:nl-" + kd, nl_subst(kd, t), "scss", base=b)
    # ---- (4) identifier normalisation tie -------------------------------------------------------
    names = []
    alpha = ["a", "_", "-", "b", "1", "__", "--", "_-"]
    for _ in range(150 if quick else 4000):
        n1 = "n" + "".join(rng.choice(alpha) for _ in range(rng.randint(1, 5))) + "z"
        if rng.random() < 0.7:
            n2 = "".join((rng.choice("_-") if ch in "_-" and rng.random() < 0.5 else ch) for ch in n1)
        else:
            n2 = "n" + "".join(rng.choice(alpha) for _ in range(rng.randint(1, 5))) + "z"
        names.append((n1, n2))
    norm_lines = [f"lex normeq {hexs(a)} {hexs(b)}" for a, b in names]
    for (n1, n2) in names:
        add("norm:variable", f"${n1}: 1; z{{y: ${n2}}}", "scss", extra=(n1, n2))
        add("norm:function", f"@function {n1}(){{@return 1}} z{{y: {n2}()}}", "scss", extra=(n1, n2))
        add("norm:mixin", f"@mixin {n1}{{y: 1}} z{{@include {n2}}}", "scss", extra=(n1, n2))
        add("norm:keyword", f"@function f(${n1}){{@return ${n1}}} z{{y: f(${n2}: 1)}}", "scss", extra=(n1, n2))
        add("norm:variable-sass", f"${n1}: 1\nz\n  y: ${n2}\n", "sass", extra=(n1, n2))

    # ---- (5) the column a loud comment is re-indented by (C18-F1): model tie ----------------------
    col_cases = []
    for _ in range(120 if quick else 3000):
        k = rng.choice(["lf", "lf", "crlf", "cr", "ff"])
        bom = "\ufeff" if rng.random() < 0.25 else ""
        before = "".join(rng.choice(["x{y:z}", "$v: 1;", "", "q{r:s}  "]) + "\n" for _ in range(rng.randint(0, 3)))
        n1 = rng.randint(0, 6)
        inds = [rng.randint(0, 10) for _ in range(rng.randint(1, 3))]
        pre = bom + nl_subst(k, before) + " " * n1
        comment = "/* L0" + "".join("\n" + " " * n + f"L{i + 1}" for i, n in enumerate(inds)) + " */"
        src = pre + nl_subst(k, comment) + nl_subst(k, "\n")
        idx = add("comment-column", src, "scss", extra=(pre, inds, k, bool(bom)))
        col_cases.append(idx)
    col_lines = []
    for idx in col_cases:
        pre = meta[idx][4][0]
        col_lines += [f"lex column 1 {hexs(pre)}", f"lex column 0 {hexs(pre)}"]
    col_outs = driver(col_lines) if col_lines else []
    col_model = {idx: (col_outs[2 * n], col_outs[2 * n + 1]) for n, idx in enumerate(col_cases)}

    answers = g.run_many(pool, jobs, timeout=5.0)
    outs = [outcome(a) for a in answers]
    normeq = dict(zip(names, driver(norm_lines))) if names else {}

    # ---- judge ------------------------------------------------------------------------------------
    span_cases = []
    for k, ((rel, src, syn, base, extra), o) in enumerate(zip(meta, outs)):
        ck.hist("relation:" + rel.split(":")[0] if rel.startswith("rewrite") else "relation:" + rel)
        if rel.startswith("rewrite:"):
            ck.hist("rewrite-kind:" + rel.split(":", 1)[1])
        if crashed(o):
            # a crash is C01's business; it is not an agreement, so it is reported here too
            ck.hist("crash-seen")
        if rel in ("scss-base", "css-base", "corpus-base"):
            ck.hist(f"{rel}:{o[0]}" + (":empty" if o[0] == "ok" and not o[1] else ""))
            continue
        if rel == "sass-only-rejected":
            ck.count((rel, src), True)
            if o[0] != "err":
                ck.fail.append({"relation": rel, "source": src, "syntax": "css", "observed": list(o),
                                "expected_by_property": "rejected in CSS mode", "tags": []})
            continue
        if rel == "comment-column":
            pre, inds, style, bom = extra
            af, sp = (int(x.split()[1]) for x in col_model[k])

            def rendered(col):
                return "/* L0" + "".join("\n" + " " * max(0, n - col) + f"L{i + 1}" for i, n in enumerate(inds)) + " */"

            got = re.findall(r"/\*.*?\*/", o[1] or "", re.S)
            got = got[-1] if got else None
            ck.count((rel, src), af != sp or any(inds))
            ck.hist(f"comment-column:{style}{'+bom' if bom else ''}:{'old=now' if rendered(af) == rendered(sp) else 'old!=now'}")
            # tie: the model of write_comment as it is now (`asFound = false`)
            if got != rendered(sp):
                ck.cov["model_disagreements"] += 1
                if len(ck.disagreements) < 10:
                    ck.disagreements.append({"relation": rel, "source": src, "model_now": rendered(sp), "model_as_found": rendered(af), "grass": got})
            # direct: the comment must come out as from the LF / no-BOM spelling of the same text
            base_pre = nl_subst("lf", pre.replace("\ufeff", ""))
            n_lf = len(base_pre) - (base_pre.rfind("\n") + 1)
            if got != rendered(n_lf):
                ck.fail.append({"relation": rel, "source": src, "syntax": "scss", "observed": got, "expected_by_property": rendered(n_lf),
                                "model_now": rendered(sp), "tags": []})
            continue
        if rel.startswith("norm:"):
            n1, n2 = extra
            m = normeq[(n1, n2)]
            eq = m.startswith("ok 1")
            resolved = o[0] == "ok" and "y: 1" in (o[1] or "")
            ck.count((rel, n1, n2), n1 != n2)
            ck.hist(f"norm:{'equal' if eq else 'different'}")
            if resolved != eq:
                ck.cov["model_disagreements"] += 1
                if len(ck.disagreements) < 10:
                    ck.disagreements.append({"relation": rel, "source": src, "model_normeq": m, "grass": list(o)})
                # direct reading of the property: spellings equal up to _/- must resolve
                if eq and not resolved:
                    ck.fail.append({"relation": rel, "source": src, "syntax": syn, "observed": list(o),
                                    "expected_by_property": "names equal up to _/- resolve to the same member", "tags": []})
            continue
        bo = outs[base]
        nontrivial = (bo[0] == "ok" and bool(bo[1])) or bo[0] == "err"
        ck.count((rel, src, syn), nontrivial)
        if k % 701 == 0:
            ck.sample({"relation": rel, "syntax": syn, "variant": src[:160], "base": meta[base][1][:160], "agree": same(bo, o)})
        if not same(bo, o):
            ck.fail.append({"relation": rel, "source": meta[base][1], "syntax": meta[base][2], "variant": src, "variant_syntax": syn,
                            "base_observed": list(bo), "variant_observed": list(o), "job": jobs[k], "base_job": jobs[base],
                            "expected_by_property": "identical CSS, or both fail", "tags": []})
        elif rel.startswith("rewrite:nl-") and bo[0] == "err":
            span_cases.append((base, k))

    # ---- (b) TIE of the lexer theorems: error spans under newline styles ---------------------------
    tie_lines = []
    for base, k in span_cases:
        tie_lines.append("lex tokens " + hexs(meta[base][1]))
        tie_lines.append("lex tokens " + hexs(meta[k][1]))
        tie_lines.append("lex nlcheck " + hexs(meta[base][1]))
        tie_lines.append(f"lex subst {meta[k][0].split('-')[1]} " + hexs(meta[base][1]))
    touts = driver(tie_lines) if tie_lines else []
    for n, (base, k) in enumerate(span_cases):
        ea, eb = answers[base].get("err", {}), answers[k].get("err", {})
        if ea.get("kind") != "parse" or eb.get("kind") != "parse" or ea.get("file") != "stdin":
            continue
        A, B = meta[base][1], meta[k][1]
        ta, tb, chk = parse_tokens(touts[4 * n]), parse_tokens(touts[4 * n + 1]), touts[4 * n + 2]
        if touts[4 * n + 3] != "ok " + hexs(B):
            ck.cov["model_disagreements"] += 1
            ck.disagreements.append({"relation": "python rewriter != model substNewlines", "source": A})
            continue
        if ta is None or tb is None or len(ta) != len(tb):
            ck.cov["unsupported_dropped"] += 1
            continue
        from props.c01 import err_span
        la, ha = err_span(A, ea)
        lb, hb = err_span(B, eb)
        pred_lo = map_pos(ta, tb, la, len(A.encode()), len(B.encode()), end=False)
        pred_hi = map_pos(ta, tb, ha, len(A.encode()), len(B.encode()), end=True)
        ck.hist("tie:error-span-under-" + meta[k][0].split(":")[1])
        ck.count(("span-tie", A, meta[k][0]), True)
        if chk != "ok holds":
            ck.fail.append({"relation": "lexer-predicate", "source": A, "syntax": meta[base][2], "observed": chk,
                            "expected_by_property": "nlInvariantAt holds (theorem C18_nlInvariantAt)", "tags": []})
        if pred_lo is None or pred_hi is None:
            ck.cov["unsupported_dropped"] += 1
            continue
        if (lb, hb) != (pred_lo, pred_hi) or ea.get("message") != eb.get("message"):
            ck.cov["model_disagreements"] += 1
            if len(ck.disagreements) < 10:
                ck.disagreements.append({"relation": meta[k][0], "source": A, "variant": B, "base_span": [la, ha], "variant_span": [lb, hb],
                                         "model_predicts": [pred_lo, pred_hi], "messages": [ea.get("message"), eb.get("message")]})

    # ---- report -----------------------------------------------------------------------------------
    ck.fail.sort(key=lambda f: len(f["source"]) + len(f.get("variant", "")))
    seen_rel = {}
    reported = 0
    for f in ck.fail:
        tags = f.get("tags_precomputed") or classify(f)
        f["tags"] = tags
        key = (f["relation"], tuple(tags))
        seen_rel[key] = seen_rel.get(key, 0) + 1
        if seen_rel[key] > int(__import__("os").environ.get("C18_MAXREP", "2")) and not tags:
            ck.cov["impl_property_failures"] += 1
            continue
        if "job" in f and not tags:
            f = shrink_pair(pool, f)
        if ck.impl_violation(f["source"] + "\n=>\n" + f.get("variant", ""), f, tags=tags):
            reported += 1
    for kf in known_findings("C18"):
        if kf["id"] not in [x["id"] for x in ck.known_seen]:
            ck.notes.append(f"known finding {kf['id']} is stale: its witnesses in CORPUS no longer fail")
    if ck.cov["model_disagreements"] and not reported:
        ck.unproved("correspondence-broken", {"correspondence": "lexer positions / identifier normalisation (Grass.Lexer) vs grass",
                                              "cases": ck.disagreements})
    ck.cov["metamorphic_part_is_testing"] = True
    ck.cov["phase_wall"]["cases_s"] = round(time.time() - t0, 1)
    return ck.finish()


def _lstrip_lines(css):
    return "\n".join(l.lstrip() for l in (css or "").split("\n"))


def classify(f):
    """class tags of known findings, computed from the failing pair (none at present: C18-F1, the column of
    a loud comment taken from codemap, was fixed in /repo by e81c3e6 — its inputs are regression cases in CORPUS)"""
    return []


def parse_tokens(line):
    if not line.startswith("ok"):
        return None
    out = []
    for t in line.split()[1:]:
        k, p = t.split(":")
        out.append((int(k), int(p)))
    return out


def utf8len(cp):
    return 1 if cp < 0x80 else 2 if cp < 0x800 else 3 if cp < 0x10000 else 4


def map_pos(ta, tb, pos, len_a, len_b, end):
    """byte offset `pos` of text A (a token start, or a token end when `end`) -> the offset of the same
    token edge in text B, through the model's token positions."""
    if pos is None:
        return None
    if not end:
        for (k, p), (k2, p2) in zip(ta, tb):
            if p == pos:
                return p2
    else:
        for (k, p), (k2, p2) in zip(ta, tb):
            if p + utf8len(k) == pos:
                return p2 + utf8len(k2)
    if pos == 0:
        return 0
    if pos == len_a:
        return len_b
    # an edge that is a token start used as an end (empty span) or vice versa
    for (k, p), (k2, p2) in zip(ta, tb):
        if p == pos:
            return p2
        if p + utf8len(k) == pos:
            return p2 + utf8len(k2)
    return None


NL_STYLES = ["crlf", "cr", "ff"]


_NONDETERMINISTIC = re.compile(r"module-functions|module-variables|module_functions|module_variables|keywords\(")


def add_rewrites(ck, rng, add, src, syn, base, n, **opts):
    """n random variants of `src` that the property calls insignificant."""
    if _NONDETERMINISTIC.search(src):
        return          # output order follows hash order (a C02 matter): two runs of the SAME text differ
    kinds = ["nl-crlf", "nl-cr", "nl-ff", "ws", "bom", "charset", "names", "value-nl", "sass-blank", "sass-inline-comment"]
    rng.shuffle(kinds)
    made = 0
    for kd in kinds:
        if made >= n:
            break
        v = None
        if kd.startswith("nl-"):
            if "\n" not in src and "\r" not in src and "\f" not in src:
                continue
            v = nl_subst(kd[3:], src)
        elif kd == "ws":
            if syn == "sass":
                continue
            v = insert_ws_comments(rng, src, comments=(syn == "scss"))
        elif kd == "bom":
            if src.startswith("\ufeff"):
                continue         # "a leading BOM": a second one is an ordinary character
            v = "\ufeff" + src
        elif kd == "charset":
            if src.lstrip().lower().startswith("@charset") or src.startswith("\ufeff"):
                continue
            if syn == "sass" and src[:1] in (" ", "\t"):
                continue
            # on a line of its own: on the same line it would move the first statement's column, and the
            # column of a loud comment is part of how its text is re-indented
            v = ('@charset "UTF-8"\n' if syn == "sass" else rng.choice(['@charset "UTF-8";\n', "@charset 'utf-8';\n"])) + src
        elif kd == "names":
            if syn == "css":
                continue
            v = swap_names(rng, src, syn)
        elif kd == "value-nl":
            if syn == "sass" or _UNSAFE_FOR_INSERT.search(src):
                continue
            v = value_newlines(rng, src)
        elif kd == "sass-blank":
            # blank lines with stray white space between statements of an indented document; texts with comments
            # (their continuation is decided by indentation) or multi-line selectors are left alone
            if syn != "sass" or "/*" in src or "//" in src or ",\n" in src or "\\" in src:
                continue
            unit = "\t" if re.search(r"\n\t", src) else "  "
            v = sass_blank_lines(rng, src.rstrip("\n"), unit) + "\n"
        elif kd == "sass-inline-comment":
            # round 3 (seeded C18-r3m2): a silent comment / trailing white space AFTER the tokens of a line of an
            # indented document (the statement ends at the newline, not at the comment)
            if syn != "sass" or "/*" in src or "//" in src or ",\n" in src or "\\" in src or "url(" in src or "--" in src:
                continue
            v = sass_inline_comments(rng, src)
        if v is None or v == src:
            continue
        add("rewrite:" + kd, v, syn, base=base, **opts)
        made += 1


def nl_subst(k, s):
    """`substNewlines k (normNL s)` of Grass/Lexer.lean, re-implemented here for speed; the span tie asks the
    model (`lex subst`) for the same text and counts a difference as a broken correspondence."""
    t = s.replace("\r\n", "\n").replace("\r", "\n").replace("\f", "\n")
    return t.replace("\n", {"crlf": "\r\n", "cr": "\r", "ff": "\f", "lf": "\n"}[k])


def shrink_pair(pool, f):
    """Shrink a failing (base, variant) pair when the variant is a function of the base that can be
    recomputed: only the newline / BOM / charset rewrites are (deterministic); others are reported as found."""
    rel = f["relation"]
    base_job, var_job = f["base_job"], f["job"]

    def variant_of(src):
        if rel.startswith("rewrite:nl-"):
            k = rel.split("-")[1]
            t = src.replace("\r\n", "\n").replace("\r", "\n").replace("\f", "\n")
            return t.replace("\n", {"crlf": "\r\n", "cr": "\r", "ff": "\f"}[k])
        if rel == "rewrite:bom":
            return "\ufeff" + src
        return None

    if variant_of(f["source"]) is None:
        return f

    def still(src):
        v = variant_of(src)
        a, b = pool.map([dict(base_job, input=src), dict(var_job, input=v)], timeout=5.0, confirm=False)
        return not same(outcome(a), outcome(b))

    if not still(f["source"]):
        return f
    small = g.ddmin(f["source"], still, max_calls=200)
    f = dict(f)
    f["source"], f["variant"] = small, variant_of(small)
    f["job"], f["base_job"] = dict(var_job, input=f["variant"]), dict(base_job, input=small)
    return f


def replay(path):
    r = json.load(open(path))
    ck = Check("C18", "quick", 0)
    ck.do_build_runner()
    pool = RunnerPool(1)
    if "base_job" not in r or "job" not in r:
        print(json.dumps(r, indent=1)[:4000])
        return 0
    a, b = pool.map([r["base_job"], r["job"]], timeout=20.0)
    oa, ob = outcome(a), outcome(b)
    print("relation:", r.get("relation"))
    print("base    :", json.dumps(r["base_job"])[:600], "->", oa)
    print("variant :", json.dumps(r["job"])[:600], "->", ob)
    print("agree now:", same(oa, ob))
    return 0 if same(oa, ob) else 1
