"""C03 — SassScript evaluation follows the language scoping and control-flow rules.

(a) PROOF   GrassProofs/C03.lean: cache transparency of grass's `Scopes` (refinement of the
            cache-free specification for every operation sequence), @for range, fuel monotonicity,
            and/or short-circuit, argument-binding laws; as-found witnesses for D3.
(b) TIE     * scope core: programs generated FROM operation trees; the lookups grass performs
              (`@debug $n`) must equal the outputs of `Grass.Scope.run Cfg.now` on the same operations;
            * evaluator: random programs; declarations + @debug/@warn trace + error class of grass
              must equal `Grass.Eval.evalProgram`.
(c) DIRECT  the specification is the oracle: P̂(program, observation) = "the observation is the one
            the specification's evaluation rules produce" (`scope check` in Lean for the operation
            sequences; canonical-trace equality with the reference evaluator for programs).
"""
import json
import re
import time

import cssread
from vlib import Check, RunnerPool, compile_job, driver, log, sha

from props import c03_gen as G

FUEL = 600

ERR_CLASSES = [
    (r"^Undefined variable\.", "undefined-variable"),
    (r"^Undefined mixin\.", "undefined-mixin"),
    (r"^Missing argument ", "missing-argument"),
    (r"^Only \d+ (positional )?arguments? allowed, but \d+ (was|were) passed\.", "too-many-arguments"),
    (r"^No arguments? named ", "no-argument-named"),
    (r"was passed both by position and by name\.", "passed-both-ways"),
    (r"^Function finished without @return\.", "no-return"),
    (r"isn't a valid CSS value\.", "invalid-css"),
    (r"^Undefined operation ", "undefined-operation"),
    (r"is not a number\.", "not-a-number"),
    (r"is not an int\.", "not-an-integer"),
    (r"^Declarations may only be used within style rules\.", "decl-outside-rule"),
    (r"^This at-rule is not allowed here\.", "static-error"),
    (r"^Mixin doesn't accept a content block\.", "no-content-accepted"),
    (r"^Duplicate key\.", "duplicate-key"),
    (r"^Invalid index ", "index-out-of-bounds"),
    (r"^\$n: Invalid index ", "index-out-of-bounds"),
]


def err_class(msg):
    for pat, c in ERR_CLASSES:
        if re.search(pat, msg or ""):
            return c
    return "other"


def hx(s):
    b = s.encode("utf-8")
    return b.hex() if b else "-"


def obs_impl(ans):
    """Canonical observation of one grass run: the string the Lean driver would print."""
    st = ans.get("status")
    logs = [(l.get("kind"), l.get("msg", "")) for l in ans.get("logs", [])]
    logtxt = ",".join(f"{k}:{hx(m)}" for k, m in logs) or "-"
    if st == "ok":
        try:
            tree = cssread.parse(ans.get("css") or "")
        except cssread.IllFormed as e:
            return f"ill-formed-css {e}"
        decls = []
        collect(tree, [], decls)
        # declarations are compared per selector, in order (the position of a nested rule relative
        # to its parent's declarations belongs to C04)
        css = ",".join(f"{hx(s)}:{hx(p)}:{hx(v)}" for s, p, v in decls) or "-"
        return f"ok done | {css} | {logtxt}"
    if st == "err":
        msg = (ans.get("err") or {}).get("message", "")
        c = err_class(msg)
        if c == "other":
            # @error: the message is the inspected value
            return f"ok err user-error:{hx(msg)} | - | {logtxt}"
        if c == "static-error":
            return "ok err static-error | - | -"
        return f"ok err {c} | - | {logtxt}"
    return f"{st} {ans.get('panic') or ans.get('why') or ''}"


def collect(nodes, ctx, out):
    for nd in nodes:
        if nd["type"] == "rule":
            collect(nd["children"], ctx + [nd["prelude"]], out)
        elif nd["type"] == "decl":
            out.append((" ".join(ctx), nd["name"], nd["value"]))


def canon_model(line):
    """Model line -> the same canonical form (declarations grouped per selector)."""
    if not line.startswith("ok "):
        return line
    parts = line.split(" | ")
    if len(parts) != 3:
        return line
    head, css, logs = parts
    if head.startswith("ok err"):
        css = "-"
    if head == "ok err static-error":
        logs = "-"
    return f"{head} | {group_css(css)} | {logs}"


def group_css(css):
    if css == "-":
        return "-"
    items = css.split(",")
    order, by = [], {}
    for it in items:
        s = it.split(":")[0]
        if s not in by:
            by[s] = []
            order.append(s)
        by[s].append(it)
    return ",".join(x for s in sorted(order) for x in by[s])


def canon_impl(o):
    if not o.startswith("ok "):
        return o
    head, css, logs = o.split(" | ")
    return f"{head} | {group_css(css)} | {logs}"


# ---------------------------------------------------------------------------------------------
# running cases
# ---------------------------------------------------------------------------------------------

def run_programs(pool, progs, syntax="scss"):
    """progs: list of (eval_prog, grass_prog, files) -> (impl canonical, model canonical) lists."""
    jobs = []
    for ep, gp, files in progs:
        src = G.to_scss(gp) if syntax == "scss" else G.to_sass(gp)
        if files:
            fs = {"/w/main." + syntax: src}
            for k, v in files.items():
                fs["/w/" + k] = v
            jobs.append(compile_job(files=fs, entry="/w/main." + syntax, syntax=syntax))
        else:
            jobs.append(compile_job(src, syntax=syntax))
    answers = pool.map(jobs, timeout=10)
    impl = [canon_impl(obs_impl(a)) for a in answers]
    outs = driver([f"eval run {FUEL} " + G.to_tokens(ep) for ep, _, _ in progs])
    model = [canon_model(o) for o in outs]
    return impl, model, answers


def size_of(t):
    if isinstance(t, tuple):
        return 1 + sum(size_of(x) for x in t)
    return 1


def shrink(pool, prog, still_fails, rounds=40):
    """Greedy structural shrinking: repeatedly take the smallest one-step reduction that still fails."""
    cur = prog
    for _ in range(rounds):
        cands = sorted(set(G.shrink_candidates(cur)), key=size_of)[:400]
        if not cands:
            break
        flags = still_fails(cands)
        nxt = next((c for c, f in zip(cands, flags) if f), None)
        if nxt is None:
            break
        cur = nxt
    return cur


# minimised past failures (eval programs), run first on every run
CORPUS = [
    # D3 (fixed in /repo): stale variable-index cache in a closure
    (("var", "x", ("str", "global", False), False, False),
     ("rule", "a", (("decl", "z", ("var", "x")),
                    ("mixin", "m", ((), None), (("decl", "b", ("var", "x")),)),
                    ("var", "x", ("str", "local", False), False, False),
                    ("incl", "m", ((), (), None), None)))),
]


def eval_stream(ck, pool, tier):
    rng = ck.rng
    n = 2600 if tier == "quick" else 90000
    cfg = G.Cfg(depth=4, max_stmts=25) if tier == "quick" else G.Cfg(depth=6, max_stmts=40)
    cases = [(p, ["corpus"]) for p in CORPUS]
    for _ in range(n):
        cases.append(G.gen_program(rng, cfg))
    failing = []
    B = 4000
    for off in range(0, len(cases), B):
        chunk = cases[off:off + B]
        impl, model, answers = run_programs(pool, [(p, p, None) for p, _ in chunk])
        for (p, feats), io, mo, ans in zip(chunk, impl, model, answers):
            if mo == "unsupported" or mo == "ok out-of-fuel" or mo == "bad-op":
                ck.cov["unsupported_dropped"] += 1
                ck.hist("model:" + mo)
                continue
            nontrivial = any(f in feats for f in ("fn-call", "@include", "nested-assign", "!global", "corpus"))
            ck.count(("eval", G.to_tokens(p)), nontrivial)
            for f in feats:
                ck.hist("feature:" + f)
            ck.hist("outcome:" + " ".join(mo.split(" | ")[0].split(":")[0].split()[1:3]))
            ck.hist("size:%d0-%d9" % (size_of(p) // 100 * 10, size_of(p) // 100 * 10 + 9) if False else "stmts:%d" % min(40, count_stmts(p) // 5 * 5))
            if (off == 0 and len(ck.cov["samples"]) < 3 and nontrivial):
                ck.sample({"scss": G.to_scss(p), "observation": io})
            if io != mo:
                ck.cov["model_disagreements"] += 1
                failing.append({"prog": p, "impl": io, "model": mo})
    return failing


def count_stmts(body):
    n = 0
    for s in body:
        n += 1
        for x in s:
            if isinstance(x, tuple) and x and isinstance(x[0], tuple) and x[0] and isinstance(x[0][0], str) and x[0][0] in STMT_KINDS:
                n += count_stmts(x)
    return n


STMT_KINDS = {"decl", "rule", "var", "ifs", "for", "each", "while", "func", "ret", "mixin", "incl", "content", "debug", "warn", "error"}


def scope_stream(ck, pool, tier):
    """Operation-sequence correspondence for the scope core."""
    rng = ck.rng
    n = 500 if tier == "quick" else 12000
    trees = [(t, ["corpus"]) for t in G.D3_TREES]
    for _ in range(n):
        trees.append(G.gen_scope_tree(rng, depth=3 if tier == "quick" else 4, size=22 if tier == "quick" else 40))
    progs, opss = [], []
    for t, _ in trees:
        gp, files, ep = G.tree_ast(t)
        progs.append((ep, gp, files))
        opss.append(G.tree_ops(t))
    impl, model, answers = run_programs(pool, progs)
    lines = []
    obs_all = []
    for ops, ans in zip(opss, answers):
        lines.append("scope run " + " ".join(ops))
        # the lookups grass performed, as outputs of the operation sequence
        vals = [l.get("msg") for l in ans.get("logs", []) if l.get("kind") == "debug"]
        obs, k, dead = [], 0, False
        for o in ops:
            if o[0] != "R" or dead:
                obs.append("-")
                continue
            if k < len(vals):
                obs.append("v" + vals[k])
                k += 1
            else:
                obs.append("u" if ans.get("status") == "err" and err_class((ans.get("err") or {}).get("message")) == "undefined-variable" else "?")
                dead = True
        obs_all.append(obs)
        lines.append(f"scope check {len(ops)} " + " ".join(ops) + " " + " ".join(obs))
    outs = driver(lines)
    failing = []
    for i, ((t, feats), ops) in enumerate(zip(trees, opss)):
        runline, verdict = outs[2 * i], outs[2 * i + 1]
        m = re.match(r"ok (\S+) \| (\S+) \| (\S+) \| (\S+) \| inv=(\d)$", runline)
        if not m:
            ck.cov["unsupported_dropped"] += 1
            continue
        now, spec, asf_c, asf_r, inv = m.groups()
        nontrivial = "K" in "".join(o[0] for o in ops) or any(o[0] in "AS" for o in ops)
        ck.count(("scope", ops), nontrivial)
        ck.hist("scope-ops:%d" % min(60, len(ops) // 10 * 10))
        for f in feats:
            ck.hist("scope-feature:" + f)
        if asf_c != spec:
            ck.hist("scope:would-expose-D3-closure-variant")
        if asf_r != spec:
            ck.hist("scope:would-expose-D3-restore-variant")
        if inv != "1":
            ck.notes.append(f"invariant check failed in the MODEL on {' '.join(ops)}")
        # truncate the model outputs after the first undefined lookup (grass stops there)
        mo = now.split(",") if now != "-" else []
        cut = next((j for j, o in enumerate(mo) if o == "u"), None)
        exp = [o if o[0] in "vu" else "-" for o in mo]
        if cut is not None:
            exp = exp[:cut + 1] + ["-"] * (len(exp) - cut - 1)
        ob = obs_all[i]
        if ob != exp:
            ck.cov["model_disagreements"] += 1
            failing.append({"tree": t, "ops": " ".join(ops), "impl": " ".join(ob), "model": " ".join(exp),
                            "scss": G.to_scss(progs[i][1]), "files": progs[i][2], "kind": "scope"})
        elif impl[i] != model[i] and model[i] not in ("unsupported", "ok out-of-fuel", "bad-op"):
            # the same program through the reference evaluator (imports spliced in place)
            ck.cov["model_disagreements"] += 1
            failing.append({"tree": t, "ops": " ".join(ops), "impl": impl[i], "model": model[i],
                            "scss": G.to_scss(progs[i][1]), "files": progs[i][2], "kind": "scope-eval"})
    return failing


def run(tier, seed):
    ck = Check("C03", tier, seed)
    ck.cov["rule"] = ("(1) scope stream: programs generated from random scope-operation trees (blocks, @each bindings, "
                      "plain/semi-global/!global assignments, reads, @mixin closures, @include with and without content "
                      "blocks, @content, @import of a file with @use); distinct by operation sequence, non-trivial when it "
                      "contains a closure call or a nested-scope assignment. (2) eval stream: random type- and "
                      "scope-directed programs; distinct by token form, non-trivial when they call a user function, "
                      "include a mixin, assign from a nested scope or use !global.")
    ck.assumptions = ["numbers restricted to dyadic rationals exactly representable as doubles with <= 10 decimals",
                      "declarations compared per selector (rule ordering belongs to C04)",
                      "errors compared by class (plus the @error message) together with the log trace up to the error"]
    ck.do_prove(cores=("scope", "eval"))
    if not ck.do_build_runner():
        ck.unproved("correspondence-broken", {"why": "runner does not build against /repo", "error": getattr(ck, "build_error", "")})
        return ck.finish()
    pool = RunnerPool()
    t0 = time.time()
    failing = scope_stream(ck, pool, tier)
    log(f"[C03] scope stream done in {time.time() - t0:.1f}s, failing={len(failing)}")
    t0 = time.time()
    failing += eval_stream(ck, pool, tier)
    log(f"[C03] eval stream done in {time.time() - t0:.1f}s, failing={len(failing)}")
    reported = 0
    for f in failing[:20]:
        log("[C03] DISAGREE", json.dumps({k: (G.to_scss(v) if k == "prog" else v) for k, v in f.items() if k != "tree"})[:1500])
    for f in failing[:5]:
        text = f.get("scss") or G.to_scss(f["prog"])
        payload = {"source": text, "impl_observation": f["impl"], "model_observation": f["model"],
                   "expected_by_property": "the observation the reference evaluator (Sass rules) produces"}
        if ck.impl_violation(text, payload, tags=[]):
            reported += 1
    return ck.finish()


def replay(path):
    r = json.load(open(path))
    print(json.dumps(r, indent=1))
    return 0
