"""C03 — SassScript evaluation follows the language scoping and control-flow rules.

(a) PROOF   GrassProofs/C03.lean: cache transparency of grass's `Scopes` (refinement of the
            cache-free specification for every operation sequence), @for range, fuel monotonicity,
            and/or short-circuit, argument-binding laws; as-found witnesses for D3.
(b) TIE     * scope core: programs generated FROM operation trees; the lookups grass performs
              (`@debug $n`) must equal the outputs of `Grass.Scope.run Cfg.now` on the same operations;
            * evaluator: random programs; declarations + @debug/@warn trace + error class of grass
              must equal `Grass.Eval.evalProgram Dev.asFound` (the reference evaluator with the
              as-found switch of the known finding N3 on; N1, N2, N4 were repaired in /repo).
(c) DIRECT  the specification is the oracle: P̂(program, observation) = "the observation is the one
            the specification's evaluation rules produce" — `scope check` in Lean for operation
            sequences; canonical-trace equality with `evalProgram Dev.spec` for programs.  A failure
            is shrunk on the AST and reported (KNOWN-FINDING when it is exactly one of the as-found
            switches that explains it, VIOLATION otherwise).
"""
import json
import os
import re
import time

import cssread
from vlib import Check, RunnerPool, compile_job, driver, log

from props import c03_gen as G

FUEL = 600
DEV_ALL = "e"          # the code as it stands (Grass.Eval.Dev.now): N3 is still as found; N5 was repaired (8433dfd)
DEV_TAGS = {"e": "N3-empty-list-declaration"}

ERR_CLASSES = [
    (r"^Undefined variable\.", "undefined-variable"),
    (r"^Undefined mixin\.", "undefined-mixin"),
    (r"^Missing argument ", "missing-argument"),
    (r"^Only \d+ (positional )?arguments? allowed, but \d+ (was|were) passed\.", "too-many-arguments"),
    (r"^No arguments? named ", "no-argument-named"),
    (r"was passed both by position and by name\.", "passed-both-ways"),
    (r"^Function finished without @return\.", "no-return"),
    (r"isn't a valid CSS value\.", "invalid-css"),
    (r"^Undefined operation ", "undefined-operation"),
    (r"is not a number\.", "not-a-number"),
    (r"is not an int\.", "not-an-integer"),
    (r"^Declarations may only be used within style rules\.", "decl-outside-rule"),
    (r"^This at-rule is not allowed here\.", "static-error"),
    (r'^expected "\{"\.', "static-error"),
    (r"^Mixin doesn't accept a content block\.", "no-content-accepted"),
    (r"^Duplicate key\.", "duplicate-key"),
    (r"Invalid index ", "index-out-of-bounds"),
    (r"^Incompatible units ", "incompatible-units"),
]


def err_class(msg):
    for pat, c in ERR_CLASSES:
        if re.search(pat, msg or ""):
            return c
    return "other"


def hx(s):
    b = s.encode("utf-8")
    return b.hex() if b else "-"


def unhx(h):
    return "" if h == "-" else bytes.fromhex(h).decode("utf-8", "replace")


def norm_val(v):
    """Declaration values: outer whitespace stripped, whitespace runs outside quotes collapsed
    (what tools/cssread.py does to grass's output; applied to both sides)."""
    out, inq = [], False
    for ch in v.strip():
        if ch == '"':
            inq = not inq
        if ch in " \t\n" and not inq:
            if out and out[-1] == " ":
                continue
            ch = " "
        out.append(ch)
    return "".join(out)


def collect(nodes, ctx, out):
    for nd in nodes:
        if nd["type"] == "rule":
            collect(nd["children"], ctx + [nd["prelude"]], out)
        elif nd["type"] == "decl":
            out.append((" ".join(ctx), nd["name"], norm_val(nd["value"])))


def group_css(css):
    """Declarations are compared per selector, in order (where a nested rule is placed relative to
    its parent's declarations belongs to C04)."""
    if css == "-":
        return "-"
    order, by = [], {}
    for it in css.split(","):
        s = it.split(":")[0]
        if s not in by:
            by[s] = []
            order.append(s)
        by[s].append(it)
    return ",".join(x for s in sorted(order) for x in by[s])


def obs_impl(ans):
    """Canonical observation of one grass run, in the format the Lean driver prints."""
    st = ans.get("status")
    logs = [(l.get("kind"), l.get("msg", "")) for l in ans.get("logs", [])]
    logtxt = ",".join(f"{k}:{hx(m)}" for k, m in logs) or "-"
    if st == "ok":
        try:
            tree = cssread.parse(ans.get("css") or "")
        except cssread.IllFormed as e:
            return f"ill-formed-css {e}"
        decls = []
        collect(tree, [], decls)
        css = ",".join(f"{hx(s)}:{hx(p)}:{hx(v)}" for s, p, v in decls) or "-"
        return f"ok done | {group_css(css)} | {logtxt}"
    if st == "err":
        msg = (ans.get("err") or {}).get("message", "")
        c = err_class(msg)
        if c == "other":
            # @error: the message is the inspected value
            logtxt = (logtxt + "," if logtxt != "-" else "") + f"error:{hx(msg)}"
            return f"ok err user-error | - | {logtxt}"
        if c == "static-error":
            return "ok err static-error | - | -"
        return f"ok err {c} | - | {logtxt}"
    return f"{st} {ans.get('panic') or ans.get('why') or ''}"


def canon_model(line):
    if not line.startswith("ok "):
        return line
    parts = line.split(" | ")
    if len(parts) != 3:
        return line
    head, css, logs = parts
    if head.startswith("ok err"):
        css = "-"
    if head == "ok err static-error":
        logs = "-"
    if css != "-":
        items = []
        for it in css.split(","):
            a, b, c = it.split(":")
            items.append(f"{a}:{b}:{c if c == '!' else hx(norm_val(unhx(c)))}")
        css = ",".join(items)
    return f"{head} | {group_css(css)} | {logs}"


def pretty(o):
    """Readable form of a canonical observation (for replay files and reports)."""
    parts = o.split(" | ")
    if len(parts) != 3:
        return o
    css = [] if parts[1] == "-" else [tuple(unhx(x) for x in it.split(":")) for it in parts[1].split(",")]
    logs = [] if parts[2] == "-" else [(it.split(":")[0], unhx(it.split(":")[1])) for it in parts[2].split(",")]
    return {"status": parts[0], "declarations": [f"{s} {{ {p}: {v} }}" for s, p, v in css],
            "log": [f"{k}: {m}" for k, m in logs]}


# ---------------------------------------------------------------------------------------------
# running cases
# ---------------------------------------------------------------------------------------------

def job_for(gp, files, syntax="scss"):
    src = G.to_scss(gp) if syntax == "scss" else G.to_sass(gp)
    if files:
        fs = {"/w/main." + syntax: src}
        for k, v in files.items():
            fs["/w/" + k] = v
        return compile_job(files=fs, entry="/w/main." + syntax, syntax=syntax)
    return compile_job(src, syntax=syntax)


def run_impl(pool, progs, syntax="scss"):
    answers = pool.map([job_for(gp, files, syntax) for gp, files in progs], timeout=10)
    return [obs_impl(a) for a in answers], answers


def run_model(progs, dev):
    return [canon_model(o) for o in driver([f"eval run {FUEL} {dev or '-'} " + G.to_tokens(p) for p in progs])]


MODEL_SKIP = ("unsupported", "ok out-of-fuel", "bad-op")


def size_of(t):
    if isinstance(t, tuple):
        return 1 + sum(size_of(x) for x in t)
    return 1


def shrink(pool, prog, fails, rounds=60):
    """Greedy structural shrinking: repeatedly take the smallest one-step reduction that still
    fails (`fails(list of programs) -> list of bool`)."""
    cur = prog
    for _ in range(rounds):
        cands = sorted(set(G.shrink_candidates(cur)), key=size_of)[:150]
        if not cands:
            break
        flags = fails(cands)
        nxt = next((c for c, f in zip(cands, flags) if f), None)
        if nxt is None:
            break
        cur = nxt
    return cur


def classify(pool, prog, syntax="scss"):
    """-> (impl, asfound, spec, tags): tags = as-found switches that explain a spec difference."""
    impl, _ = run_impl(pool, [(prog, None)], syntax)
    asf = run_model([prog], DEV_ALL)[0]
    spec = run_model([prog], "")[0]
    tags = []
    if asf != spec:
        for f in DEV_ALL:
            if run_model([prog], f)[0] != spec:
                tags.append(DEV_TAGS[f])
    return impl[0], asf, spec, tags


# minimised past failures (eval programs), run first on every run
F = G.Fraction
CORPUS = [
    # D3 (fixed in /repo): stale variable-index cache in a closure
    (("var", "x", ("str", "global", False), False, False),
     ("rule", "a", (("decl", "z", ("var", "x")),
                    ("mixin", "m", ((), None), (("decl", "b", ("var", "x")),)),
                    ("var", "x", ("str", "local", False), False, False),
                    ("incl", "m", ((), (), None), None)))),
    # N1 (repaired, adef70c): named arguments are evaluated in source order
    (("func", "c03n1g", ((("x", None),), None), (("debug", ("var", "x")), ("ret", ("var", "x")))),
            ("func", "c03n1f", ((("c03n1a", None), ("c03n1b", None)), None),
             (("ret", ("bin", "add", ("var", "c03n1a"), ("var", "c03n1b"))),)),
            ("debug", ("call", "c03n1f", (), (("c03n1b", ("call", "c03n1g", (("num", F(1)),), (), None)),
                                               ("c03n1a", ("call", "c03n1g", (("num", F(2)),), (), None))), None))),
    # N3 (known): an empty list as a declaration value
    (("rule", "a", (("decl", "p", ("list", (), "u", False)),)),),
    # N2 (repaired, e36bfd5): separator of a spread list bound to a rest parameter
    (("func", "f", ((), "rest"), (("ret", ("var", "rest")),)),
     ("debug", ("call", "f", (), (), ("list", (("num", F(1)), ("num", F(2))), "s", False)))),
    # N4 (repaired, e10570a): @debug / @warn deliver a string's text; @error keeps inspect
    (("debug", ("str", "foo", True)), ("warn", ("str", "bar", True)), ("error", ("str", "baz", True))),
    # seeded change m2 (stale values in ragged @each destructuring): the missing position is null
    (("each", ("m", "n"), ("list", (("list", (("num", F(5)), ("num", F(7))), "s", False), ("num", F(8))), "c", False),
      (("debug", ("var", "n")),)),),
    # seeded change m3 (@return inside @for only left the iteration)
    (("func", "rl", ((("k", None),), None), (("for", "i", ("num", F(-2)), ("num", F(1)), False, (("ret", ("var", "i")),)),)),
     ("debug", ("call", "rl", (("num", F(-2)),), (), None))),
    # … and in a descending @for nested in @each, @while
    (("func", "rl", ((), None), (
        ("each", ("e",), ("list", (("num", F(1)), ("num", F(2))), "c", False), (
            ("for", "i", ("num", F(3)), ("num", F(0)), True, (
                ("debug", ("list", (("var", "e"), ("var", "i")), "s", False)),
                ("ifs", ((("bin", "eq", ("var", "i"), ("num", F(2))), (("ret", ("bin", "mul", ("var", "e"), ("var", "i"))),)),), None))),
            ("debug", ("str", "after", False)))),
        ("ret", ("num", F(-1))))),
     ("debug", ("call", "rl", (), (), None))),
    # precedence / unary minus spellings that once confused the printer
    (("debug", ("list", (("num", F(5)), ("bin", "add", ("neg", ("num", F(-6))), ("num", F(3)))), "s", False)),),
    (("debug", ("neg", ("call", "length", (("list", (), "u", False),), (), None))),),
    # round 3 -- N5 (fixed by 8433dfd; regression cases): null + "quoted" kept the quote characters in an unquoted string
    (("debug", ("bin", "add", ("null",), ("str", "foo", True))),),
    (("var", "x", ("null",), False, False), ("var", "x", ("bin", "add", ("var", "x"), ("str", "foo", True)), False, True),
     ("rule", "a", (("decl", "p", ("bin", "add", ("var", "x"), ("str", "bar", True))),))),
    # division spellings: literal/literal is parenthesised (a bare `6px / 4px` is a slash pair), -10 from neg(10) too
    (("debug", ("bin", "div", ("num", F(6), "px"), ("num", F(4), "px"))),
     ("debug", ("list", (("bin", "div", ("neg", ("num", F(10))), ("num", F(-2))), ("num", F(1))), "s", False)),
     ("var", "v", ("num", F(3), "em"), False, False),
     ("debug", ("bin", "div", ("var", "v"), ("num", F(2)))),
     ("debug", ("call", "math.div", (("num", F(1)), ("num", F(2), "em")), (), None)),
     ("debug", ("bin", "mul", ("var", "v"), ("var", "v"))),
     ("rule", "a", (("decl", "w", ("bin", "mod", ("num", F(7), "em"), ("var", "v"))),
                    ("decl", "p", ("bin", "div", ("num", F(1)), ("var", "v")))))),
    # incompatible units; comparison with a unitless number
    (("debug", ("bin", "lt", ("num", F(1), "px"), ("num", F(2)))), ("debug", ("bin", "eq", ("num", F(1), "px"), ("num", F(1)))),
     ("debug", ("bin", "add", ("num", F(1), "px"), ("num", F(1), "em")))),
    # interpolation: quotes are lost at every list level, null vanishes, unquoted interpolation, property names
    (("debug", ("interp", True, (("a ", ("list", (("str", "x y", True), ("null",), ("num", F(1), "px")), "c", False)), ("e", None)))),
     ("rule", "a", (("decli", (("p-", ("str", "q", True)), ("-z", None)), ("interp", False, (("k", ("num", F(2))), ("m", None)))),))),
    # if() is lazy; meta built-ins see the current scope chain
    (("var", "a_b", ("num", F(1)), False, False),
     ("debug", ("if", ("call", "variable-exists", (("str", "a-b", False),), (), None), ("num", F(1)), ("var", "nope"))),
     ("rule", "a", (("var", "l", ("num", F(1)), False, False),
                    ("debug", ("list", (("call", "variable-exists", (("str", "l", True),), (), None),
                                        ("call", "global-variable-exists", (("str", "l", False),), (), None),
                                        ("call", "function-exists", (("str", "nofn1", False),), (), None),
                                        ("call", "mixin-exists", (("str", "nomx", False),), (), None)), "s", False))))),
]


# Witnesses of findings the as-found switches do not model; replayed on every run, matched by
# exact input in known-findings.d/C03.json.  (None at present: N1 was repaired and moved to CORPUS.)
WITNESSES = []


def witness_stream(ck, pool):
    for wid, prog in WITNESSES:
        impl, _ = run_impl(pool, [(prog, None)])
        spec = run_model([prog], "")[0]
        text = G.to_scss(prog)
        ck.count("witness " + wid, True)
        if impl[0] != spec:
            payload = {"source": text, "program": repr(prog), "tokens": G.to_tokens(prog), "witness": wid,
                       "impl_observation": pretty(impl[0]), "expected_by_property": pretty(spec)}
            if ck.impl_violation(text, payload, tags=[]):
                log(f"[C03] witness {wid} fails and is not a known finding")
        else:
            ck.notes.append(f"witness {wid}: grass now agrees with the specification (known-finding entry is stale)")


def eval_stream(ck, pool, tier, syntaxes=("scss",)):
    rng = ck.rng
    n = int(os.environ.get("C03_EVAL_N") or (2600 if tier == "quick" else 90000))
    cfg = G.Cfg(depth=4, max_stmts=25) if tier == "quick" else G.Cfg(depth=6, max_stmts=40)
    cases = [(p, ["corpus"]) for p in CORPUS]
    for _ in range(n):
        cases.append(G.gen_program(rng, cfg))
    failing = []
    B = 6000
    for off in range(0, len(cases), B):
        chunk = cases[off:off + B]
        progs = [p for p, _ in chunk]
        if off:
            log(f"[C03] eval stream: {off}/{len(cases)} programs, {len(failing)} differing so far")
        impl, _ = run_impl(pool, [(p, None) for p in progs])
        asf = run_model(progs, DEV_ALL)
        spec = run_model(progs, "")
        # every 7th program also goes through the indented-syntax printer: same observation expected
        sass_idx = [i for i in range(len(progs)) if i % 7 == 0]
        sass_obs, _ = run_impl(pool, [(progs[i], None) for i in sass_idx], "sass")
        for i, o in zip(sass_idx, sass_obs):
            if asf[i] in MODEL_SKIP or spec[i] in MODEL_SKIP or asf[i].startswith("ok err static-error"):
                continue        # what the two parsers reject, and when, belongs to C18
            ck.hist("syntax:sass")
            if o != impl[i]:
                ck.cov["model_disagreements"] += 1
                failing.append({"prog": progs[i], "impl": o, "model": asf[i], "spec": spec[i], "kind": "eval-sass",
                                "scss": G.to_sass(progs[i])})
        # programs on which grass agrees with the as-found model but not with the specification:
        # which as-found switch explains the difference?
        kidx = [i for i in range(len(progs)) if impl[i] == asf[i] and asf[i] != spec[i]
                and asf[i] not in MODEL_SKIP and spec[i] not in MODEL_SKIP]
        ck.hist("known:any-as-found-switch", len(kidx))
        kidx = sorted(kidx, key=lambda i: size_of(progs[i]))[:200]      # the smallest ones are enough to attribute
        ktags = {i: [] for i in kidx}
        for fl in DEV_ALL:
            for i, o in zip(kidx, run_model([progs[i] for i in kidx], fl)):
                if o != spec[i]:
                    ktags[i].append(DEV_TAGS[fl])
        for k_, (p, feats) in enumerate(chunk):
            feats = list(feats)
            chunk[k_] = (p, feats, ktags.get(k_))
        for (p, feats, tags_), io, mo, so in zip(chunk, impl, asf, spec):
            if mo in MODEL_SKIP or so in MODEL_SKIP:
                ck.cov["unsupported_dropped"] += 1
                ck.hist("model:" + mo)
                continue
            nontrivial = any(f in feats for f in ("fn-call", "@include", "nested-assign", "!global", "corpus", "units", "div"))
            ck.count("eval " + G.to_tokens(p), nontrivial)
            for f in feats:
                ck.hist("feature:" + f)
            ck.hist("outcome:" + " ".join(mo.split(" | ")[0].split()[1:3]))
            ck.hist("stmts:%d+" % min(40, count_stmts(p) // 5 * 5))
            if len(ck.cov["samples"]) < 3 and nontrivial and "corpus" not in feats:
                ck.sample({"scss": G.to_scss(p), "observation": pretty(io)})
            if io != mo:
                ck.cov["model_disagreements"] += 1
                failing.append({"prog": p, "impl": io, "model": mo, "spec": so, "kind": "eval"})
            elif io != so:
                for t in tags_ or []:
                    ck.hist("known:" + t)
                failing.append({"prog": p, "impl": io, "model": mo, "spec": so, "kind": "eval-known", "tags": tuple(tags_ or ())})
    return failing


def count_stmts(body):
    n = 0
    for s in body:
        n += 1
        for b in G.inner_bodies(s):
            n += count_stmts(b)
        if s[0] in ("func", "mixin"):
            n += count_stmts(s[3])
        if s[0] == "incl" and s[3] is not None:
            n += count_stmts(s[3][1])
    return n


def scope_stream(ck, pool, tier):
    """Operation-sequence correspondence for the scope core."""
    rng = ck.rng
    n = int(os.environ.get("C03_SCOPE_N") or (500 if tier == "quick" else 12000))
    trees = [(t, ["corpus"]) for t in G.D3_TREES]
    for _ in range(n):
        trees.append(G.gen_scope_tree(rng, depth=3 if tier == "quick" else 4, size=22 if tier == "quick" else 40))
    gprogs, eprogs, opss = [], [], []
    for t, _ in trees:
        gp, files, ep = G.tree_ast(t)
        gprogs.append((gp, files))
        eprogs.append(ep)
        opss.append(G.tree_ops(t))
    impl, answers = run_impl(pool, gprogs)
    model = run_model(eprogs, DEV_ALL)
    lines = []
    obs_all = []
    for ops, ans in zip(opss, answers):
        lines.append("scope run " + " ".join(ops))
        # the lookups grass performed, as outputs of the operation sequence
        vals = [l.get("msg") for l in ans.get("logs", []) if l.get("kind") == "debug"]
        undefined = ans.get("status") == "err" and err_class((ans.get("err") or {}).get("message")) == "undefined-variable"
        obs, k, dead = [], 0, ans.get("status") not in ("ok", "err")
        for o in ops:
            if o[0] != "R" or dead:
                obs.append("-")
                continue
            if k < len(vals):
                obs.append("v" + vals[k])
                k += 1
            else:
                obs.append("u" if undefined else "p")
                dead = True
        obs_all.append(obs)
    outs = driver(lines)
    # P̂ on the implementation's output, evaluated by the Lean driver (`checkObserved`): compare
    # with the specification up to the first undefined lookup (evaluation stops there)
    checks = []
    for ops, ob, runline in zip(opss, obs_all, outs):
        m = re.match(r"ok (\S+) \| (\S+) ", runline)
        spec = m.group(2).split(",") if m and ops else []
        cut = next((j for j, o in enumerate(spec) if o == "u"), None)
        k = len(ops) if cut is None else cut + 1
        checks.append(f"scope check {k} " + " ".join(ops[:k]) + " " + " ".join(ob[:k]))
    verdicts = driver(checks)
    failing = []
    for i, ((t, feats), ops) in enumerate(zip(trees, opss)):
        runline, verdict = outs[i], verdicts[i]
        m = re.match(r"ok (\S+) \| (\S+) \| (\S+) \| (\S+) \| inv=(\d)$", runline)
        if not m:
            ck.cov["unsupported_dropped"] += 1
            continue
        now, spec, asf_c, asf_r, inv = m.groups()
        nontrivial = any(o[0] == "K" for o in ops) or any(o[0] in "AS" for o in ops)
        ck.count("scope " + " ".join(ops), nontrivial)
        ck.hist("scope-ops:%d+" % min(60, len(ops) // 10 * 10))
        for f in feats:
            ck.hist("scope-feature:" + f)
        if asf_c != spec:
            ck.hist("scope:would-expose-D3-closure-variant")
        if asf_r != spec:
            ck.hist("scope:would-expose-D3-restore-variant")
        if inv != "1" or now != spec:
            ck.notes.append(f"MODEL: invariant or refinement fails on {' '.join(ops)} (contradicts the theorem)")
            ck.cov["model_disagreements"] += 1
        if len(ck.cov["samples"]) < 5 and "d3-gadget" in feats and asf_c != spec:
            ck.sample({"ops": " ".join(ops), "scss": G.to_scss(gprogs[i][0]), "files": gprogs[i][1]})
        # tie: grass's lookups == the cached model's outputs (up to the first undefined lookup)
        mo = now.split(",") if ops else []
        cut = next((j for j, o in enumerate(mo) if o == "u"), None)
        exp = [o if o[0] in "vu" else "-" for o in mo]
        if cut is not None:
            exp = exp[:cut + 1] + ["-"] * (len(exp) - cut - 1)
        ob = obs_all[i]
        entry = {"tree": t, "ops": " ".join(ops), "scss": G.to_scss(gprogs[i][0]), "files": gprogs[i][1]}
        if ob != exp:
            ck.cov["model_disagreements"] += 1
        if verdict != "ok holds":
            failing.append(dict(entry, impl=" ".join(ob), model=" ".join(exp), verdict=verdict, kind="scope"))
        elif ob != exp:
            failing.append(dict(entry, impl=" ".join(ob), model=" ".join(exp), verdict="tie only", kind="scope-tie"))
        elif impl[i] != model[i] and model[i] not in MODEL_SKIP:
            # the same program through the reference evaluator (imports spliced in place)
            ck.cov["model_disagreements"] += 1
            failing.append(dict(entry, impl=impl[i], model=model[i], kind="scope-eval"))
    return failing


def shrink_scope(pool, f):
    """Shrink a failing scope tree (delete nodes) while grass and the specification still differ."""
    def fails(trees):
        out = []
        for t in trees:
            try:
                ops = G.tree_ops(t)
            except KeyError:
                out.append(False)
                continue
            gp, files, _ = G.tree_ast(t)
            _, answers = run_impl(pool, [(gp, files)])
            vals = [l.get("msg") for l in answers[0].get("logs", []) if l.get("kind") == "debug"]
            line = driver(["scope run " + " ".join(ops)])[0]
            m = re.match(r"ok (\S+) \| (\S+) ", line)
            spec = [o[1:] for o in (m.group(2).split(",") if m else []) if o.startswith("v")]
            out.append(bool(m) and "u" not in m.group(2).split(",") and vals != spec)
        return out
    cur = f["tree"]
    for _ in range(40):
        cands = sorted(set(tree_variants(cur)), key=size_of)[:60]
        flags = fails(cands)
        nxt = next((c for c, fl in zip(cands, flags) if fl), None)
        if nxt is None:
            break
        cur = nxt
    return cur


def tree_variants(body):
    for i, nd in enumerate(body):
        yield body[:i] + body[i + 1:]
    for i, nd in enumerate(body):
        if nd[0] == "block":
            yield body[:i] + nd[2] + body[i + 1:]
            for b in tree_variants(nd[2]):
                yield body[:i] + ((nd[0], nd[1], b),) + body[i + 1:]
        elif nd[0] == "each":
            for b in tree_variants(nd[3]):
                yield body[:i] + (nd[:3] + (b,),) + body[i + 1:]
        elif nd[0] in ("mixin", "import"):
            for b in tree_variants(nd[2]):
                yield body[:i] + ((nd[0], nd[1], b),) + body[i + 1:]
        elif nd[0] == "include" and nd[2] is not None:
            for b in tree_variants(nd[2]):
                yield body[:i] + ((nd[0], nd[1], b),) + body[i + 1:]


def report(ck, pool, failing):
    """Shrink and report the failing cases: smallest first; one report per distinct explanation."""
    seen_tags = set()
    reported = 0
    failing = sorted(failing, key=lambda f: len(f.get("scss") or G.to_scss(f["prog"])))
    budget = 6
    for f in failing:
        if budget == 0:
            break
        if f["kind"] in ("eval", "eval-known"):
            known_only = f["kind"] == "eval-known"
            if known_only:
                # explained by the as-found switches: one report per switch (smallest program first)
                key = f.get("tags", ())
                if key in seen_tags or len(key) != 1:
                    continue
                seen_tags.add(key)
            else:
                budget -= 1

            heads = (f["impl"].split(" | ")[0], f["model"].split(" | ")[0])

            def fails(cands, known_only=known_only, heads=heads):
                impl, _ = run_impl(pool, [(c, None) for c in cands])
                spec = run_model(cands, "")
                asf = run_model(cands, DEV_ALL)
                if known_only:
                    return [s not in MODEL_SKIP and a not in MODEL_SKIP and i == a and i != s for i, a, s in zip(impl, asf, spec)]
                # the same kind of disagreement (same outcome heads), so that shrinking does not
                # drift to a different one
                return [s not in MODEL_SKIP and a not in MODEL_SKIP and i != a
                        and (i.split(" | ")[0], a.split(" | ")[0]) == heads for i, a, s in zip(impl, asf, spec)]
            small = shrink(pool, f["prog"], fails, rounds=25 if known_only else 60)
            impl, asf, spec, tags = classify(pool, small)
            text = G.to_scss(small)
            payload = {"source": text, "program": repr(small), "tokens": G.to_tokens(small),
                       "impl_observation": pretty(impl), "expected_by_property": pretty(spec),
                       "model_as_found": pretty(asf), "tags": tags, "shrunk_from": G.to_scss(f["prog"])}
            if impl == spec:
                continue
            if ck.impl_violation(text, payload, tags=tags if impl == asf else []):
                reported += 1
                log("[C03] VIOLATION candidate:\n" + text + "\nimpl: " + json.dumps(pretty(impl)) + "\nspec: " + json.dumps(pretty(spec)))
        elif f["kind"] == "eval-sass":
            budget -= 1
            payload = {"source_sass": f["scss"], "source_scss": G.to_scss(f["prog"]), "kind": "indented syntax differs from SCSS",
                       "impl_observation": pretty(f["impl"]), "expected_by_property": pretty(f["spec"])}
            if ck.impl_violation(f["scss"], payload, tags=[]):
                reported += 1
        else:
            budget -= 1
            small = shrink_scope(pool, f) if f["kind"] in ("scope", "scope-tie") else f["tree"]
            gp, files, _ = G.tree_ast(small)
            text = G.to_scss(gp)
            payload = {"source": text, "files": files, "ops": " ".join(G.tree_ops(small)), "kind": f["kind"],
                       "impl_observation": f["impl"], "model_observation": f["model"], "verdict": f.get("verdict"),
                       "expected_by_property": "lookups answered as by the cache-free scope specification",
                       "shrunk_from": f["scss"]}
            if ck.impl_violation(text, payload, tags=[]):
                reported += 1
                log("[C03] VIOLATION candidate (scope):\n" + text + json.dumps(files) + "\n" + json.dumps(payload)[:800])
    return reported


def run(tier, seed):
    ck = Check("C03", tier, seed)
    ck.cov["rule"] = ("(1) scope stream: programs generated from random scope-operation trees (blocks, @each bindings, "
                      "plain/semi-global/!global assignments, reads, @mixin closures, @include with and without content "
                      "blocks, @content, @import of a file with @use, D3 gadgets); distinct by operation sequence, "
                      "non-trivial when it contains a closure call or a nested-scope assignment. (2) eval stream: random "
                      "type- and scope-directed programs; distinct by token form, non-trivial when they call a user "
                      "function, include a mixin, assign from a nested scope or use !global.")
    ck.assumptions = ["numbers restricted to dyadic rationals exactly representable as doubles with <= 10 decimals",
                      "units restricted to the pairwise inconvertible names px em rem % s deg vw fr (no unit conversion)",
                      "declarations compared per selector (rule ordering belongs to C04)",
                      "errors compared by class (plus the @error message) together with the log trace up to the error",
                      ]
    ck.do_prove(cores=("scope", "eval"))
    if not ck.do_build_runner():
        ck.unproved("correspondence-broken", {"why": "runner does not build against /repo", "error": getattr(ck, "build_error", "")})
        return ck.finish()
    pool = RunnerPool()
    t0 = time.time()
    failing = scope_stream(ck, pool, tier)
    log(f"[C03] scope stream: {time.time() - t0:.1f}s, failing={len(failing)}")
    witness_stream(ck, pool)
    t0 = time.time()
    failing += eval_stream(ck, pool, tier)
    log(f"[C03] eval stream: {time.time() - t0:.1f}s, failing={len(failing)}")
    t0 = time.time()
    reported = report(ck, pool, failing)
    log(f"[C03] shrink/report: {time.time() - t0:.1f}s reported={reported}")
    if ck.cov["model_disagreements"] and not reported:
        ck.unproved("correspondence-broken", {"cases": [
            {k: (G.to_scss(v) if k == "prog" else v) for k, v in f.items() if k != "tree"}
            for f in failing if f["kind"] != "eval-known"][:3]})
    return ck.finish()


def replay(path):
    r = json.load(open(path))
    ck = Check("C03", "quick", 0)
    ck.do_build_runner()
    pool = RunnerPool(1)
    print("source:\n" + (r.get("source") or ""))
    if r.get("tokens"):
        prog = eval(r["program"], {"Fraction": G.Fraction})
        impl, answers = run_impl(pool, [(prog, None)])
        spec = run_model([prog], "")[0]
        asf = run_model([prog], DEV_ALL)[0]
        print("grass        :", json.dumps(pretty(impl[0])))
        print("specification:", json.dumps(pretty(spec)))
        print("as-found     :", json.dumps(pretty(asf)))
        print("TIE", "ok" if impl[0] == asf else "BROKEN", " DIRECT", "holds" if impl[0] == spec else "FAILS")
        return 0 if impl[0] == spec else 1
    if r.get("ops"):
        files = r.get("files") or {}
        fs = {"/w/main.scss": r["source"]}
        for k, v in files.items():
            fs["/w/" + k] = v
        ans = pool.map([compile_job(files=fs, entry="/w/main.scss", syntax="scss")])[0]
        print("grass:", ans.get("status"), [l.get("msg") for l in ans.get("logs", [])], (ans.get("err") or {}).get("message"))
        print("model:", driver(["scope run " + r["ops"]])[0])
        return 0
    print(json.dumps(r, indent=1))
    return 0
