"""Shared generator helpers for C01 (totality) and C18 (syntax / source-variation agreement).

Everything random takes an explicit `rng` (derived from VERIF_SEED by vlib.Check).  Nothing in
here decides a property.
"""
import re

# --------------------------------------------------------------------------------------------
# a conservative Sass tokeniser (used for token-level mutation and for the C18 rewriters)
# --------------------------------------------------------------------------------------------

_TOK = re.compile(
    r"""
      (?P<ws>[ \t\r\n\f]+)
    | (?P<lcomment>/\*.*?\*/)
    | (?P<scomment>//[^\n]*)
    | (?P<dstring>"(?:[^"\\\n]|\\.)*")
    | (?P<sstring>'(?:[^'\\\n]|\\.)*')
    | (?P<interp>\#\{)
    | (?P<number>[0-9]*\.?[0-9]+(?:[eE][+-]?[0-9]+)?(?:%|[a-zA-Z]+)?)
    | (?P<variable>\$[A-Za-z_\-][A-Za-z0-9_\-]*)
    | (?P<at>@[A-Za-z\-]+)
    | (?P<ident>-{0,2}[A-Za-z_\u0080-\uffff][A-Za-z0-9_\-\u0080-\uffff]*)
    | (?P<op>==|!=|<=|>=|\.\.\.|::)
    | (?P<punct>.)
    """,
    re.X | re.S,
)


def tokenize(src):
    """[(kind, text)] covering `src` exactly (concatenation of texts == src)."""
    out = []
    for m in _TOK.finditer(src):
        out.append((m.lastgroup, m.group(0)))
    return out


ALPHABET = [
    "a", "b", "c", "foo", "-x", "--y", "_z", "\u00e9", "\u4e2d", "\U0001f600", "&", "&-s", "%p", ".c", "#i", "*", ">", "+", "~",
    ":", "::", ";", ",", "{", "}", "(", ")", "[", "]", "#{", "}", "$v", "$w_x", "$", "@", "@if", "@else", "@else if", "@for",
    "@each", "@while", "@mixin", "@include", "@function", "@return", "@media", "@supports", "@at-root", "@extend",
    "@import", "@use", "@forward", "@charset", "@debug", "@warn", "@error", "@content", "@font-face", "@keyframes",
    "@foo", "@-moz-document", "from", "through", "to", "in", "and", "or", "not", "only", "screen", "as", "with", "show",
    "hide", "if", "null", "true", "false", "!important", "!default", "!global", "!", "=", "==", "!=", "<", ">", "<=", ">=",
    "+", "-", "*", "/", "%", "...", ".", "0", "1", "2", "10", "1.5", ".5", "1e3", "1e", "1.", "1px", "2em", "50%", "1x-1",
    "#fff", "#12345", "red", "rgba(", "calc(", "clamp(", "min(", "max(", "var(", "url(", "url(a b)", "url(#{", "U+0-7F",
    "u+1?", "\"s\"", "'t'", "\"", "'", "\"#{", "\\", "\\a", "\\61 ", "\\\n", "\\110000 ", "\\0", "/*", "*/", "/* c */", "//",
    "// c\n", " ", "  ", "\t", "\n", "\r\n", "\r", "\f", "\n  ", "\n    ", "\n\t", "\0", "\ufeff", "\u200b", "\u2028", "\x7f",
    "\x1b", "~=", "|=", "^=", "$=", "*=", "|", "||", "i]", ":not(", ":is(", ":nth-child(", "2n+1", "of", ":host(", "::slotted(",
    "selector(", "progid:", "expression(", "element(", "-webkit-calc(", "math.div(", "map.get(", "a.b", "a.$b", "a.b(",
    "(a: b)", "(1 2)", "[1,2]", "1/2", "1 + 2", "$a: 1", "a: b", "@media (min-width: 1px)", "@include m", "@mixin m",
    "using ($x)", "@function f($a...)", "@return 1", "@use \"sass:math\"", "@use \"m\" as *", "@forward \"m\" show a",
    "@import \"a\", \"b\"", "@extend .c !optional", "@at-root (with: media)", "@supports not (a: b)", "%", "!optional",
]


def token_soup(rng, max_bytes=200):
    n = rng.randint(1, 24)
    out = []
    size = 0
    for _ in range(n):
        t = rng.choice(ALPHABET)
        sep = rng.choice(["", "", " ", " ", "\n"])
        size += len((t + sep).encode("utf-8"))
        if size > max_bytes:
            break
        out.append(t + sep)
    return "".join(out)


UNUSUAL = ["\0", "\x01", "\x7f", "\x80", "\u00a0", "\u0300", "\u200b", "\u200d", "\u2028", "\u2029", "\ufeff", "\ufffd",
           "\ufffe", "\uffff", "\U00010000", "\U0010ffff", "\u0130", "\u00df", "\u1e9e", "\u212a", "\ud7ff", "\ue000",
           "\r", "\f", "\x0b", "\x85", "\\", "\\\n", "\\0 ", "\\d800 ", "\\ffffff", "#{", "}", "{", "(", "[", "\"", "'",
           "/*", "*/", "//", "@", "$", "&", "%", "!", ";", ":", ",", ".", "-", "--", "_", "+", "*", "/", "=", "<", ">", "~",
           "|", "^", "?", "`", "0", "9", "e", "E", "u", "U", "url(", " ", "\t", "\n"]

BRACKETS = ["{", "}", "(", ")", "[", "]", "#{", "\"", "'", "/*", "*/"]


def mutate(rng, src, rounds=None):
    """Near-miss mutation: token deletion/duplication/swap, bracket imbalance, truncation, insertion
    of unusual characters.  Returns a string (always valid Unicode)."""
    toks = [t for _, t in tokenize(src)]
    rounds = rounds or rng.choice([1, 1, 1, 2, 2, 3, 5])
    for _ in range(rounds):
        op = rng.randrange(10)
        if not toks:
            toks = [rng.choice(ALPHABET)]
            continue
        i = rng.randrange(len(toks))
        if op == 0:
            del toks[i]
        elif op == 1:
            toks.insert(i, toks[i])
        elif op == 2:
            j = rng.randrange(len(toks))
            toks[i], toks[j] = toks[j], toks[i]
        elif op == 3:
            toks.insert(i, rng.choice(BRACKETS))
        elif op == 4:
            br = [k for k, t in enumerate(toks) if t in "{}()[]" and t]
            if br:
                del toks[rng.choice(br)]
        elif op == 5:
            toks.insert(i, rng.choice(UNUSUAL))
        elif op == 6:
            toks = toks[:i]
        elif op == 7:
            toks[i] = rng.choice(ALPHABET)
        elif op == 8:
            t = toks[i]
            if t:
                k = rng.randrange(len(t))
                toks[i] = t[:k] + rng.choice(UNUSUAL) + t[k + 1:]
        else:
            j = rng.randrange(len(toks))
            lo, hi = min(i, j), max(i, j)
            toks[lo:hi] = toks[lo:hi] * 2 if hi - lo < 8 else []
    return "".join(toks)


def prefixes(src, step=1):
    """Every proper prefix of `src` (by code point), shortest first."""
    return [src[:k] for k in range(0, len(src), step)]


def to_sass_guess(src):
    """Crude SCSS -> indented transliteration used only to feed the indented parser with
    mostly-plausible text in the C01 search (no expected relation is attached to it)."""
    out, depth, line = [], 0, []
    for kind, t in tokenize(src):
        if t == "{":
            out.append("  " * depth + "".join(line).strip())
            line = []
            depth += 1
        elif t == "}":
            if "".join(line).strip():
                out.append("  " * depth + "".join(line).strip())
            line = []
            depth = max(0, depth - 1)
        elif t == ";":
            if "".join(line).strip():
                out.append("  " * depth + "".join(line).strip())
            line = []
        elif kind == "ws":
            line.append(" ")
        else:
            line.append(t)
    if "".join(line).strip():
        out.append("  " * depth + "".join(line).strip())
    return "\n".join(out) + "\n"


def deep(kind, n):
    """Deeply nested constructs; `n` levels."""
    if kind == "parens":
        return "a{b:" + "(" * n + "1" + ")" * n + "}"
    if kind == "parens-open":
        return "a{b:" + "(" * n
    if kind == "brackets":
        return "a{b:" + "[" * n + "1" + "]" * n + "}"
    if kind == "blocks":
        return "a{" * n + "b:c" + "}" * n
    if kind == "blocks-open":
        return "a{" * n
    if kind == "selectors":
        return ":not(" * n + "a" + ")" * n + "{b:c}"
    if kind == "interp":
        return "a{b:" + "#{" * n + "1" + "}" * n + "}"
    if kind == "calc":
        return "a{b:calc(" + "(" * n + "1px" + ")" * n + ")}"
    if kind == "media":
        return "@media screen{" * n + "a{b:c}" + "}" * n
    if kind == "unary":
        return "a{b:" + "-" * n + "$x}"
    if kind == "not":
        return "a{b:" + "not " * n + "1}"
    if kind == "fn":
        return "a{b:" + "f(" * n + "1" + ")" * n + "}"
    if kind == "map":
        return "$m:" + "(a:" * n + "1" + ")" * n + ";a{b:inspect($m)}"
    if kind == "if":
        return "@if true{" * n + "a{b:c}" + "}" * n
    if kind == "sass-indent":
        return "".join("  " * i + "a\n" for i in range(n)) + "  " * n + "b: c\n"
    if kind == "supports":
        return "@supports " + "(" * n + "a:b" + ")" * n + "{a{b:c}}"
    if kind == "string-interp":
        return "a{b:" + "\"#{" * n + "1" + "}\"" * n + "}"
    if kind == "binop":
        return "a{b:" + "1+" * n + "1}"
    if kind == "list":
        return "a{b:" + "1,(" * n + "1" + ")" * n + "}"
    raise ValueError(kind)


DEEP_KINDS = ["parens", "parens-open", "brackets", "blocks", "blocks-open", "selectors", "interp", "calc", "media",
              "unary", "not", "fn", "map", "if", "sass-indent", "supports", "string-interp", "binop", "list"]


def non_utf8(rng, src):
    """Bytes that are not valid UTF-8, derived from `src`."""
    b = bytearray(src.encode("utf-8"))
    bad = [b"\xff", b"\xc0\x80", b"\xed\xa0\x80", b"\xf4\x90\x80\x80", b"\x80", b"\xe2\x82", b"\xc3", b"\xfe\xff",
           b"\xf8\x88\x80\x80\x80"]
    for _ in range(rng.choice([1, 1, 2, 3])):
        k = rng.randrange(len(b) + 1)
        b[k:k] = rng.choice(bad)
    return bytes(b)


def wrap_import(rng, src, syntax):
    """(files, entry): `src` reached through @import/@use/@forward over the in-memory Fs."""
    ext = {"scss": "scss", "sass": "sass", "css": "css"}[syntax]
    how = rng.choice(["import", "use", "forward", "import-nested", "use-with", "chain"])
    files = {f"dep.{ext}": src}
    if how == "import":
        files["main.scss"] = '@import "dep";\nz{y:x}\n'
    elif how == "use":
        files["main.scss"] = '@use "dep";\nz{y:x}\n'
    elif how == "forward":
        files["main.scss"] = '@forward "dep";\nz{y:x}\n'
    elif how == "import-nested":
        files["main.scss"] = 'w{@import "dep";}\nz{y:x}\n'
    elif how == "use-with":
        files["main.scss"] = '@use "dep" as d with ($q: 1);\nz{y:x}\n'
    else:
        files["mid.scss"] = '@forward "dep";\n'
        files["main.scss"] = '@use "mid" as *;\n@import "mid";\nz{y:x}\n'
    return files, "main.scss"


# --------------------------------------------------------------------------------------------
# running many compile jobs fast, and shrinking
# --------------------------------------------------------------------------------------------

def run_many(pool, jobs, timeout=2.0, batch=40, no_confirm=None):
    """Answers for `jobs`, in order.  Jobs travel in `seq` batches (one runner thread runs the jobs of
    a batch one after another; a panic is caught per job by the runner).  A batch that does not come
    back complete (hang, abort of the worker) is re-run job by job, so that the hang/abort is
    attributed to exactly one job and confirmed by RunnerPool with its 10x budget."""
    jobs = list(jobs)
    res = [None] * len(jobs)
    spans = [(i, min(len(jobs), i + batch)) for i in range(0, len(jobs), batch)]
    answers = pool.map([{"mode": "seq", "jobs": jobs[a:b]} for a, b in spans],
                       timeout=max(10.0, timeout * 5), confirm=False)
    redo = []
    for (a, b), ans in zip(spans, answers):
        rs = ans.get("results") if ans.get("status") == "ok" else None
        if rs is None or len(rs) != b - a:
            redo += list(range(a, b))
        else:
            res[a:b] = rs
    if redo:
        single = pool.map([jobs[i] for i in redo], timeout=timeout, confirm=False)
        for i, r in zip(redo, single):
            res[i] = r
        # a hang/abort is confirmed alone with the 10x budget \u2014 except for programs `no_confirm` accepts
        # (programs with loops of their own: the caller decides about those by other means)
        need = [i for i in redo if res[i].get("status") in ("timeout", "abort") and not (no_confirm and no_confirm(jobs[i]))]
        if need:
            again = pool.map([jobs[i] for i in need], timeout=timeout * 10, confirm=False)
            for i, r in zip(need, again):
                r["first_attempt"] = res[i].get("status")
                res[i] = r
    return res


def ddmin(text, still_fails, max_calls=400):
    """Delta debugging on the characters of `text`: a (locally) minimal string for which
    `still_fails` holds.  `still_fails(text)` must hold on entry."""
    calls = [0]

    def test(t):
        calls[0] += 1
        return still_fails(t)

    n = 2
    cur = text
    while len(cur) >= 2 and calls[0] < max_calls:
        chunk = max(1, len(cur) // n)
        parts = [cur[i:i + chunk] for i in range(0, len(cur), chunk)]
        reduced = False
        for k in range(len(parts)):
            cand = "".join(parts[:k] + parts[k + 1:])
            if cand != cur and test(cand):
                cur = cand
                n = max(n - 1, 2)
                reduced = True
                break
            if calls[0] >= max_calls:
                break
        if not reduced:
            if chunk == 1:
                break
            n = min(len(cur), n * 2)
    if len(cur) == 1 and calls[0] < max_calls and test(""):
        cur = ""
    return cur


# --------------------------------------------------------------------------------------------
# built-in calls with hostile arguments (evaluator-level totality)
# --------------------------------------------------------------------------------------------

GLOBAL_FUNCS = """abs adjust-color adjust-hue alpha append blue call ceil change-color comparable complement content-exists darken
desaturate feature-exists fade-in fade-out floor function-exists get-function global-variable-exists grayscale green hsl hsla hue hwb
ie-hex-str if index inspect invert is-bracketed is-superselector join keywords length lighten lightness list-separator map-get
map-has-key map-keys map-merge map-remove map-values max min mix mixin-exists nth opacify opacity percentage quote random red rgb rgba
round saturate saturation scale-color selector-append selector-extend selector-nest selector-parse selector-replace selector-unify
set-nth simple-selectors str-index str-insert str-length str-slice to-lower-case to-upper-case transparentize type-of unique-id unit
unitless unquote variable-exists zip calc clamp min max""".split()

MODULE_FUNCS = {
    "math": "abs acos asin atan atan2 ceil clamp compatible cos div floor hypot is-unitless log max min percentage pow random round sin sqrt tan unit".split(),
    "string": "index insert length quote slice split to-lower-case to-upper-case unique-id unquote".split(),
    "list": "append index is-bracketed join length nth separator set-nth slash zip".split(),
    "map": "deep-merge deep-remove get has-key keys merge remove set values".split(),
    "color": "adjust alpha blackness blue change complement grayscale green hue hwb ie-hex-str invert lightness mix red saturation scale whiteness".split(),
    "selector": "append extend is-superselector nest parse replace simple-selectors unify".split(),
    "meta": "call calc-args calc-name content-exists feature-exists function-exists get-function global-variable-exists inspect keywords mixin-exists type-of variable-exists".split(),
}

HOSTILE_ARGS = ["0", "-1", "1", "2", "0.5", "-0.5", "1e10", "1e100", "1e308", "1e400", "-1e400", "1e-400", "9223372036854775807",
                "9223372036854775808", "18446744073709551616", "4294967296", "2147483648", "-2147483649", "1/0", "-1/0", "0/0",
                "math.div(1,0)", "math.div(0,0)", "(0/0)", "1px", "1em", "1%", "1px*1px", "math.div(1px,1em)", "1x", "1deg", "1turn", "1s",
                "1dpi", "\"\"", "\"a\"", "\"abc\"", "\"\\0\"", "\"\u00e9\u00e9\"", "\"\U0001f600\"", "a", "null", "true", "false", "()", "(1,)",
                "(1 2 3)", "[1 2]", "(a: 1)", "(a: (b: 2))", "(1: 2)", "red", "#fff", "#12345678", "transparent", "rgba(1,2,3,.5)",
                "hsl(1e10, 1%, 1%)", "\">\"", "\"a >\"", "\"> a\"", "\"&\"", "\":is(>)\"", "\"a, b\"", "\"%p\"", "\"\"", "\"a[\"",
                "\"::x\"", "\":not()\"", "\"a:nth-child(2n+1 of b)\"", "$a...", "$k: 1", "$undefined", "get-function(\"abs\")",
                "calc(1px + 1%)", "calc(1 + a)", "min(1px, 1em)", "1 2", "1, 2", "var(--x)", "-", "+", "/", "1 +", "#{1}", "\"#{1/0}\"",
                "nth((), 1)", "str-slice(\"a\", 1e100)", "$weight: 1e9%", "$lightness: -1e9%", "$alpha: 1e9", "$hue: 1e30deg"]


def builtin_call(rng):
    if rng.random() < 0.45:
        mod = rng.choice(list(MODULE_FUNCS))
        head = f"@use \"sass:{mod}\";"
        fn = f"{mod}.{rng.choice(MODULE_FUNCS[mod])}"
    else:
        head = "@use \"sass:math\";"
        fn = rng.choice(GLOBAL_FUNCS)
    args = ", ".join(rng.choice(HOSTILE_ARGS) for _ in range(rng.choice([0, 1, 1, 2, 2, 3, 4])))
    ctx = rng.choice(["a{b:%s}", "$a:%s;a{b:inspect($a)}", "a{b:1+%s}", "@debug %s;", "a{b:\"#{%s}\"}", "@media (x: %s){a{b:c}}",
                      "a{b:%s*2px}", "@if %s{a{b:c}}", "@each $i in %s{a{b:$i}}", "@for $i from 1 through %s{}", "a{b:nth(%s, 1)}",
                      "a{#{%s}:c}", "#{%s}{b:c}", "a{b:c !important %s}"])
    return head + ctx % f"{fn}({args})"


# --------------------------------------------------------------------------------------------
# hex escapes at the edges of the scalar-value ranges; loud comments at awkward columns
# --------------------------------------------------------------------------------------------

EDGE_CODEPOINTS = ["0", "1", "9", "a", "1f", "20", "7f", "80", "ff", "d7ff", "d800", "dbff", "dc00", "dffe", "dfff", "e000", "fffd", "fffe",
                   "ffff", "10000", "10fffe", "10ffff", "110000", "ffffff"]


def edge_escapes():
    """`\\<hex>` spelled with 1-6 digits (zero padded, upper/lower case), with and without the trailing space"""
    out = []
    for h in EDGE_CODEPOINTS:
        forms = {h, h.upper(), h.rjust(6, "0"), h.rjust(min(6, len(h) + 1), "0")}
        for f in sorted(forms):
            if len(f) <= 6:
                out += ["\\" + f, "\\" + f + " "]
    return out


def escape_jobs():
    """(source, syntax): every edge escape in the positions that consume an escaped character or an escape:
    quoted strings (value, @charset, @import/@use url), identifiers, variable names, keywords (`t\\6f`), url( )."""
    out = []
    for e in edge_escapes():
        x = e if e.endswith(" ") else e + " "          # keep what follows from being read as more hex digits
        for syn in ("scss", "css", "sass"):
            nl = "\n" if syn == "sass" else ";"
            body = (lambda d: "a\n  " + d + "\n") if syn == "sass" else (lambda d: "a{" + d + "}")
            out += [(body(f'b: "{e}"'), syn), (body(f"b: '{x}q'"), syn), (body(f"b: c{x}d"), syn), (body(f"b: {x}d"), syn),
                    (body(f"b{x}: c"), syn), (body(f"b: url({x})"), syn), (f'@charset "{e}"{nl}', syn), (f"@q{x} r{nl}", syn),
                    (f'@import "{e}.css"{nl}', syn), (body(f"b: {x}(1)"), syn), (f".c{x}" + ("\n  b: c\n" if syn == "sass" else "{b:c}"), syn),
                    (f'[d="{e}"]' + ("\n  b: c\n" if syn == "sass" else "{b:c}"), syn)]
            if syn != "css":
                out += [(f"${x}: 1{nl}", syn), (f'@use "{e}"{nl}', syn), (f"@for $i from 1 t{e}o 2" + ("\n  a\n    b: $i\n" if syn == "sass" else "{a{b:$i}}"), syn),
                        (f'@debug "{e}"{nl}', syn), (body(f'b: "#{{1}}{e}"'), syn), (body(f"b: unquote('{x}')"), syn)]
    seen, uniq = set(), []
    for j in out:
        if j not in seen:
            seen.add(j)
            uniq.append(j)
    return uniq


LEADS = ["", " ", "  ", "   ", "    ", "\t", "\u3000", "\u00a0", "\u2003", "\u3000\u3000", " \u3000", "\u00a0 ", "\u00e9", "\u3000x", "\u2028",
         "\u1680", "\u00a0\u00a0\u00a0", "\u205f", "\ufeff", "\u0085"]


def comment_layout_job(rng):
    """(source, options): a multi-line loud comment at a varying column (top level, nested one or two levels,
    after other text on the line) whose continuation lines start with ASCII or multi-byte white space / characters."""
    syn = rng.choice(["scss", "scss", "css", "sass"])
    bang = rng.choice(["", "", "!"])
    lines = ["L0"] + [rng.choice(LEADS) * rng.choice([1, 1, 2, 3]) + f"L{i}" for i in range(1, rng.randint(2, 4))]
    nl = rng.choice(["\n", "\n", "\r\n", "\r", "\f"])
    comment = "/*" + bang + " " + nl.join(lines) + " */"
    col = rng.choice(["", " ", "  ", "   ", "    ", "\t", "     ", "       "])
    if syn == "sass":
        # continuation lines of an indented-syntax comment must be indented deeper than the comment
        depth = rng.choice([0, 1, 2])
        ind = "  " * depth
        body = [ind + "/*" + bang + " L0"] + [ind + "  " + rng.choice(LEADS) + f"L{i}" for i in range(1, rng.randint(2, 4))]
        head = "".join("  " * d + "a\n" for d in range(depth))
        src = head + "\n".join(body) + "\n" + ind + "b: c\n" if depth else "\n".join(body) + "\na\n  b: c\n"
    else:
        shape = rng.randrange(5)
        if shape == 0:
            src = col + comment + nl + "a{b:c}"
        elif shape == 1:
            src = "a{" + nl + col + comment + nl + "b:c}"
        elif shape == 2:
            src = "a{b:c;" + col + comment + "}"
        elif shape == 3:
            src = "@media screen{a{" + nl + col + comment + nl + "b:c}}"
        else:
            src = "a{d{" + col + comment + " b:c}}" if syn == "scss" else "@supports (x:y){a{" + col + comment + " b:c}}"
    opts = {"syntax": syn, "style": rng.choice([None, "compressed"]), "quiet": True}
    return src, opts


# --------------------------------------------------------------------------------------------
# a fixed family of byte strings that are not UTF-8 (deterministic: runs in every tier)
# --------------------------------------------------------------------------------------------

NON_UTF8_FAMILY = [
    ("lone-continuation", "80"), ("lone-continuation-mid", "61 80 62"), ("two-continuations-end", "61 80 80"),
    ("invalid-lead-C0", "C0 80"), ("invalid-lead-C0-end", "61 C0"), ("invalid-lead-C1", "61 C1 BF 62"), ("invalid-lead-F5", "61 F5 80 80 80 62"),
    ("invalid-lead-F5-end", "61 F5"), ("invalid-lead-FF", "FF"), ("invalid-lead-FF-mid", "61 7B 62 3A FF 7D"), ("invalid-lead-FE-FF", "FE FF 61"),
    ("invalid-byte-mid", "61 7B 62 3A 63 FF 64 7D"), ("surrogate-ED-A0-80", "61 ED A0 80 62"), ("overlong-E0-80-80", "E0 80 80"),
    ("beyond-F4-90", "61 F4 90 80 80"), ("bad-second-byte", "61 E2 28 A1"), ("bad-third-byte", "61 E2 82 28"),
    ("truncated-2-at-end", "61 C3"), ("truncated-2-only", "C3"), ("truncated-3-at-end-1", "61 E2"), ("truncated-3-at-end-2", "61 E2 82"),
    ("truncated-3-only", "E2 82"), ("truncated-4-at-end-1", "61 F0"), ("truncated-4-at-end-2", "F0 9F"), ("truncated-4-at-end-3", "61 7B 7D F0 9F 98"),
    ("truncated-after-rule", "61 7B 62 3A 63 7D 0A E2 82"), ("truncated-after-newline", "0A C3"), ("truncated-in-comment-at-end", "2F 2A 20 F0 9F"),
    ("truncated-in-string-at-end", "61 7B 62 3A 22 E2 82"),
    ("truncated-2-then-ascii", "61 C3 62"), ("truncated-3-then-ascii", "61 E2 82 62 7B 7D"), ("truncated-4-then-ascii", "F0 9F 98 61 7B 62 3A 63 7D"),
    ("truncated-then-newline", "61 E2 82 0A"), ("bom-then-truncated", "EF BB BF 61 E2"), ("truncated-bom", "EF BB"),
    ("valid-then-invalid-then-valid", "C3 A9 FF C3 A9"), ("nul-then-truncated", "00 C3"),
]


def non_utf8_jobs():
    """[(label, files, entry)]: every member of the family as the entry file and as a file reached through
    @import, @use, @forward and meta.load-css, for the three syntaxes (chosen by the file extension)."""
    out = []
    for label, hx in NON_UTF8_FAMILY:
        h = hx.replace(" ", "").lower()
        for ext in ("scss", "sass", "css"):
            out.append((f"{label}:entry.{ext}", {"in." + ext: {"hex": h}}, "in." + ext))
            dep = {"dep." + ext: {"hex": h}}
            out.append((f"{label}:import.{ext}", dict(dep, **{"main.scss": '@import "dep";\nz{y:x}\n'}), "main.scss"))
            out.append((f"{label}:nested-import.{ext}", dict(dep, **{"main.scss": 'w{@import "dep";}\n'}), "main.scss"))
            out.append((f"{label}:use.{ext}", dict(dep, **{"main.scss": '@use "dep";\nz{y:x}\n'}), "main.scss"))
            out.append((f"{label}:forward.{ext}", dict(dep, **{"main.scss": '@forward "dep";\nz{y:x}\n'}), "main.scss"))
            out.append((f"{label}:load-css.{ext}", dict(dep, **{"main.scss": '@use "sass:meta";\nz{@include meta.load-css("dep")}\n'}), "main.scss"))
            out.append((f"{label}:sass-import.{ext}", dict(dep, **{"main.sass": '@import "dep"\nz\n  y: x\n'}), "main.sass"))
            out.append((f"{label}:chain.{ext}", dict(dep, **{"mid.scss": '@forward "dep";\n', "main.scss": '@use "mid";\nz{y:x}\n'}), "main.scss"))
    return out
