"""C09 — Equality is an equivalence consistent with !=, map keys and index()."""
import itertools
import json
import re
from fractions import Fraction

import cssread
from vlib import Check, RunnerPool, compile_job, driver, log

# --------------------------------------------------------------------------------------------
# value trees, their Sass spelling and their driver encoding
#   ('null',) ('bool', b) ('num', Fraction|'nan'|'inf'|'-inf', unit|None) ('str', text, quoted)
#   ('color', r, g, b, a) ('list', [v], sep, bracketed) ('map', [(k, v)]) ('arglist', [v], [(name, v)], sep)
# --------------------------------------------------------------------------------------------

UNIT_TOK = {None: "-", "Hz": "hz", "kHz": "khz"}
CONVERTIBLE = {"px", "mm", "in", "cm", "q", "pt", "pc", "deg", "grad", "rad", "turn", "s", "ms", "Hz", "kHz",
               "dpi", "dpcm", "dppx"}
CANONICAL = {"px", "deg", "s", "Hz", "dppx"}
KNOWN_UNITS = CONVERTIBLE | {"em", "rem", "lh", "ex", "ch", "cap", "ic", "rlh", "vw", "vh", "vmin", "vmax", "vi", "vb",
                             "fr", "%"}


def hexs(s):
    b = s.encode("utf-8")
    return b.hex() if b else "-"


def unhex(h):
    return "" if h == "-" else bytes.fromhex(h).decode("utf-8")


def rat(q):
    if isinstance(q, str):
        return q
    q = Fraction(q)
    return str(q.numerator) if q.denominator == 1 else f"{q.numerator}/{q.denominator}"


def unit_tok(u):
    if u in UNIT_TOK:
        return UNIT_TOK[u]
    if u in KNOWN_UNITS:
        return u
    return "u:" + hexs(u)


def enc(v):
    t = v[0]
    if t == "null":
        return "N"
    if t == "bool":
        return "T" if v[1] else "F"
    if t == "num":
        return f"n {rat(v[1])} {unit_tok(v[2])}"
    if t == "str":
        return f"s {1 if v[2] else 0} {hexs(v[1])}"
    if t == "color":
        return "c " + " ".join(rat(x) for x in v[1:5])
    if t == "list":
        return f"l {v[2]} {1 if v[3] else 0} {len(v[1])}" + "".join(" " + enc(e) for e in v[1])
    if t == "map":
        return f"m {len(v[1])}" + "".join(" " + enc(k) + " " + enc(x) for k, x in v[1])
    if t == "arglist":
        return (f"a {v[3]} {len(v[1])}" + "".join(" " + enc(e) for e in v[1]) + f" {len(v[2])}"
                + "".join(" " + enc(("str", k, False)) + " " + enc(x) for k, x in v[2]))
    raise ValueError(v)


def dec_tokens(ts, i=0):
    """inverse of enc on a token list; returns (tree, next index)"""
    t = ts[i]
    if t == "N":
        return ("null",), i + 1
    if t in "TF":
        return ("bool", t == "T"), i + 1
    if t == "n":
        x = ts[i + 1]
        q = x if x in ("nan", "inf", "-inf") else Fraction(x)
        u = ts[i + 2]
        rev = {"-": None, "hz": "Hz", "khz": "kHz"}
        u = rev.get(u, unhex(u[2:]) if u.startswith("u:") else u)
        return ("num", q, u), i + 3
    if t == "s":
        return ("str", unhex(ts[i + 2]), ts[i + 1] == "1"), i + 3
    if t == "c":
        return ("color",) + tuple(Fraction(x) for x in ts[i + 1:i + 5]), i + 5
    if t == "l":
        sep, br, k = ts[i + 1], ts[i + 2] == "1", int(ts[i + 3])
        i += 4
        es = []
        for _ in range(k):
            e, i = dec_tokens(ts, i)
            es.append(e)
        return ("list", es, sep, br), i
    if t == "m":
        k = int(ts[i + 1])
        i += 2
        ps = []
        for _ in range(k):
            a, i = dec_tokens(ts, i)
            b, i = dec_tokens(ts, i)
            ps.append((a, b))
        return ("map", ps), i
    if t == "a":
        sep, k = ts[i + 1], int(ts[i + 2])
        i += 3
        es = []
        for _ in range(k):
            e, i = dec_tokens(ts, i)
            es.append(e)
        j = int(ts[i])
        i += 1
        kw = []
        for _ in range(j):
            a, i = dec_tokens(ts, i)
            b, i = dec_tokens(ts, i)
            kw.append((a[1], b))
        return ("arglist", es, kw, sep), i
    raise ValueError(ts[i:i + 4])


def num(text, unit=None):
    return ("num", Fraction(text), unit)


def has_arglist(v):
    t = v[0]
    if t == "arglist":
        return True
    if t == "list":
        return any(has_arglist(e) for e in v[1])
    if t == "map":
        return any(has_arglist(k) or has_arglist(x) for k, x in v[1])
    return False


def has_noncanon(v):
    t = v[0]
    if t == "num":
        return v[2] in CONVERTIBLE and v[2] not in CANONICAL
    if t == "list":
        return any(has_noncanon(e) for e in v[1])
    if t == "map":
        return any(has_noncanon(k) or has_noncanon(x) for k, x in v[1])
    if t == "arglist":
        return any(has_noncanon(e) for e in v[1]) or any(has_noncanon(x) for _, x in v[2])
    return False


def has_nan(v):
    t = v[0]
    if t == "num":
        return v[1] == "nan"
    if t == "list":
        return any(has_nan(e) for e in v[1])
    if t == "map":
        return any(has_nan(k) or has_nan(x) for k, x in v[1])
    if t == "arglist":
        return any(has_nan(e) for e in v[1]) or any(has_nan(x) for _, x in v[2])
    return False


PRELUDE = ('@use "sass:math";\n@use "sass:list";\n@use "sass:map";\n'
           "@function a($args...) { $k: keywords($args); @return $args; }\n"
           '@function ks($m) { $s: unquote("K"); @each $k, $v in $m { $s: $s + inspect($k) + unquote("|"); } @return $s; }\n')


def universe():
    """(sass expression, value tree) — representative values; every expression is self-contained
    given PRELUDE."""
    one, two, three = num("1"), num("2"), num("3")
    U = []

    def add(sass, tree):
        U.append((sass, tree))

    # numbers: unitless near a bucket boundary, the absolute lengths equal to 1in, other kinds
    add("1", one)
    add("1.000000000001", num("1.000000000001"))
    add("1.00000000001", num("1.00000000001"))
    add("2", two)
    add("0", num("0"))
    add("-0.0", num("0"))
    add("1px", num("1", "px"))
    add("96px", num("96", "px"))
    add("96.000000000004px", num("96.000000000004", "px"))
    add("1in", num("1", "in"))
    add("1.000000000004in", num("1.000000000004", "in"))
    add("2.54cm", num("2.54", "cm"))
    add("2.54000000001cm", num("2.54000000001", "cm"))
    add("25.4mm", num("25.4", "mm"))
    add("72pt", num("72", "pt"))
    add("6pc", num("6", "pc"))
    # pairs that differ by < 1e-11 at one unit's own scale but by > 1e-11 in the canonical unit, and
    # the reverse (what K1 / the old not_equals got wrong): every one is compared with 1in, 96px, …
    add("96.0000000003px", num("96.0000000003", "px"))
    add("1.000000000003in", num("1.000000000003", "in"))
    add("2.540000000001cm", num("2.540000000001", "cm"))
    add("25.40000000001mm", num("25.40000000001", "mm"))
    add("72.0000000001pt", num("72.0000000001", "pt"))
    add("1000.000000004ms", num("1000.000000004", "ms"))
    add("1.000000000004s", num("1.000000000004", "s"))
    add("0.50000000000001turn", num("0.50000000000001", "turn"))
    add("0.5000000000001turn", num("0.5000000000001", "turn"))
    add("101.6q", num("101.6", "q"))
    add("1em", num("1", "em"))
    add("1rem", num("1", "rem"))
    add("1%", num("1", "%"))
    add("1fr", num("1", "fr"))
    add("1foo", num("1", "foo"))
    add("1vw", num("1", "vw"))
    add("180deg", num("180", "deg"))
    add("200grad", num("200", "grad"))
    add("0.5turn", num("0.5", "turn"))
    add("3.141592653589793rad", num("3.141592653589793", "rad"))
    add("1s", num("1", "s"))
    add("1000ms", num("1000", "ms"))
    add("1kHz", num("1", "kHz"))
    add("1000Hz", num("1000", "Hz"))
    add("1dppx", num("1", "dppx"))
    add("96dpi", num("96", "dpi"))
    add("math.div(0, 0)", ("num", "nan", None))
    add("math.div(1, 0)", ("num", "inf", None))
    add("math.div(-1, 0)", ("num", "-inf", None))
    # strings
    add("a", ("str", "a", False))
    add('"a"', ("str", "a", True))
    add('"b"', ("str", "b", True))
    add('""', ("str", "", True))
    add('"1"', ("str", "1", True))
    add('unquote("1")', ("str", "1", False))
    add('"red"', ("str", "red", True))
    add('"true"', ("str", "true", True))
    # colours in several spellings
    red = ("color", Fraction(255), Fraction(0), Fraction(0), Fraction(1))
    add("red", red)
    add("#f00", red)
    add("#ff0000", red)
    add("rgb(255, 0, 0)", red)
    add("rgba(255, 0, 0, 1)", red)
    add("hsl(0, 100%, 50%)", red)
    add("rgba(255, 0, 0, 0.5)", ("color", Fraction(255), Fraction(0), Fraction(0), Fraction(1, 2)))
    add("rgba(red, 0.5)", ("color", Fraction(255), Fraction(0), Fraction(0), Fraction(1, 2)))
    add("blue", ("color", Fraction(0), Fraction(0), Fraction(255), Fraction(1)))
    add("#00f", ("color", Fraction(0), Fraction(0), Fraction(255), Fraction(1)))
    add("transparent", ("color", Fraction(0), Fraction(0), Fraction(0), Fraction(0)))
    add("rgba(0, 0, 0, 0)", ("color", Fraction(0), Fraction(0), Fraction(0), Fraction(0)))
    # round 3 (seeded C09-r3m1): the same rgb colour reached through hsl() with DIFFERENT hsl components
    grey = ("color", Fraction(128), Fraction(128), Fraction(128), Fraction(1))
    add("#808080", grey)
    add("hsl(0, 0%, 50.2%)", grey)
    add("hsl(120, 0%, 50.2%)", grey)
    add("hsl(0, 100%, 100%)", ("color", Fraction(255), Fraction(255), Fraction(255), Fraction(1)))
    add("hsl(200, 30%, 100%)", ("color", Fraction(255), Fraction(255), Fraction(255), Fraction(1)))
    add("white", ("color", Fraction(255), Fraction(255), Fraction(255), Fraction(1)))
    # lists differing in separator / brackets
    add("(1 2)", ("list", [one, two], "space", False))
    add("(1, 2)", ("list", [one, two], "comma", False))
    add("[1 2]", ("list", [one, two], "space", True))
    add("[1, 2]", ("list", [one, two], "comma", True))
    add("list.slash(1, 2)", ("list", [one, two], "slash", False))
    add("(1,)", ("list", [one], "comma", False))
    add("[1]", ("list", [one], "undecided", True))
    add("(1 2 3)", ("list", [one, two, three], "space", False))
    add("(1in 2)", ("list", [num("1", "in"), two], "space", False))
    add("(96px 2)", ("list", [num("96", "px"), two], "space", False))
    add("((1, 2) 3)", ("list", [("list", [one, two], "comma", False), three], "space", False))
    add("()", ("list", [], "undecided", False))
    add("[]", ("list", [], "undecided", True))
    add('("a" b)', ("list", [("str", "a", True), ("str", "b", False)], "space", False))
    add('(a "b")', ("list", [("str", "a", False), ("str", "b", True)], "space", False))
    # maps
    sa, sb, sx = ("str", "a", False), ("str", "b", False), ("str", "x", False)
    add("(a: 1)", ("map", [(sa, one)]))
    add('("a": 1)', ("map", [(("str", "a", True), one)]))
    add("(a: 1, b: 2)", ("map", [(sa, one), (sb, two)]))
    add("(b: 2, a: 1)", ("map", [(sb, two), (sa, one)]))
    add("(a: 1, b: 3)", ("map", [(sa, one), (sb, three)]))
    add("(a: (b: 1))", ("map", [(sa, ("map", [(sb, one)]))]))
    add("(a: (b: 1.000000000001))", ("map", [(sa, ("map", [(sb, num("1.000000000001"))]))]))
    add("(1in: x)", ("map", [(num("1", "in"), sx)]))
    add("(96px: x)", ("map", [(num("96", "px"), sx)]))
    add("map-remove((a: 1), a)", ("map", []))
    add("((1, 2): x)", ("map", [(("list", [one, two], "comma", False), sx)]))
    # maps holding null / false / empty values
    add("(a: null)", ("map", [(sa, ("null",))]))
    add("(a: false)", ("map", [(sa, ("bool", False))]))
    add("(a: ())", ("map", [(sa, ("list", [], "undecided", False))]))
    add("(a: map-remove((z: 0), z))", ("map", [(sa, ("map", []))]))
    add("(a: null, b: 1)", ("map", [(sa, ("null",)), (sb, one)]))
    add("(1in: null)", ("map", [(num("1", "in"), ("null",))]))
    add("(a: (b: null))", ("map", [(sa, ("map", [(sb, ("null",))]))]))
    # argument lists
    add("a(1, 2)", ("arglist", [one, two], [], "comma"))
    add("a(1, 2, $k: 1)", ("arglist", [one, two], [("k", one)], "comma"))
    add("a()", ("arglist", [], [], "comma"))
    add("a(1)", ("arglist", [one], [], "comma"))
    add("a((1 2)..., (k: 1)...)", ("arglist", [one, two], [("k", one)], "space"))
    add("a((1 2)...)", ("arglist", [one, two], [], "space"))
    add("a((1, 2)...)", ("arglist", [one, two], [], "comma"))
    add("a([1 2]...)", ("arglist", [one, two], [], "space"))
    add("a(list.slash(1, 2)...)", ("arglist", [one, two], [], "slash"))
    add("a(()...)", ("arglist", [], [], "comma"))
    add("(a(1, 2) 3)", ("list", [("arglist", [one, two], [], "comma"), three], "space", False))
    # null / booleans
    add("null", ("null",))
    add("true", ("bool", True))
    add("false", ("bool", False))
    return U


def family(v):
    return "listlike" if v[0] in ("list", "arglist") else v[0]


def add_composites(U, rng, count):
    """Random nested values built from the base universe (by variable reference, so that the
    spelling of the parts is exactly the base spelling)."""
    base = len(U)
    out = []
    for _ in range(count):
        kind = rng.choice(["space", "comma", "bspace", "bcomma", "map1", "map2", "nest", "args"])
        i, j, k = rng.randrange(base), rng.randrange(base), rng.randrange(base)
        a, b, c = U[i][1], U[j][1], U[k][1]
        if kind == "space":
            out.append((f"($v{i} $v{j})", ("list", [a, b], "space", False)))
        elif kind == "comma":
            out.append((f"($v{i}, $v{j})", ("list", [a, b], "comma", False)))
        elif kind == "bspace":
            out.append((f"[$v{i} $v{j}]", ("list", [a, b], "space", True)))
        elif kind == "bcomma":
            out.append((f"[$v{i}, $v{j}, $v{k}]", ("list", [a, b, c], "comma", True)))
        elif kind == "map1":
            out.append((f"($v{i}: $v{j})", ("map", [(a, b)])))
        elif kind == "map2":
            if family(a) == family(c):       # keys of different families are certainly unequal
                continue
            out.append((f"($v{i}: $v{j}, $v{k}: $v{j})", ("map", [(a, b), (c, b)])))
            out.append((f"($v{k}: $v{j}, $v{i}: $v{j})", ("map", [(c, b), (a, b)])))
        elif kind == "nest":
            out.append((f"(x: ($v{i}: $v{j}))", ("map", [(("str", "x", False), ("map", [(a, b)]))])))
        else:
            out.append((f"a($v{i}, $v{j})", ("arglist", [a, b], [], "comma")))
    return U + out


def var_defs(U):
    return PRELUDE + "".join(f"$v{i}: {s};\n" for i, (s, _) in enumerate(U))


def rules_of(css):
    """{case number: {decl name: value}} from a sheet of `x{i:N; …}` rules"""
    out = {}
    for nd in cssread.parse(css):
        if nd["type"] != "rule":
            continue
        d = {c["name"]: c["value"] for c in nd["children"] if c["type"] == "decl"}
        if "i" in d:
            out[int(d["i"])] = d
    return out


def run_batched(pool, head, bodies, size=250, timeout=60):
    """Compile `head + rules` in batches; a batch that fails is re-run one rule per job.
    Returns {case index: decl dict | ('status', status, message)}."""
    res = {}
    idx = list(range(len(bodies)))
    chunks = [idx[o:o + size] for o in range(0, len(idx), size)]
    jobs = [compile_job(head + "\n".join(f"x{{i:{k}; {bodies[k]}}}" for k in ch), syntax="scss") for ch in chunks]
    answers = pool.map(jobs, timeout=timeout)
    redo = []
    for ch, ans in zip(chunks, answers):
        if ans.get("status") == "ok":
            try:
                got = rules_of(ans["css"])
            except cssread.IllFormed as e:
                got = {}
            for k in ch:
                res[k] = got.get(k, ("status", "missing", "rule not in output"))
        else:
            redo += ch
    if redo:
        jobs = [compile_job(head + f"x{{i:{k}; {bodies[k]}}}", syntax="scss") for k in redo]
        for k, ans in zip(redo, pool.map(jobs, timeout=timeout)):
            if ans.get("status") == "ok":
                res[k] = rules_of(ans["css"]).get(k, ("status", "missing", "rule not in output"))
            else:
                res[k] = ("status", ans.get("status"), (ans.get("err") or {}).get("message") or ans.get("panic"))
    return res


def b01(x):
    return "1" if x else "0"


# --------------------------------------------------------------------------------------------
# inspect() text of the values used in the map-operation sequences (restricted pool, so that the
# text is unambiguous): rendered from the model's resulting value and compared with grass's text
# --------------------------------------------------------------------------------------------

def _needs_parens(parent_sep, e):
    """serializer.rs `elem_needs_parens`"""
    if e[0] != "list" or len(e[1]) < 2 or e[3]:
        return False
    if parent_sep == "comma":
        return e[2] == "comma"
    if parent_sep == "slash":
        return e[2] in ("comma", "slash")
    return e[2] != "undecided"


def render(v, pool_text, in_map=False):
    """inspect() text of a value from the restricted pool (serializer.rs visit_list / visit_map)"""
    t = v[0]
    if t == "map":
        return "(" + ", ".join(render(k, pool_text, True) + ": " + render(x, pool_text, True) for k, x in v[1]) + ")"
    if t == "list":
        if not v[1]:
            return "[]" if v[3] else "()"
        sep = {"comma": ", ", "space": " ", "slash": " / ", "undecided": " "}[v[2]]
        parts = []
        for e in v[1]:
            r = render(e, pool_text)
            parts.append("(" + r + ")" if _needs_parens(v[2], e) else r)
        inner = sep.join(parts)
        single = len(v[1]) == 1 and v[2] in ("comma", "slash")
        if single:
            inner += {"comma": ",", "slash": "/"}[v[2]]
        if v[3]:
            return "[" + inner + "]"
        if single:
            inner = "(" + inner + ")"
        return "(" + inner + ")" if (in_map and v[2] == "comma") else inner
    return pool_text[enc(v)]


def op_pool():
    atoms = [("1", num("1")), ("2", num("2")), ("3", num("3")), ("1px", num("1", "px")), ("96px", num("96", "px")),
             ("1in", num("1", "in")), ("2.54cm", num("2.54", "cm")), ("72pt", num("72", "pt")), ("1em", num("1", "em")),
             ("a", ("str", "a", False)), ('"a"', ("str", "a", True)), ("b", ("str", "b", False)),
             ('"b"', ("str", "b", True)), ("true", ("bool", True)), ("false", ("bool", False)), ("null", ("null",)),
             ("x", ("str", "x", False)), ("y", ("str", "y", False))]
    text = {enc(t): s for s, t in atoms}
    keys = atoms[:16] + [("(1 2)", ("list", [num("1"), num("2")], "space", False)),
                         ("(1, 2)", ("list", [num("1"), num("2")], "comma", False)),
                         ("(a b)", ("list", [("str", "a", False), ("str", "b", False)], "space", False))]
    vals = [atoms[0], atoms[1], atoms[2], atoms[16], atoms[17], ("(p: 1)", ("map", [(("str", "p", False), num("1"))])),
            ("(1, 2)", ("list", [num("1"), num("2")], "comma", False)), ("null", ("null",)), ("null", ("null",)),
            ("false", ("bool", False)), ("()", ("list", [], "undecided", False)),
            ("map-remove((z: 0), z)", ("map", [])), ("0", num("0")), ('""', ("str", "", True)),
            ("(p: null)", ("map", [(("str", "p", False), ("null",))]))]
    text[enc(("str", "p", False))] = "p"
    text[enc(num("0"))] = "0"
    text[enc(("str", "", True))] = '""'
    return keys, vals, text


def gen_sequence(rng, keys, vals, eqkey):
    """A random well-formed start literal and 2–6 operations."""
    start = []
    for _ in range(rng.choice([0, 1, 2, 3, 4])):
        k = rng.choice(keys)
        if any(eqkey(k[1], k2[1]) for k2, _ in start):
            continue
        start.append((k, rng.choice(vals)))
    ops = []
    for _ in range(rng.choice([2, 3, 4, 5, 6])):
        r = rng.random()
        if r < 0.4:
            ops.append(("set", rng.choice(keys), rng.choice(vals)))
        elif r < 0.7:
            m = []
            for _ in range(rng.choice([1, 2, 3])):
                k = rng.choice(keys)
                if any(eqkey(k[1], k2[1]) for k2, _ in m):
                    continue
                m.append((k, rng.choice(vals)))
            ops.append(("merge", m))
        else:
            ops.append(("remove", rng.choice(keys)))
    used = [k for k, _ in start] + [op[1] for op in ops if op[0] != "merge"] + [k for op in ops if op[0] == "merge" for k, _ in op[1]]
    probe = rng.choice(used) if used and rng.random() < 0.75 else rng.choice(keys)
    return start, ops, probe


def lit_text(pairs):
    return "(" + ", ".join(f"{k[0]}: {v[0]}" for k, v in pairs) + ")" if pairs else "map-remove((z: 0), z)"


def lit_tree(pairs):
    return ("map", [(k[1], v[1]) for k, v in pairs])


# --------------------------------------------------------------------------------------------
# round 3 — the extended universe (Grass.Value.XV / xeq): numbers with compound units, calculations,
# function references, and the remaining look-alikes.  Extra tree forms:
#   ('cnum', q, [numerator units], [denominator units])
#   ('calc', name, [carg])   carg = ('cn', q, unit | (numer, denom)) | ('cc', name, [carg]) | ('cs', text)
#                                   | ('co', op, carg, carg) | ('ci', text)
#   ('fn', 'builtin', id, name) | ('fn', 'user', name, lo, hi) | ('fn', 'plain', name)
# --------------------------------------------------------------------------------------------

XPRELUDE = ('@use "sass:meta";\n' + PRELUDE +
            "@function f1() { @return 1; }\n@function f2() { @return 1; }\n"
            "@function g() { @return 1; }\n$g1: meta.get-function(\"g\");\n"
            "@function g() { @return 2; }\n$g2: meta.get-function(\"g\");\n")


def xunit_tok(u):
    if isinstance(u, tuple):
        nu, de = u
        return f"X {len(nu)}" + "".join(" " + unit_tok(x) for x in nu) + f" {len(de)}" + "".join(" " + unit_tok(x) for x in de)
    return unit_tok(u)


def cenc(c):
    t = c[0]
    if t == "cn":
        return f"Cn {rat(c[1])} {xunit_tok(c[2])}"
    if t == "cc":
        return f"Cc {c[1]} {len(c[2])}" + "".join(" " + cenc(a) for a in c[2])
    if t == "cs":
        return "Cs " + hexs(c[1])
    if t == "ci":
        return "Ci " + hexs(c[1])
    if t == "co":
        return f"Co {c[1]} {cenc(c[2])} {cenc(c[3])}"
    raise ValueError(c)


def xenc(v):
    t = v[0]
    if t == "cnum":
        return f"n {rat(v[1])} {xunit_tok((v[2], v[3]))}"
    if t == "calc":
        return f"k {v[1]} {len(v[2])}" + "".join(" " + cenc(a) for a in v[2])
    if t == "fn":
        if v[1] == "builtin":
            return f"fb {v[2]} {hexs(v[3])}"
        if v[1] == "user":
            return f"fu {hexs(v[2])} {v[3]} {v[4]}"
        return f"fp {hexs(v[2])}"
    if t == "list":
        return f"l {v[2]} {1 if v[3] else 0} {len(v[1])}" + "".join(" " + xenc(e) for e in v[1])
    if t == "map":
        return f"m {len(v[1])}" + "".join(" " + xenc(k) + " " + xenc(x) for k, x in v[1])
    if t == "arglist":
        return (f"a {v[3]} {len(v[1])}" + "".join(" " + xenc(e) for e in v[1]) + f" {len(v[2])}"
                + "".join(" " + xenc(("str", k, False)) + " " + xenc(x) for k, x in v[2]))
    return enc(v)


def xkind(v):
    t = v[0]
    if t in ("list", "arglist"):
        return "listlike"
    return t


def xhas_nan(v):
    t = v[0]
    if t in ("num", "cnum"):
        return v[1] == "nan"
    if t == "calc":
        def cn(c):
            if c[0] == "cn":
                return c[1] == "nan"
            if c[0] == "cc":
                return any(cn(a) for a in c[2])
            if c[0] == "co":
                return cn(c[2]) or cn(c[3])
            return False
        return any(cn(a) for a in v[2])
    if t == "list":
        return any(xhas_nan(e) for e in v[1])
    if t == "map":
        return any(xhas_nan(k) or xhas_nan(x) for k, x in v[1])
    if t == "arglist":
        return any(xhas_nan(e) for e in v[1]) or any(xhas_nan(x) for _, x in v[2])
    return False


def xuniverse():
    """(sass expression, tree) for the extended universe; expressions are self-contained given XPRELUDE."""
    one, two = num("1"), num("2")
    X = []

    def add(sass, tree):
        X.append((sass, tree))

    def cn(text, unit):
        return ("cn", Fraction(text) if text != "nan" else "nan", unit)

    def plus(a, b, op="plus"):
        return ("co", op, a, b)

    def calc(*args, name="calc"):
        return ("calc", name, list(args))

    # numbers with compound units: ordered numerator / denominator vectors, no conversion
    add("1px*1px", ("cnum", Fraction(1), ["px", "px"], []))
    add("2px*1px", ("cnum", Fraction(2), ["px", "px"], []))
    add("96px*1px", ("cnum", Fraction(96), ["px", "px"], []))
    add("1px*1in", ("cnum", Fraction(1), ["px", "in"], []))
    add("1in*1px", ("cnum", Fraction(1), ["in", "px"], []))
    add("1px*1em", ("cnum", Fraction(1), ["px", "em"], []))
    add("1em*1px", ("cnum", Fraction(1), ["em", "px"], []))
    add("1.000000000001px*1em", ("cnum", Fraction("1.000000000001"), ["px", "em"], []))
    add("1.00000000001px*1em", ("cnum", Fraction("1.00000000001"), ["px", "em"], []))
    add("1px*1px*1px", ("cnum", Fraction(1), ["px", "px", "px"], []))
    add("math.div(1px, 1s)", ("cnum", Fraction(1), ["px"], ["s"]))
    add("math.div(1000px, 1000s)", ("cnum", Fraction(1), ["px"], ["s"]))
    add("math.div(1px, 1000ms)", ("cnum", Fraction("0.001"), ["px"], ["ms"]))
    add("math.div(1in, 1s)", ("cnum", Fraction(1), ["in"], ["s"]))
    add("math.div(96px, 1s)", ("cnum", Fraction(96), ["px"], ["s"]))
    add("math.div(1, 1s)", ("cnum", Fraction(1), [], ["s"]))
    add("math.div(1, 1px)", ("cnum", Fraction(1), [], ["px"]))
    add("math.div(1px*1em, 1s)", ("cnum", Fraction(1), ["px", "em"], ["s"]))
    add("math.div(1px, 1s*1s)", ("cnum", Fraction(1), ["px"], ["s", "s"]))
    add("math.div(0, 0)*1px*1em", ("cnum", "nan", ["px", "em"], []))
    # calculations: structural equality of the simplified tree, numbers by SassNumber::eq
    px1, pc1 = cn("1", "px"), cn("1", "%")
    add("calc(1px + 1%)", calc(plus(px1, pc1)))
    add("calc(1in + 1%)", calc(plus(cn("1", "in"), pc1)))
    add("calc(96px + 1%)", calc(plus(cn("96", "px"), pc1)))
    add("calc(2.54cm + 1%)", calc(plus(cn("2.54", "cm"), pc1)))
    add("calc(1.000000000004in + 1%)", calc(plus(cn("1.000000000004", "in"), pc1)))
    add("calc(1% + 1px)", calc(plus(pc1, px1)))
    add("calc(1px - 1%)", calc(plus(px1, pc1, "minus")))
    add("calc(1px + 2%)", calc(plus(px1, cn("2", "%"))))
    add("calc(1.000000000001px + 1%)", calc(plus(cn("1.000000000001", "px"), pc1)))
    add("calc(1px + 1% + 2px)", calc(plus(plus(px1, pc1), cn("2", "px"))))
    add("calc((1px + 1%) * 2)", calc(plus(plus(px1, pc1), cn("2", None), "times")))
    add("calc(2 * (1px + 1%))", calc(plus(cn("2", None), plus(px1, pc1), "times")))
    add("min(1px, 1%)", calc(px1, pc1, name="min"))
    add("min(1in, 1%)", calc(cn("1", "in"), pc1, name="min"))
    add("min(96px, 1%)", calc(cn("96", "px"), pc1, name="min"))
    add("max(1px, 1%)", calc(px1, pc1, name="max"))
    add("clamp(1px, 1%, 2px)", calc(px1, pc1, cn("2", "px"), name="clamp"))
    add("calc(var(--x))", calc(("cs", "var(--x)")))
    add("calc(var(--y))", calc(("cs", "var(--y)")))
    add("calc(1px * var(--x))", calc(plus(px1, ("cs", "var(--x)"), "times")))
    add("calc(1px + min(1%, 1vw))", calc(plus(px1, ("cc", "min", [pc1, cn("1", "vw")]))))
    add("calc(1px + math.div(0, 0) * 1%)", calc(plus(px1, cn("nan", "%"))))
    # function references
    add('meta.get-function("f1")', ("fn", "user", "f1", 1, 1))
    add('meta.get-function("f2")', ("fn", "user", "f2", 2, 2))
    add("$g1", ("fn", "user", "g", 3, 3))
    add("$g2", ("fn", "user", "g", 4, 4))
    add('meta.get-function("rgb")', ("fn", "builtin", 1, "rgb"))
    add('meta.get-function("rgba")', ("fn", "builtin", 2, "rgba"))
    add('meta.get-function("map-get")', ("fn", "builtin", 3, "map-get"))
    add('meta.get-function("map_get")', ("fn", "builtin", 3, "map-get"))
    add('meta.get-function("get", $module: "map")', ("fn", "builtin", 4, "get"))
    add('meta.get-function("f1", $css: true)', ("fn", "plain", "f1"))
    add('meta.get-function("rgb", $css: true)', ("fn", "plain", "rgb"))
    # look-alikes among the old kinds
    add('"calc(1px + 1%)"', ("str", "calc(1px + 1%)", True))
    add('unquote("calc(1px + 1%)")', ("str", "calc(1px + 1%)", False))
    add('"get-function(\\"f1\\")"', ("str", 'get-function("f1")', True))
    add('unquote("f1")', ("str", "f1", False))
    add('unquote("1px*em")', ("str", "1px*em", False))
    add("red", ("color", Fraction(255), Fraction(0), Fraction(0), Fraction(1)))
    add('"red"', ("str", "red", True))
    add('unquote("red")', ("str", "red", False))
    add("true", ("bool", True))
    add('unquote("true")', ("str", "true", False))
    add("null", ("null",))
    add('unquote("null")', ("str", "null", False))
    add("1", one)
    add("1px", num("1", "px"))
    add("1s", num("1", "s"))
    add("()", ("list", [], "undecided", False))
    add("[]", ("list", [], "undecided", True))
    add("map-remove((a: 1), a)", ("map", []))
    add("list.join((), (), $separator: comma)", ("list", [], "comma", False))
    add("list.join((), (), $separator: space)", ("list", [], "space", False))
    add("list.append((), 1)", ("list", [one], "space", False))
    add("list.append((), 1, $separator: comma)", ("list", [one], "comma", False))
    add("(1,)", ("list", [one], "comma", False))
    add("[1]", ("list", [one], "undecided", True))
    add("list.append([], 1)", ("list", [one], "space", True))
    add("a()", ("arglist", [], [], "comma"))
    # bucket boundaries, unitless and in the canonical unit (no conversion product): the scaled value
    # a * 1e11 is 1e-3 away from the rounding boundary .5, i.e. 1e-14 relative — still > 100 times the
    # f64 noise of literal parsing and of the one product (about 2.2e-5 in a * 1e11)
    for t in ("1.000000000004", "1.00000000000499", "1.00000000000501", "1.000000000006"):
        add(t, num(t))
        add(t + "px", num(t, "px"))
    add("1.00000000000499px*1em", ("cnum", Fraction("1.00000000000499"), ["px", "em"], []))
    add("1.00000000000501px*1em", ("cnum", Fraction("1.00000000000501"), ["px", "em"], []))
    # the new kinds inside containers
    pxem, empx = ("cnum", Fraction(1), ["px", "em"], []), ("cnum", Fraction(1), ["em", "px"], [])
    cin, cpx = calc(plus(cn("1", "in"), pc1)), calc(plus(cn("96", "px"), pc1))
    f1, f2 = ("fn", "user", "f1", 1, 1), ("fn", "user", "f2", 2, 2)
    add("(1px*1em 2)", ("list", [pxem, two], "space", False))
    add("(1em*1px 2)", ("list", [empx, two], "space", False))
    add("(calc(1in + 1%), 2)", ("list", [cin, two], "comma", False))
    add("(calc(96px + 1%), 2)", ("list", [cpx, two], "comma", False))
    add("a(calc(96px + 1%), 2)", ("arglist", [cpx, two], [], "comma"))
    add("[calc(96px + 1%), 2]", ("list", [cpx, two], "comma", True))
    add("(calc(1in + 1%): 1)", ("map", [(cin, one)]))
    add("(calc(96px + 1%): 1)", ("map", [(cpx, one)]))
    add('(meta.get-function("f1"): 1, meta.get-function("f2"): 2)', ("map", [(f1, one), (f2, two)]))
    add('(meta.get-function("f2"): 2, meta.get-function("f1"): 1)', ("map", [(f2, two), (f1, one)]))
    add('(meta.get-function("f1"): 1, meta.get-function("f2"): 1)', ("map", [(f1, one), (f2, one)]))
    add("(1px*1em: calc(1in + 1%))", ("map", [(pxem, cin)]))
    add("(1px*1em: calc(96px + 1%))", ("map", [(pxem, cpx)]))
    add("(1em*1px: calc(96px + 1%))", ("map", [(empx, cpx)]))
    return X


def ext_section(ck, pool, failing, disagree):
    """All ordered pairs of the extended universe: model (`xpairobs`) against grass, the Lean
    predicate `pairAgrees` and the equivalence-law checkers on grass's own answers, `index` over the
    whole universe."""
    X = xuniverse()
    n = len(X)
    head = XPRELUDE + "".join(f"$v{i}: {s};\n" for i, (s, _) in enumerate(X))
    pairs = [(i, j) for i in range(n) for j in range(n)]
    bodies = [(f"e: $v{i} == $v{j}; n: $v{i} != $v{j}; g: inspect(map-get(($v{i}: 1), $v{j})); "
               f"h: map-has-key(($v{i}: 1), $v{j}); r: length(map-remove(($v{i}: 1), $v{j})); "
               f"m: length(map-merge(($v{i}: 1), ($v{j}: 2))); x: inspect(index(($v{i},), $v{j}))")
              for i, j in pairs]
    pres = run_batched(pool, head, bodies)
    mouts = driver([f"value xpairobs now {xenc(X[i][1])} {xenc(X[j][1])}" for i, j in pairs])
    impl_eq = [[False] * n for _ in range(n)]
    obs = {}
    for idx, ((i, j), mo) in enumerate(zip(pairs, mouts)):
        case = f"{X[i][0]}  vs  {X[j][0]}"
        mt = mo.split(" ")
        if mt[0] != "ok":
            ck.cov["unsupported_dropped"] += 1
            continue
        r = pres[idx]
        if not isinstance(r, dict):
            failing.append((case, {"pair": case, "impl_observation": str(r),
                                   "expected_by_property": "every pair evaluates without error"}, []))
            continue
        try:
            i_obs = [b01(r["e"] == "true"), b01(r["n"] == "true"), b01(r["g"] != "null"), b01(r["h"] == "true"),
                     b01(r["r"] == "0"), r["m"], None, "none" if r["x"] == "null" else str(int(r["x"]) - 1)]
        except (KeyError, ValueError):
            failing.append((case, {"pair": case, "impl_observation": r}, []))
            continue
        impl_eq[i][j] = i_obs[0] == "1"
        obs[(i, j)] = (i_obs, mt[1:9], mt[9])
    todo = list(obs)
    uneq = [p for p in todo if not impl_eq[p[0]][p[1]]]
    eqs = [p for p in todo if impl_eq[p[0]][p[1]]]
    lres = run_batched(pool, head, [f"d: length(($v{i}: 1, $v{j}: 2))" for i, j in uneq])
    for idx, p in enumerate(uneq):
        r = lres[idx]
        obs[p][0][6] = "0" if isinstance(r, dict) and r.get("d") == "2" else ("1" if not isinstance(r, dict) and "Duplicate key" in str(r[2]) else "?")
    ejobs = [compile_job(head + f"x{{d: length(($v{i}: 1, $v{j}: 2))}}", syntax="scss") for i, j in eqs]
    for p, ans in zip(eqs, pool.map(ejobs, timeout=30)):
        msg = (ans.get("err") or {}).get("message") or ""
        obs[p][0][6] = "1" if ans.get("status") == "err" and "Duplicate key" in msg else ("0" if ans.get("status") == "ok" else "?")
    law_lines, law_ix = [], []
    for p in todo:
        i_obs, m_obs, m_agrees = obs[p]
        i, j = p
        case = f"{X[i][0]}  vs  {X[j][0]}"
        ki, kj = xkind(X[i][1]), xkind(X[j][1])
        ck.count(("xpair", X[i][0], X[j][0]), ki == kj or i_obs[0] == "1" or m_obs[0] == "1")
        ck.hist(f"xpair:{ki}-{kj}")
        ck.hist("xpair:eq" if i_obs[0] == "1" else "xpair:ne")
        if (i * n + j) % 997 == 0:
            ck.sample({"xpair": case, "impl": i_obs, "model": m_obs})
        if [str(x) for x in i_obs] != m_obs:
            disagree("xpair", case, m_obs, i_obs)
        if m_agrees != "-":
            disagree("xpair-model-P", case, m_agrees, "-")
        if "?" in i_obs:
            failing.append((case, {"pair": case, "impl_observation": i_obs,
                                   "expected_by_property": "a map literal is either accepted or rejected as Duplicate key"}, []))
            continue
        law_lines.append("value pairlaw " + " ".join(str(x) for x in i_obs))
        law_ix.append(p)
    for p, verdict in zip(law_ix, driver(law_lines)):
        if verdict == "ok holds":
            continue
        i, j = p
        case = f"{X[i][0]}  vs  {X[j][0]}"
        clauses = verdict.replace("ok fails ", "").split(",")
        ck.hist("xpairlaw-fails:" + "+".join(clauses))
        failing.append((case, {"pair": case, "failed_clauses": clauses, "impl_observation": obs[p][0],
                               "model_observation": obs[p][1], "expected_by_property":
                               "!= negates ==; map-get/has-key/remove/merge/literal and index find an entry exactly when the key/element == the probe"}, []))
    # the equivalence laws on grass's own == matrix over the extended universe (all triples)
    mat = ".".join("".join(b01(x) for x in row) for row in impl_eq)
    dom = "".join(b01(not xhas_nan(X[i][1])) for i in range(n))
    l1, l2 = driver([f"value laws {n} {mat} {dom}", f"value lawsall {n} {mat}"])
    ck.count(("xlaws", n), True)
    ck.cov["evaluations"] += n ** 3
    ck.hist("xtriples-through-matrix", n ** 3)
    m = re.match(r"ok refl:(\S+) symm:(\S+) trans:(\S+)$", l1)
    ma = re.match(r"ok symm (\d+) \[(.*?)\] trans (\d+) \[(.*?)\]$", l2)
    if not m or not ma:
        failing.append(("law checker (extended universe)", {"driver_answer": (l1 + " | " + l2)[:300]}, []))
    else:
        if m.group(1) != "ok":
            i = int(m.group(1))
            failing.append((f"{X[i][0]} == {X[i][0]}", {"law": "reflexive", "value": X[i][0]}, []))
        ck.hist("xsymm-violations", int(ma.group(1)))
        ck.hist("xtrans-violations", int(ma.group(3)))
        for t in filter(None, ma.group(2).split(";")):
            i, j = map(int, t.split(","))
            failing.append((f"{X[i][0]} == {X[j][0]} vs reverse", {"law": "symmetric", "a": X[i][0], "b": X[j][0],
                            "a==b": impl_eq[i][j], "b==a": impl_eq[j][i]}, []))
        for t in filter(None, ma.group(4).split(";")):
            i, j, k = map(int, t.split(","))
            failing.append((f"{X[i][0]} == {X[j][0]} == {X[k][0]}",
                            {"law": "transitive", "a": X[i][0], "b": X[j][0], "c": X[k][0],
                             "expected_by_property": "a==b and b==c imply a==c"}, []))
    # index() over the whole extended universe
    ulist = "(" + ", ".join(f"$v{i}" for i in range(n)) + ")"
    ires = run_batched(pool, head + f"$U: {ulist};\n", [f"x: inspect(index($U, $v{j}))" for j in range(n)])
    ilines = [f"value xindex now {n} " + " ".join(xenc(t) for _, t in X) + " " + xenc(X[j][1]) for j in range(n)]
    ilines += ["value first " + "".join(b01(impl_eq[i][j]) for i in range(n)) for j in range(n)]
    iouts = driver(ilines)
    for j in range(n):
        r = ires[j]
        got = "?" if not isinstance(r, dict) else ("none" if r.get("x") == "null" else str(int(r["x"]) - 1))
        model, direct = iouts[j].replace("ok ", ""), iouts[n + j].replace("ok ", "")
        ck.count(("xindex", X[j][0]), True)
        if got != model:
            disagree("xindex", f"index(extended universe, {X[j][0]})", model, got)
        if got != direct:
            failing.append((f"index(extended universe, {X[j][0]})", {"impl_observation": got, "first_equal_by_grass_==": direct,
                            "expected_by_property": "index() returns the first position whose element == the probe"}, []))
    ck.cov["extended_universe"] = n


def hash_probe(ck):
    """`Value` has no `Hash`: every keyed operation goes through `PartialEq` (SassMap is a Vec).  If an
    implementation of `Hash` appears for a value type, hash/== consistency becomes part of the property
    and is not modelled: reported as unproved."""
    import os
    from vlib import REPO
    root = os.path.join(REPO, "crates/compiler/src")
    types = {"Value", "SassNumber", "SassMap", "Number", "ArgList", "SassCalculation", "CalculationArg", "SassFunction",
             "Color", "Rgb"}
    found = []
    for sub in ("value", "color"):
        d = os.path.join(root, sub)
        for fn in sorted(os.listdir(d)) if os.path.isdir(d) else []:
            if not fn.endswith(".rs"):
                continue
            text = open(os.path.join(d, fn)).read()
            for mm in re.finditer(r"impl\s+(?:std::hash::|hash::|core::hash::)?Hash\s+for\s+(\w+)", text):
                if mm.group(1) in types:
                    found.append(f"{sub}/{fn}: impl Hash for {mm.group(1)}")
            for mm in re.finditer(r"#\[derive\(([^)]*)\)\]\s*(?:pub(?:\([a-z]+\))?\s+)?(?:enum|struct)\s+(\w+)", text):
                if mm.group(2) in types and re.search(r"\bHash\b", mm.group(1)):
                    found.append(f"{sub}/{fn}: derive(Hash) on {mm.group(2)}")
    ck.cov["value_hash_impls"] = len(found)
    ck.hist("hash-probe:" + ("none" if not found else "FOUND"))
    if found:
        ck.unproved("model-incomplete", {"why": "a SassScript value type implements Hash; hash/== consistency is not modelled",
                                         "where": found})


# --------------------------------------------------------------------------------------------

# Inputs of the findings K1, K2, K4 (C09) and D6, D20 — all repaired in /repo — with the answers the
# property demands.  Regression cases: run first on every run; a wrong answer is a plain violation.
REGRESSIONS = [
    ("K1", [("1.000000000004in == 1in", "false"), ("1in == 96px", "true"), ("1.000000000004in == 96px", "false"),
            ("1000.000000004ms == 1000ms", "true"), ("1000ms == 1s", "true"), ("1000.000000004ms == 1s", "true")]),
    ("K2", [("[1, 2] == a(1, 2)", "false"), ("a(1, 2) == [1, 2]", "false"), ("a(1, 2) == (1, 2)", "true"),
            ("[1, 2] == (1, 2)", "false"), ("a(1, 2, $k: 1) == (1, 2)", "true"), ("(1, 2) == a(1, 2)", "true"),
            ("a(1, 2, $k: 1) == a(1, 2)", "true"), ("a((1 2)..., (k: 1)...) == a(1, 2)", "false"),
            ("a((1 2)...) == (1 2)", "true"), ("(1 2) == a((1 2)...)", "true"), ("a((1 2)...) == (1, 2)", "false"),
            ("a((1 2)..., (k: 1)...) == a((1 2)...)", "true"), ("a((1, 2)...) == a(1, 2)", "true")]),
    ("HASKEY", [("map-has-key((a: null), a)", "true"), ("map-has-key((1in: null), 96px)", "true"),
                ("map.has-key((a: (b: null)), a, b)", "true"), ("map-has-key((a: false), a)", "true"),
                ("map-has-key((a: ()), a)", "true"), ("inspect(map-get((a: null), a))", "null"),
                ("map-has-key((a: null), b)", "false"), ("length(map-keys((a: null, b: null)))", "2")]),
    ("K4", [("1in == 2.54000000001cm", "false"), ("length(map-remove((1in: x), 2.54000000001cm))", "1"),
            ("(1, 2) == a(1, 2)", "true"), ("length(map-remove(((1, 2): x), a(1, 2)))", "0"),
            ("length(map-remove((1in: x), 96px))", "0")]),
    ("NE", [("(1, 2) != a(1, 2)", "false"), ("a(1, 2) != (1, 2)", "false"), ("1in != 96.0000000003px", "true"),
            ("96.0000000003px != 1in", "true"), ("1in != 2.54000000001cm", "true"), ("2.54000000001cm != 1in", "true"),
            ("1in != 96px", "false"), ("a != \"a\"", "false"), ("[1, 2] != a(1, 2)", "true")]),
    ("D6", [("a(1, 2) == (1, 2)", "true"), ("(1, 2) == a(1, 2)", "true")]),
    ("D20", [("1in == 2.54000000001cm", "false"), ("2.54000000001cm == 1in", "false"),
             ("96px == 2.54000000001cm", "false")]),
]

# minimised past failures (ordered pairs of universe spellings): run first on every run
CORPUS = [("(1, 2)", "a(1, 2)"), ("a(1, 2)", "(1, 2)"), ("1in", "2.54000000001cm"), ("2.54000000001cm", "1in"),
          ("96px", "2.54000000001cm"), ("1.000000000004in", "96px"), ("[1, 2]", "a(1, 2)"), ("()", "a()"),
          ("1in", "96.0000000003px"), ("96.0000000003px", "1in"), ("1.000000000004in", "1in"),
          ("a(1, 2, $k: 1)", "a(1, 2)"), ("a(1, 2)", "[1, 2]"), ("1000.000000004ms", "1s"),
          ("()", "map-remove((a: 1), a)"), ("(a: 1, b: 2)", "(b: 2, a: 1)"), ("a", '"a"'), ("red", "#f00")]


def run(tier, seed):
    ck = Check("C09", tier, seed)
    ck.cov["rule"] = (
        "universe of representative values (numbers equal after conversion / at bucket boundaries / NaN / Infinity, "
        "quoted+unquoted strings, colours in several spellings, lists differing in separator and brackets, nested maps, "
        "() vs empty map, argument lists through a $args... function, null, booleans); every ordered pair is one case "
        "(==, !=, map-get/has-key/remove/merge/literal, index), distinct by the pair of spellings, non-trivial when the "
        "two values have the same type family or one side says they are equal; all triples through the == matrix "
        "(Lean law checker) and sampled (thorough: all) triples evaluated by grass; random map-operation sequences "
        "distinct by their text, non-trivial when at least one operation hits an existing key.")
    ck.assumptions = [
        "f64 rounding of unit-conversion products is not modelled (exact rationals); the universe keeps >= 1e-13 "
        "relative distance from bucket boundaries",
        "grass observed through booleans / lengths / inspect() text printed into declarations (tools/cssread.py)"]
    disagreements = []

    def disagree(what, case, model, impl):
        ck.cov["model_disagreements"] += 1
        ck.hist("disagree:" + what)
        if len(disagreements) < 8:
            disagreements.append({"what": what, "case": case, "model_observation": model, "impl_observation": impl})

    ck.do_prove(cores=("value",))
    log(f"[C09] proof step done {__import__('time').time()-ck.t0:.0f}s")
    if not ck.do_build_runner():
        ck.unproved("correspondence-broken", {"why": "runner does not build against /repo",
                                              "error": getattr(ck, "build_error", "")})
        return ck.finish()
    pool = RunnerPool()
    U = add_composites(universe(), ck.rng, 30 if tier == "quick" else 50)
    n = len(U)
    head = var_defs(U)
    index_of = {s: i for i, (s, _) in enumerate(U)}
    failing = []   # (case_text, payload, tags)

    # ---- (0) regression cases (inputs of the repaired findings), run first ----------------------
    wit_bodies, wit_ix = [], []
    for tag, exprs in REGRESSIONS:
        for k, (e, _) in enumerate(exprs):
            wit_ix.append((tag, k))
            wit_bodies.append(f"v: {e}")
    wres = run_batched(pool, PRELUDE, wit_bodies)
    for (tag, k), i in zip(wit_ix, range(len(wit_bodies))):
        r = wres[i]
        got = r.get("v") if isinstance(r, dict) else str(r)
        e, want = dict((t, x) for t, x in REGRESSIONS)[tag][k]
        ck.count(("regression", tag, e), True)
        ck.hist(f"regression:{tag}:{'ok' if got == want else 'REGRESSED'}")
        if got != want:
            failing.append((f"x {{ v: {e} }}", {"regression_of": tag, "expression": e, "impl_observation": got,
                                                "expected_by_property": want}, []))

    log(f"[C09] witnesses done {__import__('time').time()-ck.t0:.0f}s")
    # ---- (1) all ordered pairs -----------------------------------------------------------------
    pairs = [(index_of[a], index_of[b]) for a, b in CORPUS if a in index_of and b in index_of]
    seen = set(pairs)
    pairs += [(i, j) for i in range(n) for j in range(n) if (i, j) not in seen]
    bodies = [(f"e: $v{i} == $v{j}; n: $v{i} != $v{j}; g: inspect(map-get(($v{i}: 1), $v{j})); "
               f"h: map-has-key(($v{i}: 1), $v{j}); r: length(map-remove(($v{i}: 1), $v{j})); "
               f"m: length(map-merge(($v{i}: 1), ($v{j}: 2))); x: inspect(index(($v{i},), $v{j})); "
               f"h0: map-has-key(($v{i}: null), $v{j}); k0: inspect(index(map-keys(($v{i}: null)), $v{j}))")
              for i, j in pairs]
    pres = run_batched(pool, head, bodies)
    lines = [f"value pairobs now {enc(U[i][1])} {enc(U[j][1])}" for i, j in pairs]
    mouts = driver(lines)
    impl_eq = [[False] * n for _ in range(n)]
    model_eq = [[False] * n for _ in range(n)]
    obs = {}
    extra = {}
    for idx, ((i, j), mo) in enumerate(zip(pairs, mouts)):
        r = pres[idx]
        case = f"{U[i][0]}  vs  {U[j][0]}"
        mt = mo.split(" ")
        if mt[0] != "ok":
            ck.cov["unsupported_dropped"] += 1
            continue
        m_obs = mt[1:9]
        model_eq[i][j] = m_obs[0] == "1"
        if not isinstance(r, dict):
            failing.append((case, {"pair": case, "impl_observation": str(r),
                                   "expected_by_property": "every pair evaluates without error"}, []))
            continue
        try:
            i_obs = [b01(r["e"] == "true"), b01(r["n"] == "true"), b01(r["g"] != "null"), b01(r["h"] == "true"),
                     b01(r["r"] == "0"), r["m"], None, "none" if r["x"] == "null" else str(int(r["x"]) - 1)]
        except (KeyError, ValueError):
            failing.append((case, {"pair": case, "impl_observation": r}, []))
            continue
        impl_eq[i][j] = i_obs[0] == "1"
        obs[(i, j)] = (i_obs, m_obs)
        extra[(i, j)] = (r.get("h0"), r.get("k0"))
    # map literals: pairs grass calls unequal go into batches (must not be rejected), the others one per job
    lit_pairs = [p for p in pairs if p in obs]
    uneq = [p for p in lit_pairs if not impl_eq[p[0]][p[1]]]
    eqs = [p for p in lit_pairs if impl_eq[p[0]][p[1]]]
    lres = run_batched(pool, head, [f"d: length(($v{i}: 1, $v{j}: 2))" for i, j in uneq])
    for idx, p in enumerate(uneq):
        r = lres[idx]
        obs[p][0][6] = "0" if isinstance(r, dict) and r.get("d") == "2" else ("1" if not isinstance(r, dict) and "Duplicate key" in str(r[2]) else "?")
    ejobs = [compile_job(head + f"x{{d: length(($v{i}: 1, $v{j}: 2))}}", syntax="scss") for i, j in eqs]
    for p, ans in zip(eqs, pool.map(ejobs, timeout=30)):
        msg = (ans.get("err") or {}).get("message") or ""
        obs[p][0][6] = "1" if ans.get("status") == "err" and "Duplicate key" in msg else ("0" if ans.get("status") == "ok" else "?")
    # TIE + DIRECT per pair
    law_lines, law_ix = [], []
    for p in lit_pairs:
        i_obs, m_obs = obs[p]
        i, j = p
        case = f"{U[i][0]}  vs  {U[j][0]}"
        fam = family
        nontrivial = fam(U[i][1]) == fam(U[j][1]) or i_obs[0] == "1" or m_obs[0] == "1"
        ck.count(("pair", U[i][0], U[j][0]), nontrivial)
        ck.hist(f"pair:{fam(U[i][1])}-{fam(U[j][1])}")
        ck.hist("pair:eq" if i_obs[0] == "1" else "pair:ne")
        if (i * n + j) % 701 == 0:
            ck.sample({"pair": case, "impl": i_obs, "model": m_obs})
        if [str(x) for x in i_obs] != m_obs:
            disagree("pair", case, m_obs, i_obs)
        if "?" in i_obs:
            failing.append((case, {"pair": case, "impl_observation": i_obs,
                                   "expected_by_property": "a map literal is either accepted or rejected as Duplicate key"}, []))
            continue
        law_lines.append("value pairlaw " + " ".join(str(x) for x in i_obs))
        law_ix.append(p)
        # the same predicate with `map-has-key` observed on a map whose VALUE is null, and the direct law
        # has-key(m, k) <=> some key of map-keys(m) is == k (grass's own index() over map-keys)
        h0, k0 = extra[p]
        o2 = list(i_obs)
        o2[3] = b01(h0 == "true")
        law_lines.append("value pairlaw " + " ".join(str(x) for x in o2))
        law_ix.append(p)
        if h0 not in ("true", "false") or (h0 == "true") != (k0 not in (None, "null")):
            failing.append((f"x {{ h: map-has-key(({U[i][0]}: null), {U[j][0]}); k: index(map-keys(({U[i][0]}: null)), {U[j][0]}) }}",
                            {"law": "map-has-key(m, k) <=> some key of map-keys(m) is == k", "map": f"({U[i][0]}: null)",
                             "probe": U[j][0], "has-key": h0, "index(map-keys)": k0}, []))

    for p, verdict in zip(law_ix, driver(law_lines)):
        if verdict == "ok holds":
            continue
        i, j = p
        i_obs, m_obs = obs[p]
        case = f"{U[i][0]}  vs  {U[j][0]}"
        clauses = verdict.replace("ok fails ", "").split(",")
        tags = []
        ck.hist("pairlaw-fails:" + "+".join(clauses))
        failing.append((case, {"pair": case, "failed_clauses": clauses, "impl_observation": i_obs,
                               "model_observation": m_obs, "expected_by_property":
                               "!= negates ==; map-get/has-key/remove/merge/literal and index find an entry exactly when the key/element == the probe"},
                        tags))

    log(f"[C09] pairs done {__import__('time').time()-ck.t0:.0f}s")
    # ---- (2) the equivalence laws on grass's own == matrix (all triples) ------------------------
    mat = ".".join("".join(b01(x) for x in row) for row in impl_eq)
    dom = "".join(b01(not has_nan(U[i][1])) for i in range(n))
    l1, l2 = driver([f"value laws {n} {mat} {dom}", f"value lawsall {n} {mat}"])
    ck.count(("laws", n), True)
    ck.cov["evaluations"] += n ** 3
    ck.hist("triples-through-matrix", n ** 3)
    m = re.match(r"ok refl:(\S+) symm:(\S+) trans:(\S+)$", l1)
    if not m:
        ck.cov["unsupported_dropped"] += 1
    elif m.group(1) != "ok":
        i = int(m.group(1))
        failing.append((f"{U[i][0]} == {U[i][0]}", {"law": "reflexive", "value": U[i][0]}, []))
    ma = re.match(r"ok symm (\d+) \[(.*?)\] trans (\d+) \[(.*?)\]$", l2)
    if ma:
        ck.hist("symm-violations", int(ma.group(1)))
        ck.hist("trans-violations", int(ma.group(3)))
        for s in filter(None, ma.group(2).split(";")):
            i, j = map(int, s.split(","))
            failing.append((f"{U[i][0]} == {U[j][0]} vs reverse", {"law": "symmetric", "a": U[i][0], "b": U[j][0],
                            "a==b": impl_eq[i][j], "b==a": impl_eq[j][i]}, []))
        for s in filter(None, ma.group(4).split(";")):
            i, j, k = map(int, s.split(","))
            failing.append((f"{U[i][0]} == {U[j][0]} == {U[k][0]}",
                            {"law": "transitive", "a": U[i][0], "b": U[j][0], "c": U[k][0],
                             "expected_by_property": "a==b and b==c imply a==c"}, []))
    else:
        failing.append(("law checker", {"driver_answer": l2[:300]}, []))
    if m and (m.group(2) != "ok" or m.group(3) != "ok") and not (ma and (int(ma.group(1)) or int(ma.group(3)))):
        failing.append(("law checker", {"driver_answer": l1}, []))
    # != must be the negation of == on grass's own answers, for every ordered pair (also evaluated
    # per pair by the Lean predicate `pairAgrees`, clause "ne")
    impl_ne_bad = [(i, j) for (i, j), (i_obs, _) in obs.items() if (i_obs[1] == "1") == (i_obs[0] == "1")]
    ck.hist("ne-is-not-negation", len(impl_ne_bad))
    for i, j in impl_ne_bad[:20]:
        failing.append((f"x {{ e: {U[i][0]} == {U[j][0]}; n: {U[i][0]} != {U[j][0]} }}",
                        {"law": "!= negates ==", "a": U[i][0], "b": U[j][0], "a==b": obs[(i, j)][0][0],
                         "a!=b": obs[(i, j)][0][1]}, []))

    log(f"[C09] laws done {__import__('time').time()-ck.t0:.0f}s")
    # ---- (3) sampled / all triples evaluated by grass itself -------------------------------------
    if tier == "thorough":
        triples = list(itertools.product(range(n), repeat=3))
    else:
        triples = [(ck.rng.randrange(n), ck.rng.randrange(n), ck.rng.randrange(n)) for _ in range(20000)]
        # bias a third of them towards triples with at least one equal pair
        eqp = [(i, j) for i in range(n) for j in range(n) if i != j and impl_eq[i][j]]
        for _ in range(10000):
            i, j = ck.rng.choice(eqp)
            triples.append((i, j, ck.rng.randrange(n)))
    tb = [(f"t: ($v{a} == $v{b}) and ($v{b} == $v{c}) and not ($v{a} == $v{c}); "
           f"u: ($v{a} != $v{c}) == not ($v{a} == $v{c})") for a, b, c in triples]
    tres = run_batched(pool, head, tb, size=1000, timeout=120)
    for idx, (a, b, c) in enumerate(triples):
        r = tres[idx]
        ck.cov["evaluations"] += 1
        expect = impl_eq[a][b] and impl_eq[b][c] and not impl_eq[a][c]
        got = r.get("t") if isinstance(r, dict) else str(r)
        if got != ("true" if expect else "false"):
            failing.append((f"triple {U[a][0]}, {U[b][0]}, {U[c][0]}",
                            {"what": "== is not a function of its operands (matrix and direct evaluation differ)",
                             "direct": got, "from_matrix": expect}, []))
        gu = r.get("u") if isinstance(r, dict) else str(r)
        if gu != "true":
            failing.append((f"x {{ e: {U[a][0]} == {U[c][0]}; n: {U[a][0]} != {U[c][0]} }}",
                            {"law": "!= negates ==", "a": U[a][0], "b": U[c][0], "(a != b) == not (a == b)": gu}, []))
    ck.hist("triples-by-grass", len(triples))

    log(f"[C09] triples done {__import__('time').time()-ck.t0:.0f}s")
    # ---- (4) index() over the whole universe ----------------------------------------------------
    ulist = "(" + ", ".join(f"$v{i}" for i in range(n)) + ")"
    ires = run_batched(pool, head + f"$U: {ulist};\n", [f"x: inspect(index($U, $v{j}))" for j in range(n)])
    ilines = [f"value index now {n} " + " ".join(enc(t) for _, t in U) + " " + enc(U[j][1]) for j in range(n)]
    ilines += ["value first " + "".join(b01(impl_eq[i][j]) for i in range(n)) for j in range(n)]
    iouts = driver(ilines)
    for j in range(n):
        r = ires[j]
        got = "?" if not isinstance(r, dict) else ("none" if r.get("x") == "null" else str(int(r["x"]) - 1))
        model, direct = iouts[j].replace("ok ", ""), iouts[n + j].replace("ok ", "")
        ck.count(("index", U[j][0]), True)
        if got != model:
            disagree("index", f"index(universe, {U[j][0]})", model, got)
        if got != direct:
            failing.append((f"index(universe, {U[j][0]})", {"impl_observation": got, "first_equal_by_grass_==": direct,
                            "expected_by_property": "index() returns the first position whose element == the probe"}, []))

    log(f"[C09] index done {__import__('time').time()-ck.t0:.0f}s")
    # ---- (4x) the extended universe (compound units, calculations, function references) ---------
    ext_section(ck, pool, failing, disagree)
    hash_probe(ck)
    log(f"[C09] extended universe done {__import__('time').time()-ck.t0:.0f}s")
    # ---- (5) random sequences of map operations through inspect() --------------------------------
    keys, vals, ptext = op_pool()
    kk = [k for k in keys]
    eql = driver([f"value eq now {enc(a[1])} {enc(b[1])}" for a in kk for b in kk])
    eqtab = {}
    for (a, b), o in zip([(a, b) for a in kk for b in kk], eql):
        eqtab[(enc(a[1]), enc(b[1]))] = o.split(" ")[1] == "1"
    eqkey = lambda x, y: eqtab[(enc(x), enc(y))]
    nseq = 4000 if tier == "quick" else 40000
    seqs = [gen_sequence(ck.rng, keys, vals, eqkey) for _ in range(nseq)]
    sb, sl = [], []
    for start, ops, probe in seqs:
        body = f"$m: {lit_text(start)}; s0: ks($m); "
        line = f"value ops now {enc(lit_tree(start))}"
        for step, op in enumerate(ops, 1):
            if op[0] == "set":
                body += f"$m: map.set($m, {op[1][0]}, {op[2][0]}); "
                line += f" set {enc(op[1][1])} {enc(op[2][1])}"
            elif op[0] == "merge":
                body += f"$m: map-merge($m, {lit_text(op[1])}); "
                line += f" merge {enc(lit_tree(op[1]))}"
            else:
                body += f"$m: map-remove($m, {op[1][0]}); "
                line += f" remove {enc(op[1][1])}"
            body += f"s{step}: ks($m); "
        body += (f"v: inspect($m); k: inspect(map-keys($m)); w: inspect(map-values($m)); e: ks($m); n: length($m); "
                 f"g: inspect(map-get($m, {probe[0]})); h: map-has-key($m, {probe[0]}); "
                 f"hk: inspect(index(map-keys($m), {probe[0]}))")
        sb.append(body)
        sl.append(line)
    sres = run_batched(pool, PRELUDE, sb, size=100)
    souts = driver(sl)
    houts = driver([l.replace("value ops now ", "value keyshist now ", 1) for l in sl])
    # DIRECT: every single operation keeps the order of the keys it leaves (Lean predicate `orderKept`
    # on grass's own key sequences before / after the operation)
    order_lines, order_ix = [], []
    hx = lambda t: ",".join(hexs(x) for x in t[1:].split("|")[:-1]) or "-"
    for idx, (start, ops, probe) in enumerate(seqs):
        r = sres[idx]
        if not isinstance(r, dict):
            continue
        for step, op in enumerate(ops, 1):
            b, a = r.get(f"s{step - 1}"), r.get(f"s{step}")
            if b is None or a is None:
                continue
            order_lines.append(f"value orderlaw {'remove' if op[0] == 'remove' else 'grow'} {hx(b)} {hx(a)}")
            order_ix.append((idx, step, op[0], b, a))
    for (idx, step, kind, b, a), verdict in zip(order_ix, driver(order_lines)):
        ck.cov["evaluations"] += 1
        if verdict != "ok holds":
            ck.hist("orderlaw-fails:" + kind)
            failing.append((sb[idx], {"sequence": sb[idx], "step": step, "operation": kind, "keys_before": b,
                                      "keys_after": a, "verdict": verdict, "expected_by_property":
                                      "merging or removing never disturbs the order of the remaining keys"}, []))
    for idx, ((start, ops, probe), mo) in enumerate(zip(seqs, souts)):
        r = sres[idx]
        if not mo.startswith("ok "):
            ck.cov["unsupported_dropped"] += 1
            continue
        mtree, _ = dec_tokens(mo.split(" ")[1:])
        hit = any((op[0] == "set" and any(eqkey(op[1][1], k[1]) for k, _ in start)) or op[0] == "remove" for op in ops)
        ck.count(("ops", sb[idx]), hit)
        ck.hist(f"ops:len={len(ops)}")
        for op in ops:
            ck.hist("op:" + op[0])
        if not isinstance(r, dict):
            failing.append((sb[idx], {"sequence": sb[idx], "impl_observation": str(r),
                                      "expected_by_property": "map operations on well-formed maps do not fail"}, []))
            continue
        want_v = render(mtree, ptext)
        mkeys = [k for k, _ in mtree[1]]
        want_e = "K" + "".join(render(k, ptext) + "|" for k in mkeys)
        want_k = render(("list", mkeys, "comma", False), ptext)
        if idx % 397 == 0:
            ck.sample({"sequence": sb[idx], "impl": r.get("v"), "model": want_v})
        want_w = render(("list", [x for _, x in mtree[1]], "comma", False), ptext)
        hit_vals = [x for k, x in mtree[1] if eqkey(k, probe[1])]
        want_h = "true" if hit_vals else "false"
        want_g = render(hit_vals[0], ptext) if hit_vals else "null"
        ck.hist("ops:probe-" + ("hits-null" if hit_vals and hit_vals[0] == ("null",) else "hits" if hit_vals else "misses"))
        got = {"inspect": r.get("v"), "each": r.get("e"), "keys": r.get("k"), "values": r.get("w"),
               "has-key": r.get("h"), "get": r.get("g")}
        want = {"inspect": want_v, "each": want_e, "keys": want_k, "values": want_w, "has-key": want_h, "get": want_g}
        # DIRECT (no model): has-key(m, k) <=> some key of map-keys(m) is == k
        if (r.get("h") == "true") != (r.get("hk") not in (None, "null")) or r.get("h") not in ("true", "false"):
            failing.append((sb[idx], {"sequence": sb[idx], "law": "map-has-key(m, k) <=> some key of map-keys(m) is == k",
                                      "has-key": r.get("h"), "index(map-keys)": r.get("hk"), "probe": probe[0]}, []))
        if got != want:
            disagree("map-ops", sb[idx], want, got)
        # the key order computed from the key history alone (Lean `keysHist`, theorem C09_map_order_history)
        # against all four observers of grass: @each, map-keys, inspect (keys of the rendered map), length
        ho = houts[idx]
        if not ho.startswith("ok "):
            ck.cov["unsupported_dropped"] += 1
        else:
            hkeys = dec_tokens(ho.split(" ")[1:])[0][1]
            hist_e = "K" + "".join(render(k, ptext) + "|" for k in hkeys)
            hist_k = render(("list", hkeys, "comma", False), ptext)
            ck.hist(f"keyshist:len={len(hkeys)}")
            if (hist_e, hist_k, str(len(hkeys))) != (r.get("e"), r.get("k"), r.get("n")):
                disagree("keys-history", sb[idx], {"each": hist_e, "keys": hist_k, "n": len(hkeys)},
                         {"each": r.get("e"), "keys": r.get("k"), "n": r.get("n")})
        # DIRECT: @each, map-keys, length agree on the number of entries; the probe is found only if has-key
        if (r.get("g") != "null") and r.get("h") != "true":
            failing.append((sb[idx], {"sequence": sb[idx], "impl_observation": r,
                                      "expected_by_property": "map-get finds a value only for a key map-has-key reports"}, []))
        if str(r.get("e", "")).count("|") != int(r.get("n", "-1")):
            failing.append((sb[idx], {"sequence": sb[idx], "impl_observation": r,
                                      "expected_by_property": "@each visits exactly length($map) entries"}, []))

    log(f"[C09] ops done {__import__('time').time()-ck.t0:.0f}s")
    # ---- verdicts --------------------------------------------------------------------------------
    failing.sort(key=lambda f: len(f[0]))
    reported = 0
    for case, payload, tags in failing:
        payload = dict(payload)
        payload["case"] = case
        if ck.impl_violation(case, payload, tags=tags):
            reported += 1
    if ck.cov["model_disagreements"] and not reported:
        ck.unproved("correspondence-broken", {"correspondence": "Grass.Value (Sw.now) vs grass", "cases": disagreements})
    return ck.finish()


def replay(path):
    r = json.load(open(path))
    print(json.dumps(r, indent=1)[:4000])
    ck = Check("C09", "quick", 0)
    if not ck.do_build_runner():
        return 1
    pool = RunnerPool(1)
    U = universe()
    head = var_defs(U)
    if "pair" in r or "a" in r:
        names = [r.get("a"), r.get("b"), r.get("c")] if "a" in r else [x.strip() for x in r["pair"].split("  vs  ")]
        names = [x for x in names if x]
        body = "; ".join(f"e{i}{j}: ({a}) == ({b})" for i, a in enumerate(names) for j, b in enumerate(names))
        ans = pool.map([compile_job(PRELUDE + "x{" + body + "}", syntax="scss")])[0]
        print("grass now:", ans.get("status"), ans.get("css") or ans.get("err"))
    elif "sequence" in r:
        ans = pool.map([compile_job(PRELUDE + "x{" + r["sequence"] + "}", syntax="scss")])[0]
        print("grass now:", ans.get("status"), ans.get("css") or ans.get("err"))
    return 0
