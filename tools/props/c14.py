"""C14 — list, map and string built-ins implement their documented semantics.

(a) PROOF   GrassProofs/C14.lean about the model Grass/Builtins.lean
(b) TIE     (round 3: calls with named arguments through `blt callN`, compared under the global name, the member name and
            the all-positional spelling; the model's dispatch tables checked against the names called here)
            every generated call is evaluated by real grass (under its global name AND under its
            sass:list / sass:map / sass:string member name) and by the model of the code as it
            stands (`Sw.now`); the observations {inspect text, type-of, list-separator,
            is-bracketed, length} must agree
(c) DIRECT  the laws the theorems state are evaluated by the Lean driver (`blt law …`) on grass's
            own answers; and every call on which the model of the code before the repairs of
            K14a–K14d (`Sw.beforeFix`) differs from `Sw.now` while grass sides with the old
            behaviour is a failure of the documented semantics (a regression; no known finding
            covers it any more).  A named call that the documented variant (`strict`) rejects for its
            names and grass accepts is the known finding K14e-named-unchecked.
"""
import json
import re
from fractions import Fraction

from vlib import Check, RunnerPool, compile_job, driver, log, hexs, unhex

PRELUDE = ('@use "sass:list";\n@use "sass:map";\n@use "sass:string";\n'
           '@function a($args...) { @return $args; }\n'
           '@function ismap($v) { @return type-of($v) == map or (type-of($v) == list and length($v) == 0); }\n')

# ----------------------------------------------------------------------------------------------
# value trees
#   ('null',) ('bool', b) ('num', Fraction, unit) ('str', text, quoted)
#   ('list', [v…], sep, bracketed)   sep in comma|space|slash|undecided
#   ('map', [(k, v)…])  ('arglist', [v…][, sep[, 'br']])   sep (default comma) = separator of the list spread into it
#   ('emptymap',) is written `map-remove((k: 1), k)` in source and is ('map', []) for the model
# ----------------------------------------------------------------------------------------------
NULL = ('null',)
TRUE = ('bool', True)
FALSE = ('bool', False)


def num(x, unit=''):
    return ('num', Fraction(x), unit)


def ustr(s):
    return ('str', s, False)


def qstr(s):
    return ('str', s, True)


def lst(es, sep='space', br=False):
    return ('list', list(es), sep, br)


def dec_str(fr):
    """exact decimal text of a Fraction with a power-of-ten-compatible denominator"""
    if fr.denominator == 1:
        return str(fr.numerator)
    sign = '-' if fr < 0 else ''
    fr = abs(fr)
    for k in range(1, 20):
        if (fr * 10 ** k).denominator == 1:
            digits = str((fr * 10 ** k).numerator).rjust(k + 1, '0')
            return sign + digits[:-k] + '.' + digits[-k:]
    raise ValueError(fr)


def q_src(s):
    out = []
    for ch in s:
        if ch in '"\\':
            out.append('\\' + ch)
        elif ch == '#':
            out.append('\\#')
        else:
            out.append(ch)
    return '"' + ''.join(out) + '"'


def src(v, top=False):
    """SCSS source text of a value (always usable as one function argument)"""
    k = v[0]
    if k == 'null':
        return 'null'
    if k == 'bool':
        return 'true' if v[1] else 'false'
    if k == 'num':
        return v[3] if len(v) > 3 else dec_str(v[1]) + v[2]
    if k == 'str':
        return q_src(v[1]) if v[2] else v[1]
    if k == 'list':
        es, sep, br = v[1], v[2], v[3]
        inner = [src(e) for e in es]
        if sep == 'slash':
            assert len(es) >= 2 and not br
            return 'list.slash(' + ', '.join(inner) + ')'
        if br:
            if sep == 'comma':
                return '[' + ', '.join(inner) + (',' if len(es) == 1 else '') + ']'
            assert sep == 'space' and len(es) >= 2 or sep == 'undecided' and len(es) <= 1
            return '[' + ' '.join(inner) + ']'
        if not es:
            assert sep == 'undecided'
            return '()'
        if sep == 'comma':
            return '(' + ', '.join(inner) + (',' if len(es) == 1 else '') + ')'
        assert sep == 'space' and len(es) >= 2, v
        return '(' + ' '.join(inner) + ')'
    if k == 'map':
        if not v[1]:
            return 'map-remove((k: 1), k)'
        return '(' + ', '.join(src(a) + ': ' + src(b) for a, b in v[1]) + ')'
    if k == 'arglist':
        return arglist_src(v, src)
    raise ValueError(v)


def asep(v):
    return v[2] if len(v) > 2 else 'comma'


def arglist_src(v, sub):
    """`a(1, 2)` is a comma argument list; `a((1 2)...)`, `a([1 2]...)`, `a(list.slash(1, 2)...)` carry the
    separator of the list spread into them (an empty or one-element spread gives comma)"""
    inner = [sub(e) for e in v[1]]
    if any(x is None for x in inner):
        return None
    sep = asep(v)
    if sep == 'comma':
        return 'a(' + ', '.join(inner) + ')'
    if len(inner) < 2:
        raise ValueError(v)
    if sep == 'space':
        return ('a([' + ' '.join(inner) + ']...)') if (len(v) > 3 and v[3] == 'br') else ('a((' + ' '.join(inner) + ')...)')
    if sep == 'slash':
        return 'a(list.slash(' + ', '.join(inner) + ')...)'
    raise ValueError(v)


def rat_s(fr):
    return str(fr.numerator) if fr.denominator == 1 else f"{fr.numerator}/{fr.denominator}"


def enc(v):
    """tokens of Grass.Value.parseV"""
    k = v[0]
    if k == 'null':
        return 'N'
    if k == 'bool':
        return 'T' if v[1] else 'F'
    if k == 'num':
        return f"n {rat_s(v[1])} {v[2] or '-'}"
    if k == 'str':
        return f"s {1 if v[2] else 0} {hexs(v[1])}"
    if k == 'list':
        return f"l {v[2]} {1 if v[3] else 0} {len(v[1])}" + ''.join(' ' + enc(e) for e in v[1])
    if k == 'map':
        return f"m {len(v[1])}" + ''.join(' ' + enc(a) + ' ' + enc(b) for a, b in v[1])
    if k == 'arglist':
        return f"a {asep(v)} {len(v[1])}" + ''.join(' ' + enc(e) for e in v[1]) + ' 0'
    raise ValueError(v)


def dec(toks, i=0):
    """decode Grass.Value.encV"""
    t = toks[i]
    if t == 'N':
        return NULL, i + 1
    if t == 'T':
        return TRUE, i + 1
    if t == 'F':
        return FALSE, i + 1
    if t == 'n':
        return ('num', Fraction(toks[i + 1]), '' if toks[i + 2] == '-' else toks[i + 2]), i + 3
    if t == 's':
        return ('str', unhex(toks[i + 2]), toks[i + 1] == '1'), i + 3
    if t == 'l':
        sep, br, n = toks[i + 1], toks[i + 2] == '1', int(toks[i + 3])
        i += 4
        es = []
        for _ in range(n):
            e, i = dec(toks, i)
            es.append(e)
        return ('list', es, sep, br), i
    if t == 'm':
        n = int(toks[i + 1])
        i += 2
        ps = []
        for _ in range(n):
            a, i = dec(toks, i)
            b, i = dec(toks, i)
            ps.append((a, b))
        return ('map', ps), i
    if t == 'a':
        i0 = i
        n = int(toks[i + 2])
        i += 3
        es = []
        for _ in range(n):
            e, i = dec(toks, i)
            es.append(e)
        j = int(toks[i])
        i += 1
        for _ in range(j):
            _, i = dec(toks, i)
            _, i = dec(toks, i)
        return ('arglist', es, toks[i0 + 1]), i
    raise ValueError(toks[i:i + 4])


# ----------------------------------------------------------------------------------------------
# the implementation's printer, re-implemented (serializer.rs:670–960, expanded style, inspect)
# ----------------------------------------------------------------------------------------------
def fmt_num(fr):
    neg = fr < 0
    a = abs(fr)
    scaled = a * 10 ** 10
    n = scaled.numerator // scaled.denominator
    rem = scaled - n
    if rem > Fraction(1, 2) or (rem == Fraction(1, 2) and n % 2 == 1):
        n += 1
    s = str(n).rjust(11, '0')
    s = (s[:-10] + '.' + s[-10:]).rstrip('0').rstrip('.')
    if neg:
        s = '-' + s
    if s in ('', '-', '-0'):
        s = '0'
    return s


def needs_parens(sep, e):
    if e[0] != 'list':
        return False
    if len(e[1]) < 2 or e[3]:
        return False
    if sep == 'comma':
        return e[2] == 'comma'
    if sep == 'slash':
        return e[2] in ('comma', 'slash')
    return e[2] != 'undecided'


def quoted_text(s, force=False):
    has_s = has_d = False
    buf = ['"'] if force else []
    for ch in s:
        if ch == "'":
            if force:
                buf.append("'")
            elif has_d:
                return quoted_text(s, True)
            else:
                has_s = True
                buf.append("'")
        elif ch == '"':
            if force:
                buf.append('\\"')
            elif has_s:
                return quoted_text(s, True)
            else:
                has_d = True
                buf.append('"')
        elif ch == '\\':
            buf.append('\\\\')
        else:
            buf.append(ch)
    if force:
        return ''.join(buf) + '"'
    q = "'" if has_d else '"'
    return q + ''.join(buf) + q


SEP_TXT = {'space': ' ', 'undecided': ' ', 'comma': ', ', 'slash': ' / '}


def show_list(es, sep, br):
    if not br and not es:
        return '()'
    single = len(es) == 1 and sep in ('comma', 'slash')
    out = '[' if br else ('(' if single else '')
    parts = []
    for e in es:
        t = show(e)
        parts.append('(' + t + ')' if needs_parens(sep, e) else t)
    out += SEP_TXT[sep].join(parts)
    if single:
        out += ',' if sep == 'comma' else '/'
        if not br:
            out += ')'
    if br:
        out += ']'
    return out


def show(v):
    k = v[0]
    if k == 'null':
        return 'null'
    if k == 'bool':
        return 'true' if v[1] else 'false'
    if k == 'num':
        return fmt_num(v[1]) + v[2]
    if k == 'str':
        return quoted_text(v[1]) if v[2] else v[1]
    if k == 'list':
        return show_list(v[1], v[2], v[3])
    if k == 'arglist':
        return show_list(v[1], asep(v), False)
    if k == 'map':
        def el(x):
            t = show(x)
            return '(' + t + ')' if x[0] == 'list' and x[2] == 'comma' and not x[3] else t
        return '(' + ', '.join(el(a) + ': ' + el(b) for a, b in v[1]) + ')'
    raise ValueError(v)


def type_of(v):
    return {'null': 'null', 'bool': 'bool', 'num': 'number', 'str': 'string', 'list': 'list', 'map': 'map',
            'arglist': 'arglist'}[v[0]]


def as_list(v):
    if v[0] in ('list', 'arglist'):
        return v[1]
    if v[0] == 'map':
        return [lst([a, b]) for a, b in v[1]]
    return [v]


def pins(v):
    """what type-of / list-separator / is-bracketed / length answer for a value (value/mod.rs:435–450)"""
    if v[0] == 'list':
        sep = 'space' if v[2] == 'undecided' else v[2]
    elif v[0] == 'arglist':
        sep = 'space' if asep(v) == 'undecided' else asep(v)
    elif v[0] == 'map':
        sep = 'comma'
    else:
        sep = 'space'
    return {'t': type_of(v), 's': sep, 'b': 'true' if v[0] == 'list' and v[3] else 'false',
            'n': str(len(as_list(v)))}


_NUM = re.compile(r'(?<![\w.])-?\d+(?:\.\d+)?')


def text_eq(a, b):
    """equal up to 1e-10 on the decimal numbers occurring in the two texts (exact rational compare)"""
    if a == b:
        return True
    pa, pb = _NUM.split(a), _NUM.split(b)
    if pa != pb:
        return False
    na, nb = _NUM.findall(a), _NUM.findall(b)
    return len(na) == len(nb) and all(abs(Fraction(x) - Fraction(y)) <= Fraction(1, 10 ** 10) for x, y in zip(na, nb))


# ----------------------------------------------------------------------------------------------
# parser of inspect() text → value tree (used to hand grass's own answers to the Lean predicates)
# quotient: an unbracketed 1-element space list is its element, an argument list is a comma list,
# an empty map is `()`; the top level is repaired from the type-of/separator/bracket/length pins.
# ----------------------------------------------------------------------------------------------
class ParseError(Exception):
    pass


_RX_NUM = re.compile(r'-?\d+(?:\.\d+)?')
_RX_UNIT = re.compile(r'%|[A-Za-z]+')
_RX_WORD = re.compile(r'[^\s,()\[\]:/"\']+')


class P:
    """recursive descent over inspect() text.  Each list level returns (value, formed): `formed` says
    that a list was built at this level (two or more items, or a trailing separator)."""

    def __init__(self, s):
        self.s, self.i = s, 0

    def peek(self, k=1):
        return self.s[self.i:self.i + k]

    def eof(self):
        return self.i >= len(self.s)

    def at_end(self, closers):
        return self.eof() or self.peek() in closers

    def comma_list(self, closers):
        first, formed = self.slash_list(closers + ',')
        items = [first]
        trailing = False
        while self.peek() == ',':
            self.i += 1
            if self.peek() == ' ':
                self.i += 1
            if self.at_end(closers):
                trailing = True
                break
            items.append(self.slash_list(closers + ',')[0])
        if len(items) == 1 and not trailing:
            return first, formed
        return lst(items, 'comma'), True

    def slash_list(self, closers):
        first, formed = self.space_list(closers)
        items = [first]
        trailing = False
        while True:
            if self.peek(3) == ' / ':
                self.i += 3
                items.append(self.space_list(closers)[0])
            elif self.peek() == '/' and (self.i + 1 >= len(self.s) or self.s[self.i + 1] in closers):
                self.i += 1
                trailing = True
                break
            else:
                break
        if len(items) == 1 and not trailing:
            return first, formed
        return lst(items, 'slash'), True

    def space_list(self, closers):
        items = [self.atom()]
        while (self.peek() == ' ' and self.peek(3) != ' / ' and self.i + 1 < len(self.s)
               and self.s[self.i + 1] not in closers):
            self.i += 1
            items.append(self.atom())
        if len(items) == 1:
            return items[0], False
        return lst(items, 'space'), True

    def atom(self):
        c = self.peek()
        if c == '(':
            self.i += 1
            if self.peek() == ')':
                self.i += 1
                return lst([], 'undecided')
            first, _ = self.comma_list('):')       # stops at ':' when this is a map
            if self.peek() == ':':
                pairs, key = [], first
                while True:
                    if self.peek(2) != ': ':
                        raise ParseError(f"expected ': ' at {self.i} in {self.s!r}")
                    self.i += 2
                    val, _ = self.slash_list(',)')
                    pairs.append((key, val))
                    if self.peek(2) == ', ':
                        self.i += 2
                        key, _ = self.slash_list(':')
                        continue
                    break
                self.expect(')')
                return ('map', pairs)
            self.expect(')')
            return first
        if c == '[':
            self.i += 1
            if self.peek() == ']':
                self.i += 1
                return lst([], 'undecided', True)
            inner, formed = self.comma_list(']')
            self.expect(']')
            if formed:
                return ('list', inner[1], inner[2], True)
            return lst([inner], 'undecided', True)
        if c in '"\'':
            return self.quoted(c)
        m = _RX_NUM.match(self.s, self.i)
        if m:
            self.i = m.end()
            u = _RX_UNIT.match(self.s, self.i)
            unit = ''
            if u:
                unit = u.group(0)
                self.i = u.end()
            return ('num', Fraction(m.group(0)), unit)
        m = _RX_WORD.match(self.s, self.i)
        if not m:
            raise ParseError(f"unexpected {self.s[self.i:self.i + 10]!r} in {self.s!r}")
        self.i = m.end()
        w = m.group(0)
        if w == 'null':
            return NULL
        if w == 'true':
            return TRUE
        if w == 'false':
            return FALSE
        return ustr(w)

    def expect(self, ch):
        if self.peek() != ch:
            raise ParseError(f"expected {ch!r} at {self.i} in {self.s!r}")
        self.i += 1

    def quoted(self, q):
        self.i += 1
        out = []
        while True:
            if self.eof():
                raise ParseError("unterminated string")
            c = self.s[self.i]
            if c == '\\':
                out.append(self.s[self.i + 1])
                self.i += 2
            elif c == q:
                self.i += 1
                return qstr(''.join(out))
            else:
                out.append(c)
                self.i += 1


def parse_inspect(text):
    p = P(text)
    v, _ = p.comma_list('')
    if not p.eof():
        raise ParseError(f"trailing {text[p.i:]!r} in {text!r}")
    return v


def obs_value(o):
    """value tree of an observation {v,t,s,b,n} (None if it cannot be rebuilt)"""
    t, text = o.get('t'), o.get('v', '')
    try:
        if t == 'string':
            if text[:1] in ('"', "'"):
                v = parse_inspect(text)
                return v if v[0] == 'str' else None
            return ustr(text)
        v = parse_inspect(text)
    except (ParseError, AssertionError, IndexError):
        return None
    n, s, b = int(o['n']), o['s'], o['b'] == 'true'
    if t == 'map':
        if v[0] == 'map':
            return v
        return ('map', []) if n == 0 else None
    if t == 'arglist':
        if v[0] == 'list' and v[2] == s and not v[3] and len(v[1]) == n:
            return ('arglist', v[1], s)
        return ('arglist', [], s) if n == 0 else None
    if t == 'list':
        if n == 0:
            if v[0] == 'list' and not v[1] and v[3] == b:
                return ('list', [], 'undecided' if s == 'space' else s, b)
            return None
        if v[0] == 'list' and len(v[1]) == n and v[3] == b and (v[2] == s or (n == 1 and v[2] == 'undecided' and s == 'space')):
            return v
        if n == 1 and not b and s == 'space':
            return lst([v], 'space')
        return None
    return v if type_of(v) == t else None


# ----------------------------------------------------------------------------------------------
# functions under test
# ----------------------------------------------------------------------------------------------
MODULE = {
    'length': 'list.length', 'nth': 'list.nth', 'set-nth': 'list.set-nth', 'join': 'list.join',
    'append': 'list.append', 'zip': 'list.zip', 'index': 'list.index', 'list-separator': 'list.separator',
    'is-bracketed': 'list.is-bracketed', 'slash': 'list.slash',
    'map-get': 'map.get', 'map-has-key': 'map.has-key', 'map-keys': 'map.keys', 'map-values': 'map.values',
    'map-merge': 'map.merge', 'map-remove': 'map.remove', 'map-set': 'map.set', 'deep-merge': 'map.deep-merge',
    'deep-remove': 'map.deep-remove',
    'str-length': 'string.length', 'str-slice': 'string.slice', 'str-index': 'string.index',
    'str-insert': 'string.insert', 'quote': 'string.quote', 'unquote': 'string.unquote',
    'to-upper-case': 'string.to-upper-case', 'to-lower-case': 'string.to-lower-case', 'split': 'string.split',
}
MODULE_ONLY = {'slash', 'map-set', 'deep-merge', 'deep-remove', 'split'}

ERR_CLASSES = [
    (r'Missing argument|At least one argument must be passed', 'missing-arg'),
    (r'Only \d+ arguments? allowed', 'too-many-args'),
    (r'is not a number', 'not-number'),
    (r'is not a string', 'not-string'),
    (r'is not a map', 'not-map'),
    (r'List index may not be 0', 'index-zero'),
    (r'Invalid index', 'index-range'),
    (r'is not an int', 'not-int'),
    (r'to have no units', 'has-units'),
    (r'Must be "space", "comma"', 'bad-separator'),
    (r'\$limit: Must be 1 or greater', 'limit-range'),
    (r'Expected \$args to contain a key', 'no-key'),
    (r'Expected \$args to contain a value', 'no-value'),
    (r'At least two elements are required', 'too-few-elems'),
    (r'No argument named', 'no-named-arg'),
]


def err_class(msg):
    for rx, c in ERR_CLASSES:
        if re.search(rx, msg or ''):
            return c
    return 'other:' + (msg or '')[:60]


def call_src(f, args, module):
    name = MODULE[f] if module else f
    return name + '(' + ', '.join(src(a) for a in args) + ')'


# ----------------------------------------------------------------------------------------------
# generators
# ----------------------------------------------------------------------------------------------
ASCII = 'abcXYZ 1,-.'
WIDE = ['é', 'e\u0301', '中', '\U0001F600', 'É', 'ß', 'ä']


# values that are easily mistaken for "nothing there"
FALSY = [NULL, NULL, FALSE, ('list', [], 'undecided', False), ('map', []), ('num', Fraction(0), ''), ('str', '', True)]
ABC = [('str', 'a', False), ('str', 'b', False), ('str', 'c', False)]


class Gen:
    def __init__(self, rng):
        self.r = rng

    def atom(self):
        r = self.r
        return r.choice([
            num(1), num(2), num(3), num(-1), num(0), num(10, 'px'), num('1.5'), num(50, '%'), num(2, 'em'),
            ustr('a'), ustr('b'), ustr('c'), ustr('foo'), qstr('a'), qstr('b'), qstr('x y'), qstr('a,b'), qstr(''),
            TRUE, FALSE, NULL])

    def key_atom(self):
        r = self.r
        return r.choice([num(1), num(2), num(3), ustr('a'), ustr('b'), ustr('c'), ustr('k'), qstr('a'), qstr('d'),
                         TRUE, NULL, num(10, 'px')])

    def value(self, depth=2, arglists=True):
        r = self.r
        x = r.random()
        if depth <= 0 or x < 0.6:
            return self.atom()
        if x < 0.85:
            return self.list(depth - 1, maxlen=3, arglists=arglists)
        if x < 0.95:
            return self.map(depth - 1, maxlen=2)
        if arglists:
            return self.arglist(depth - 1, 3)
        return self.atom()

    def arglist(self, depth=1, maxlen=4):
        r = self.r
        es = [self.value(depth, False) for _ in range(r.randint(0, maxlen))]
        if len(es) >= 2 and r.random() < 0.45:
            sep = r.choice(['space', 'space', 'slash'])
            return ('arglist', es, sep, 'br') if (sep == 'space' and r.random() < 0.4) else ('arglist', es, sep)
        return ('arglist', es, 'comma')

    def list(self, depth=2, maxlen=6, arglists=True):
        r = self.r
        n = r.choice([0, 1, 1, 2, 2, 3, 3, 4, 5, 6][:max(3, maxlen + 3)]) if maxlen >= 6 else r.randint(0, maxlen)
        es = [self.value(depth, arglists) for _ in range(n)]
        br = r.random() < 0.3
        if n == 0:
            return lst([], 'undecided', br)
        if n == 1:
            if br:
                return lst(es, r.choice(['undecided', 'comma']), True)
            return lst(es, 'comma', False)
        sep = r.choice(['space', 'space', 'comma', 'comma', 'slash'])
        if sep == 'slash':
            br = False
        return lst(es, sep, br)

    def listish(self, depth=2):
        """something a list function accepts: mostly lists, sometimes a scalar, map or argument list"""
        x = self.r.random()
        if x < 0.72:
            return self.list(depth)
        if x < 0.80:
            return self.atom()
        if x < 0.90:
            return self.map(1, maxlen=3)
        return self.arglist(1, 4)

    def key(self):
        r = self.r
        if r.random() < 0.85:
            return self.key_atom()
        return lst([self.key_atom(), self.key_atom()], r.choice(['space', 'comma']))

    def map(self, depth=2, maxlen=3, allow_empty=True):
        r = self.r
        n = r.randint(0 if allow_empty else 1, maxlen)
        ps, seen = [], set()
        for _ in range(n):
            k = self.key()
            kid = key_id(k)
            if kid in seen:
                continue
            seen.add(kid)
            if depth > 0 and r.random() < 0.45:
                v = self.map(depth - 1, maxlen, allow_empty=r.random() < 0.2)
            elif r.random() < 0.25:
                v = r.choice(FALSY)
            else:
                v = self.value(min(depth, 1), False)
            ps.append((k, v))
        return ('map', ps)

    def mapish(self):
        x = self.r.random()
        if x < 0.85:
            return self.map(2)
        if x < 0.90:
            return lst([], 'undecided', self.r.random() < 0.3)
        if x < 0.93:
            return ('arglist', [])
        return self.r.choice([self.atom(), self.list(1, 3)])

    def index(self, length):
        r = self.r
        x = r.random()
        if x < 0.62:
            return num(r.randint(-8, 8))
        if x < 0.70 and length:
            return num(r.choice([length, -length, length + 1, -length - 1, 1, -1]))
        if x < 0.78:
            return num(r.randint(-4, 4), r.choice(['px', '%', 'em']))
        if x < 0.90:
            base = r.randint(-4, 4)
            d = r.choice(['1.5', '0.5', '0.000000000001', '-0.0000000000001', '0.00000000001', '0.25', '-0.000000000001'])
            return lit(Fraction(base) + Fraction(d))
        if x < 0.95:
            return r.choice([ustr('a'), qstr('1'), TRUE, NULL, lst([num(1), num(2)])])
        return num(r.choice([100, -100, 9, -9]))

    def path_keys(self, m, hit=0.75):
        """a key path through nested maps, mostly along existing entries"""
        r = self.r
        ks, cur = [], m
        for _ in range(r.choice([1, 1, 2, 2, 3])):
            if cur is not None and cur[0] == 'map' and cur[1] and r.random() < hit:
                k, v = r.choice(cur[1])
                if k[0] == 'str' and r.random() < 0.2:
                    k = ('str', k[1], not k[2])
                ks.append(k)
                cur = v
            else:
                ks.append(self.key())
                cur = None
        return ks

    def string(self, quoted=None):
        r = self.r
        q = r.random() < 0.7 if quoted is None else quoted
        n = r.choice([0, 1, 2, 3, 4, 5, 6, 8])
        if q:
            cs = [r.choice(WIDE) if r.random() < 0.3 else r.choice(ASCII) for _ in range(n)]
            return qstr(''.join(cs))
        cs = [r.choice(['é', '中', '\U0001F600', 'É']) if r.random() < 0.25 else r.choice('abcXYZ') for _ in range(max(1, n))]
        return ustr(''.join(cs))

    def substring_of(self, s):
        r = self.r
        cps = list(s[1])
        if cps and r.random() < 0.7:
            i = r.randrange(len(cps))
            j = r.randint(i, min(len(cps), i + 3))
            return ('str', ''.join(cps[i:j]), r.random() < 0.7) if (r.random() < 0.7 or _ident(''.join(cps[i:j]))) else qstr(''.join(cps[i:j]))
        return self.string()


def _ident(s):
    return bool(s) and all(c.isalpha() or ord(c) > 127 for c in s)


def lit(fr):
    """a number written as a decimal literal; the model gets the exact value of the nearest double"""
    text = dec_str(fr)
    return ('num', Fraction(float(text)), '', text)


def key_id(v):
    k = v[0]
    if k == 'str':
        return ('str', v[1])
    if k == 'list':
        return ('list', tuple(key_id(e) for e in v[1]), v[2], v[3])
    if k == 'map':
        return ('map', tuple((key_id(a), key_id(b)) for a, b in v[1]))
    if k == 'num':
        return ('num', v[1], v[2])
    return v


def sanitize_str(v):
    """unquoted strings in source must be identifiers"""
    if v[0] == 'str' and not v[2] and not _ident(v[1]):
        return qstr(v[1])
    return v


def gen_call(g, f):
    r = g.r
    x = r.random()
    if f in ('length', 'list-separator', 'is-bracketed'):
        args = [g.listish()]
    elif f == 'nth':
        l = g.listish()
        args = [l, g.index(len(as_list(l)))]
    elif f == 'set-nth':
        l = g.listish()
        args = [l, g.index(len(as_list(l))), g.value(1)]
    elif f == 'append':
        args = [g.listish(), g.value(1)]
        if x < 0.35:
            args.append(r.choice([ustr('auto'), ustr('comma'), ustr('space'), ustr('slash'), qstr('comma'), qstr('auto'),
                                  ustr('foo'), num(1), NULL]))
    elif f == 'join':
        args = [g.listish(), g.listish()]
        if x < 0.45:
            args.append(r.choice([ustr('auto'), ustr('auto'), ustr('comma'), ustr('space'), ustr('slash'), qstr('space'),
                                  ustr('foo'), num(1), TRUE]))
            if x < 0.25:
                args.append(r.choice([ustr('auto'), qstr('auto'), TRUE, FALSE, NULL, num(0), qstr(''), ustr('foo'),
                                      lst([], 'undecided')]))
    elif f == 'zip':
        args = [g.listish(1) for _ in range(r.choice([0, 1, 2, 2, 2, 3, 3, 4]))]
    elif f == 'index':
        l = g.listish()
        es = as_list(l)
        if es and x < 0.7:
            v = r.choice(es)
            if v[0] == 'str' and r.random() < 0.3:
                v = sanitize_str(('str', v[1], not v[2]))
            if v[0] == 'arglist':
                v = lst(v[1], asep(v)) if v[1] else lst([], 'undecided')
        else:
            v = g.value(1, False)
        args = [l, v]
    elif f == 'slash':
        args = [g.value(1) for _ in range(r.choice([0, 1, 1, 2, 3, 4]))]
        if len(args) == 1 and x < 0.7:
            args = [g.list(1)]
    elif f in ('map-get', 'map-has-key'):
        m = g.mapish()
        args = [m] + g.path_keys(m)
    elif f in ('map-keys', 'map-values'):
        args = [g.mapish()]
    elif f == 'map-merge':
        m = g.mapish()
        ks = g.path_keys(m)[:r.choice([0, 0, 0, 1, 2])] if x < 0.5 else []
        args = [m] + ks + [g.mapish()]
    elif f == 'map-remove':
        m = g.mapish()
        args = [m] + [k for _ in range(r.choice([0, 1, 1, 2, 3])) for k in g.path_keys(m)[:1]]
    elif f == 'map-set':
        m = g.mapish()
        ks = g.path_keys(m)
        args = [m] + ks + [g.value(1, False)]
        if x < 0.08:
            args = args[:r.choice([1, 2])]
    elif f == 'deep-merge':
        m1 = g.mapish() if x < 0.5 else g.map(3, 3, allow_empty=False)
        m2 = overlap_map(g, m1) if (m1[0] == 'map' and m1[1] and r.random() < 0.75) else g.mapish()
        args = [m1, m2]
    elif f == 'deep-remove':
        m = g.mapish()
        args = [m] + g.path_keys(m, hit=0.9)
    elif f in ('str-length', 'quote', 'unquote', 'to-upper-case', 'to-lower-case'):
        args = [g.string()]
    elif f == 'str-slice':
        s = g.string()
        n = len(s[1])
        args = [s, g.index(n)]
        if x < 0.7:
            args.append(g.index(n))
    elif f == 'str-index':
        s = g.string()
        args = [s, g.substring_of(s)]
    elif f == 'str-insert':
        s = g.string()
        args = [s, g.string(), g.index(len(s[1]))]
    elif f == 'split':
        s = g.string()
        sep = g.substring_of(s) if x < 0.8 else g.string()
        if r.random() < 0.12:
            sep = qstr('')
        if r.random() < 0.06:
            s = qstr('')
        args = [s, sep]
        if r.random() < 0.4:
            args.append(r.choice([num(1), num(2), num(3), num(0), num(-1), NULL, lit(Fraction('1.5')), num(1, 'px'), ustr('a'),
                                  lit(Fraction('1.000000000001')), num(len(s[1])), num(len(s[1]) + 1), num(len(s[1]) + 2)]))
    else:
        raise ValueError(f)
    # wrong arity / wrongly typed first argument, now and then
    y = r.random()
    if y < 0.03 and args:
        args = args[:-1]
    elif y < 0.06:
        args = args + [g.atom()]
    elif y < 0.09 and args:
        args = [r.choice([num(1), ustr('a'), lst([num(1), num(2)]), TRUE])] + args[1:]
    elif y < 0.10 and args:
        args = ([r.choice([num(1), ustr('a'), lst([num(1), num(2)]), TRUE])] + args[1:])[:r.randint(1, len(args))]
    elif y < 0.11 and len(args) > 1:
        args = args[:r.randint(1, len(args) - 1)]
    return (f, [sanitize_str(a) for a in args])


def small_operand(g):
    """operands on which separator/bracket inference has something to decide: single values, empty and
    one-element lists are as frequent as proper lists"""
    r = g.r

    def a():
        return r.choice([ustr('a'), ustr('b'), ustr('c'), num(1), num(2), qstr('x y'), TRUE, NULL])
    k = r.randrange(17)
    if k <= 1:
        return a()
    if k == 2:
        return lst([], 'undecided')
    if k == 3:
        return lst([], 'undecided', True)
    if k == 4:
        return lst([a()], 'comma')
    if k == 5:
        return lst([a()], 'undecided', True)
    if k == 6:
        return lst([a()], 'comma', True)
    if k == 7:
        return lst([a(), a()], 'space')
    if k == 8:
        return lst([a(), a()], 'comma')
    if k == 9:
        return lst([a(), a()], r.choice(['space', 'comma']), True)
    if k == 10:
        return lst([a(), a()], 'slash')
    if k == 11:
        return ('map', [(ustr('k'), a())])
    if k == 12:
        n = r.randint(0, 3)
        return ('arglist', [a() for _ in range(n)], r.choice(['comma', 'space', 'slash']) if n >= 2 else 'comma')
    if k == 13:
        return lst([a(), a(), a()], r.choice(['space', 'comma']))
    if k == 14:
        return lst([lst([a(), a()], r.choice(['space', 'comma'])), a()], r.choice(['space', 'comma']))
    return g.list(1, 3)


def sep_arg(g, with_bad=False):
    r = g.r
    return r.choice([ustr('auto'), ustr('auto'), ustr('comma'), ustr('space'), ustr('slash'), qstr('auto')]
                    + ([ustr('foo')] if with_bad else []))


def gen_list_expr(g, depth):
    """an expression tree producing a list out of join/append (mostly), zip, set-nth over small operands"""
    r = g.r

    def operand(d):
        if d > 0 and r.random() < 0.55:
            return gen_list_expr(g, d - 1)
        return small_operand(g)
    x = r.random()
    if x < 0.5:
        args = [operand(depth), operand(depth)]
        if r.random() < 0.2:
            args.append(sep_arg(g))
            if r.random() < 0.3:
                args.append(r.choice([ustr('auto'), TRUE, FALSE, NULL]))
        return ('call', 'join', args)
    if x < 0.85:
        args = [operand(depth), small_operand(g) if r.random() < 0.4 else g.atom()]
        if r.random() < 0.2:
            args.append(sep_arg(g))
        return ('call', 'append', [sanitize_str(a) if not is_call(a) else a for a in args])
    if x < 0.93:
        return ('call', 'zip', [operand(depth) for _ in range(r.choice([1, 2, 2]))])
    return ('call', 'set-nth', [operand(depth), num(r.choice([1, -1, 2])), sanitize_str(g.atom())])


def gen_nested(g):
    """a list function applied to the result of another: separator and brackets of every intermediate result are
    observed, so what a result carries inside (not only what it prints) matters"""
    r = g.r
    inner = gen_list_expr(g, r.choice([0, 0, 1, 1, 2]))
    x = r.random()
    if x < 0.30:
        other = gen_list_expr(g, 0) if r.random() < 0.3 else small_operand(g)
        args = [inner, other] if r.random() < 0.6 else [other, inner]
        if r.random() < 0.15:
            args.append(sep_arg(g, True))
        return ('join', args)
    if x < 0.50:
        args = [inner, sanitize_str(g.atom()) if r.random() < 0.7 else small_operand(g)]
        if r.random() < 0.25:
            args.append(sep_arg(g, True))
        return ('append', args)
    if x < 0.56:
        return ('append', [small_operand(g), inner])
    if x < 0.64:
        return ('zip', [inner, small_operand(g)] if r.random() < 0.5 else [small_operand(g), inner])
    if x < 0.72:
        return ('set-nth', [inner, num(r.choice([1, -1, 2, -2])), sanitize_str(g.atom())])
    if x < 0.80:
        return ('nth', [inner, num(r.choice([1, -1, 2, 3]))])
    if x < 0.86:
        return ('index', [inner, r.choice([ustr('a'), ustr('b'), num(1), lst([ustr('a'), ustr('b')])])])
    if x < 0.91:
        return ('length', [inner])
    if x < 0.96:
        return ('list-separator', [inner])
    return ('is-bracketed', [inner])


def overlap_map(g, m, depth=0):
    """a map sharing keys with `m`, recursively through nested maps (for deep-merge)"""
    r = g.r
    ps, seen = [], set()
    for k, v in m[1]:
        x = r.random()
        if x < 0.25:
            continue
        if v[0] == 'map' and v[1] and x < 0.85:
            nv = overlap_map(g, v, depth + 1)
        else:
            nv = g.value(1, False) if r.random() < 0.7 else g.map(1, 2)
        ps.append((k, nv))
        seen.add(key_id(k))
    for _ in range(r.choice([0, 1, 1, 2])):
        k = g.key()
        if key_id(k) not in seen:
            seen.add(key_id(k))
            ps.append((k, g.value(1, False)))
    for k, _ in m[1]:
        seen.add(key_id(k))
    return ('map', ps)


def abc_map(g, depth=2):
    """maps over the tiny key alphabet a/b/c at EVERY level (the same names recur at different levels), map-valued and
    scalar entries mixed, falsy values included"""
    r = g.r
    ps = []
    for k in ABC:
        if r.random() < 0.65:
            v = None
            if depth > 0 and r.random() < 0.55:
                v = abc_map(g, depth - 1)
                if not v[1]:
                    v = None
            if v is None:
                v = r.choice([num(1), num(2), ustr('x'), ustr('y'), NULL, FALSE, lst([], 'undecided'), qstr(''), num(0)])
            ps.append((k, v))
    return ('map', ps)


def abc_path(g, lo, hi):
    return [g.r.choice(ABC) for _ in range(g.r.randint(lo, hi))]


def gen_abc(g):
    r = g.r
    f = r.choice(['map-set', 'map-set', 'map-set', 'map-get', 'map-has-key', 'map-merge', 'deep-remove', 'deep-merge', 'map-remove',
                  'map-keys', 'map-values'])
    m = abc_map(g, r.choice([1, 2, 2, 3]))
    if f == 'map-set':
        return (f, [m] + abc_path(g, 2, 4) + [r.choice([ustr('d'), num(9), NULL, abc_map(g, 0)])])
    if f in ('map-get', 'map-has-key'):
        return (f, [m] + abc_path(g, 1, 4))
    if f == 'map-merge':
        return (f, [m] + abc_path(g, 1, 3) + [abc_map(g, 1)])
    if f == 'deep-remove':
        return (f, [m] + abc_path(g, 1, 4))
    if f == 'deep-merge':
        return (f, [m, abc_map(g, r.choice([1, 2, 3]))])
    if f == 'map-remove':
        return (f, [m] + abc_path(g, 0, 2))
    return (f, [m])


def prefix_related(p, ks):
    n = min(len(p), len(ks))
    return [key_id(x) for x in p[:n]] == [key_id(x) for x in ks[:n]]


FUNCS = list(MODULE)

# ----------------------------------------------------------------------------------------------
# named arguments
# ----------------------------------------------------------------------------------------------
_PARAMS = {}


def params_of(f):
    """documented parameter names of a modelled function, read from the Lean model (`docParams`)"""
    if not _PARAMS:
        outs = driver([f"blt params {g}" for g in FUNCS])
        for g, o in zip(FUNCS, outs):
            if not o.startswith('ok'):
                raise RuntimeError(f"driver answered {o!r} for blt params {g}")
            _PARAMS[g] = o.split()[1:]
    return _PARAMS[f]


NAMED_DEFAULTS = {('join', 'separator'): ('str', 'auto', False)}
FLAT_ARITY = {'map-merge': 2, 'map-set': 3}


def norm_name(k):
    return k.replace('_', '-')


def positional_equivalent(f, pos, named):
    """the all-positional spelling of a call whose names are parameters not given by position (None if there is none:
    an unknown or repeated name, a parameter given twice, a hole that no default fills, a nested map-merge/map.set)"""
    params = params_of(f)
    names = [norm_name(k) for k, _ in named]
    if len(set(names)) != len(names) or any(k not in params for k in names):
        return None
    if f in FLAT_ARITY and len(pos) + len(named) != FLAT_ARITY[f]:
        return None
    idx = {params.index(k): v for k, (_, v) in zip(names, named)}
    if min(idx) < len(pos) or len(pos) > len(params):
        return None
    out = list(pos)
    for i in range(len(pos), max(idx) + 1):
        if i in idx:
            out.append(idx[i])
        elif (f, params[i]) in NAMED_DEFAULTS:
            out.append(NAMED_DEFAULTS[(f, params[i])])
        else:
            return None
    return out


def named_shape(f, pos, named):
    params = params_of(f)
    names = [norm_name(k) for k, _ in named]
    tags = []
    if any(k not in params for k in names):
        tags.append("a name that is no parameter")
    if any(k in params and params.index(k) < len(pos) for k in names):
        tags.append("a parameter by position and by name")
    if not tags:
        idx = sorted(params.index(k) for k in names)
        if idx != list(range(len(pos), len(pos) + len(idx))):
            tags.append("a parameter in between left out")
        elif [params.index(k) for k in names] != idx:
            tags.append("named in another order")
    if any('_' in k for k, _ in named):
        tags.append("underscore spelling")
    head = "all named" if not pos else f"{len(pos)} positional + {len(named)} named"
    return head + (" / " + ", ".join(tags) if tags else "")


def gen_named(g):
    """a call with named arguments: a generated positional call whose tail (or all) is passed by name, in order or
    shuffled, `_` for `-` in names now and then; a tenth each: an optional parameter in between left out, a name that is
    no parameter, a parameter passed by position AND by name; the nested forms of map-merge / map.set with the last
    argument(s) named (as the code resolves them)."""
    r = g.r
    f = r.choice(FUNCS)
    params = params_of(f)
    _, args = gen_call(g, f)
    if any(is_call(a) for a in args):
        args = [a for a in args if not is_call(a)]
    x = r.random()
    if f == 'map-merge' and len(args) >= 2:
        if x < 0.8:
            args = [args[0], args[-1]]
        else:                                    # nested: keys by position, $map2 by name
            return (f, args[:-1], [('map2', args[-1])])
    if f == 'map-set' and len(args) >= 3:
        if x < 0.75:
            args = [args[0], args[-2], args[-1]]
        elif x < 0.9:
            return (f, args[:-1], [('value', args[-1])])
        else:
            return (f, args[:-2], [('key', args[-2]), ('value', args[-1])])
    if f == 'slash':
        if len(args) == 1 and x < 0.7:
            return (f, [], [('elements', args[0])])
        return (f, args, [('foo', num(1))] if args else [('elements', lst([num(1), num(2)]))])
    if f == 'zip':
        return (f, args, [(r.choice(['lists', 'foo']), lst([num(1), num(2)]))])
    if f == 'map-remove' and x < 0.3 and len(args) >= 2:
        return (f, args[:1], [('key', args[1])])
    if len(args) > len(params):
        if x < 0.25 and params:                  # more positionals than parameters, and one of them named as well
            i = r.randrange(len(params))
            return (f, args, [(params[i], args[i])])
        args = args[:len(params)]
    if not args:
        return (f, [], [('foo', num(1))])
    j = r.randint(0, len(args) - 1) if r.random() < 0.9 else len(args)
    pos, named = args[:j], [(params[i], args[i]) for i in range(j, len(args))]
    y = r.random()
    if y < 0.10 and len(named) >= 2:
        del named[r.randrange(len(named) - 1)]
    elif y < 0.20:
        named.insert(r.randint(0, len(named)), (r.choice(['foo', 'lst', 'keys', 'args', 'sep']), g.atom()))
    elif y < 0.30 and pos:
        i = r.randrange(len(pos))
        named.insert(r.randint(0, len(named)), (params[i], r.choice([pos[i], g.atom()])))
    if not named:
        named = [('foo', num(1))]
    if r.random() < 0.4:
        r.shuffle(named)
    if r.random() < 0.5:
        named = [(k.replace('-', '_'), v) for k, v in named]
    return (f, pos, [(k, sanitize_str(v)) for k, v in named])



# minimised interesting cases; run first on every run
CORPUS = [
    # K14a (repaired 6e994a1): append took a map / argument list as one element; must now give the documented answer
    ('append', [('map', [(ustr('a'), num(1)), (ustr('c'), num(2))]), ustr('b')]),
    ('append', [('arglist', [num(1), num(2)]), ustr('b')]),
    ('append', [('map', []), ustr('b')]),
    # K14b (repaired 30ed358): join took an argument list as one element
    ('join', [('arglist', [num(1), num(2)]), lst([num(3), num(4)], 'comma')]),
    ('join', [lst([num(3), num(4)]), ('arglist', [num(1), num(2)])]),
    # K14c (repaired ca51d14): an index that is an integer up to 1e-11 just above the length; integer check before range check
    ('nth', [lst([ustr('a'), ustr('b'), ustr('c')]), lit(Fraction('3.000000000001'))]),
    ('nth', [lst([ustr('a'), ustr('b'), ustr('c')]), lit(Fraction('-3.000000000001'))]),
    ('set-nth', [lst([ustr('a'), ustr('b'), ustr('c')]), lit(Fraction('3.000000000001')), ustr('z')]),
    ('nth', [lst([ustr('a'), ustr('b'), ustr('c')]), lit(Fraction('2.9999999999999'))]),
    ('nth', [lst([ustr('a'), ustr('b'), ustr('c')]), lit(Fraction('1.000000000001'))]),
    ('nth', [lst([ustr('a'), ustr('b'), ustr('c')]), lit(Fraction('3.5'))]),
    ('nth', [lst([ustr('a'), ustr('b'), ustr('c')]), lit(Fraction('1.5'))]),
    ('set-nth', [lst([ustr('a'), ustr('b'), ustr('c')]), lit(Fraction('3.5')), ustr('z')]),
    # K14d (repaired 1b37b59): map.set with fewer than three arguments is an error
    ('map-set', [('map', [(ustr('a'), num(1))]), num(2)]),
    ('map-set', [('map', [(ustr('a'), num(1))])]),
    ('map-set', [num(1), num(2)]),
    ('map-set', []),
    ('nth', [lst([ustr('a'), ustr('b'), ustr('c')]), lit(Fraction('-3.5'))]),
    ('nth', [lst([ustr('a'), ustr('b'), ustr('c')]), lit(Fraction('100.5'))]),
    ('append', [('arglist', []), ustr('b')]),
    ('join', [('arglist', []), ('arglist', [])]),
    # bracket / separator corners
    ('join', [lst([ustr('a'), ustr('b')]), lst([ustr('c')], 'comma'), ustr('auto'), num(0)]),
    ('join', [lst([ustr('a')], 'undecided', True), lst([ustr('b'), ustr('c')], 'comma')]),
    ('join', [lst([], 'undecided'), lst([], 'undecided')]),
    ('join', [('map', [(ustr('a'), num(1))]), ('map', [(ustr('b'), num(2))])]),
    ('append', [lst([], 'undecided'), ustr('a')]),
    ('zip', []),
    ('zip', [lst([ustr('a')], 'comma')]),
    ('zip', [('map', [(ustr('a'), num(1)), (ustr('b'), num(2))]), lst([num(1), num(2), num(3)])]),
    ('list-separator', [('map', [])]),
    ('list-separator', [('arglist', [])]),
    # e36bfd5: an argument list keeps the separator of the list spread into it
    ('list-separator', [('arglist', [num(1), num(2)], 'space')]),
    ('list-separator', [('arglist', [num(1), num(2)], 'space', 'br')]),
    ('list-separator', [('arglist', [num(1), num(2)], 'slash')]),
    ('append', [('arglist', [num(1), num(2)], 'space'), ustr('b')]),
    ('join', [('arglist', [num(1), num(2)], 'slash'), lst([num(3), num(4)], 'comma')]),
    ('join', [ustr('x'), ('arglist', [num(1), num(2)], 'space')]),
    ('set-nth', [('arglist', [num(1), num(2)], 'space'), num(1), ustr('z')]),
    ('index', [lst([('arglist', [num(1), num(2)], 'space'), ustr('c')], 'comma'), lst([num(1), num(2)])]),
    ('index', [lst([('arglist', [num(1), num(2)], 'space'), ustr('c')], 'comma'), lst([num(1), num(2)], 'comma')]),
    ('zip', [('arglist', [num(1), num(2)], 'slash'), lst([num(3), num(4)])]),
    ('index', [('map', [(ustr('a'), num(1))]), lst([ustr('a'), num(1)])]),
    ('set-nth', [('map', [(ustr('a'), num(1)), (ustr('b'), num(2))]), num(-1), ustr('z')]),
    ('set-nth', [ustr('a'), num(1), ustr('z')]),
    # maps
    ('map-get', [('map', [(ustr('a'), ('map', [(ustr('b'), num(2))]))]), ustr('a'), ustr('b')]),
    ('map-get', [('map', [(ustr('a'), num(1))]), qstr('a'), ustr('c')]),
    ('map-get', [lst([], 'undecided', True), ustr('a')]),
    ('map-merge', [('map', [(ustr('a'), ('map', [(ustr('c'), num(3))]))]), ustr('a'), ustr('c'), ('map', [(ustr('b'), num(2))])]),
    ('map-merge', [('map', [(ustr('a'), num(1))])]),
    ('map-merge', [('map', [(ustr('a'), num(1))]), ustr('z'), ustr('y'), ('map', [(ustr('b'), num(2))])]),
    ('deep-merge', [('map', [(ustr('a'), ('map', [(ustr('c'), num(2))]))]), ('map', [(ustr('a'), lst([], 'undecided'))])]),
    ('deep-merge', [('map', [(ustr('a'), lst([], 'undecided'))]), ('map', [(ustr('a'), ('map', [(ustr('c'), num(2))]))])]),
    ('deep-remove', [('map', [(ustr('a'), ('map', [(ustr('b'), num(1)), (ustr('c'), num(2))]))]), ustr('a'), ustr('b')]),
    ('deep-remove', [('map', [(ustr('a'), ('map', [(ustr('b'), ('map', [(ustr('c'), num(1))]))]))]), ustr('a'), ustr('b'), ustr('c')]),
    ('deep-remove', [('map', [(ustr('a'), num(1))]), ustr('a'), ustr('b')]),
    ('deep-remove', [('map', [(ustr('a'), num(1))]), ustr('z'), ustr('y'), ustr('b')]),
    # strings
    ('str-slice', [qstr('a\U0001F600é中b'), num(2), num(3)]),
    ('str-slice', [qstr('abcdef'), num(0), num(0)]),
    ('str-slice', [qstr('abcdef'), num(-100), num(2)]),
    ('str-slice', [qstr('abcdef'), num(6), num(7)]),
    ('str-slice', [qstr('abc'), num(1, 'px')]),
    ('str-slice', [qstr('abc'), lit(Fraction('1.5'))]),
    ('str-index', [qstr('a\U0001F600é中b'), qstr('中')]),
    ('str-index', [qstr('abc'), qstr('')]),
    ('str-index', [qstr(''), qstr('')]),
    ('str-insert', [qstr('abcd'), qstr('X'), num(-5)]),
    ('str-insert', [qstr('abcd'), qstr('X'), num(100)]),
    ('str-insert', [qstr(''), ustr('X'), num(2)]),
    ('str-insert', [qstr('a\U0001F600é中b'), qstr('XY'), num(-3)]),
    ('str-length', [qstr('é')]),
    ('to-upper-case', [qstr('aé中b')]),
    ('to-lower-case', [qstr('AÉ中B')]),
    ('unquote', [qstr('a b, c')]),
    ('unquote', [qstr('')]),
    ('split', [qstr('aXXXb'), qstr('XX')]),
    ('split', [qstr(',a,'), qstr(',')]),
    ('split', [qstr('a,b,c'), qstr(','), num(1, 'px')]),
    ('split', [qstr('a,b,c'), qstr(','), num(0)]),
    ('split', [qstr('abc'), qstr('x')]),
    # seeded C14-m1: a result that keeps no separator inside shows only in a second step or through ==
    ('join', [('call', 'join', [ustr('a'), ustr('b')]), lst([ustr('c'), ustr('d')], 'comma')]),
    ('list-separator', [('call', 'join', [('call', 'join', [ustr('a'), ustr('b')]), lst([ustr('c'), ustr('d')], 'comma')])]),
    ('join', [ustr('a'), ustr('b')]),
    ('join', [lst([], 'undecided'), ustr('x')]),
    ('join', [ustr('x'), lst([], 'undecided')]),
    ('join', [lst([], 'undecided'), lst([], 'undecided')]),
    ('join', [lst([ustr('a')], 'undecided', True), ustr('b')]),
    ('join', [ustr('a'), lst([ustr('b')], 'comma')]),
    ('append', [('call', 'join', [ustr('a'), ustr('b')]), ustr('c')]),
    ('append', [('call', 'join', [ustr('a'), ustr('b')]), ustr('c'), ustr('auto')]),
    ('join', [('call', 'append', [lst([], 'undecided'), ustr('a')]), lst([ustr('c'), ustr('d')], 'slash')]),
    ('join', [lst([ustr('c'), ustr('d')], 'comma'), ('call', 'join', [ustr('a'), ustr('b')])]),
    ('join', [('call', 'join', [lst([], 'undecided'), lst([], 'undecided')]), lst([ustr('c'), ustr('d')], 'comma')]),
    ('zip', [('call', 'join', [ustr('a'), ustr('b')]), lst([num(1), num(2)])]),
    ('set-nth', [('call', 'join', [ustr('a'), ustr('b')]), num(1), ustr('z')]),
    ('append', [('call', 'append', [ustr('a'), ustr('b')]), ustr('c')]),
    ('index', [('call', 'append', [lst([], 'undecided'), ('call', 'join', [ustr('a'), ustr('b')])]), lst([ustr('a'), ustr('b')])]),
    # seeded C14-m2 / m3
    ('str-slice', [qstr('café!'), num(-2), num(-1)]),
    ('str-slice', [qstr('\U0001F46Dab'), num(1), num(-2)]),
    ('deep-merge', [('map', [(ustr('a'), ('map', [(ustr('b'), ('map', [(ustr('c'), num(1)), (ustr('d'), num(2))]))]))]),
                    ('map', [(ustr('a'), ('map', [(ustr('b'), ('map', [(ustr('d'), num(3))]))]))])]),
    # seeded C09-r2m2: a present key whose value is null; seeded C14-r2m1: a missing path key must start a FRESH map
    ('map-has-key', [('map', [(ustr('a'), NULL)]), ustr('a')]),
    ('map-has-key', [('map', [(ustr('a'), ('map', [(ustr('b'), NULL)]))]), ustr('a'), ustr('b')]),
    ('map-get', [('map', [(ustr('a'), NULL)]), ustr('a')]),
    ('map-keys', [('map', [(ustr('a'), NULL), (ustr('b'), FALSE)])]),
    ('map-merge', [('map', [(ustr('a'), NULL)]), ('map', [(ustr('b'), NULL)])]),
    ('map-set', [('map', [(ustr('b'), ('map', [(ustr('x'), ustr('y'))]))]), ustr('a'), ustr('b'), ustr('c'), ustr('d')]),
    ('map-set', [('map', [(ustr('a'), num(1)), (ustr('b'), ('map', [(ustr('c'), num(2))]))]), ustr('a'), ustr('b'), ustr('d'), num(3)]),
    ('map-merge', [('map', [(ustr('b'), ('map', [(ustr('x'), ustr('y'))]))]), ustr('a'), ustr('b'), ('map', [(ustr('c'), ustr('d'))])]),
    # the first argument is checked before a later one is found missing
    ('deep-merge', [ustr('foo')]),
    ('deep-merge', [('map', [(ustr('a'), num(1))])]),
    ('deep-remove', [ustr('foo')]),
    ('deep-remove', [('map', [(ustr('a'), num(1))])]),
    ('str-index', [num(1)]),
    ('str-index', [qstr('a')]),
    ('str-insert', [num(1)]),
    ('str-insert', [qstr('a'), num(1)]),
    ('str-insert', [qstr('a'), qstr('b')]),
    ('split', [num(1)]),
    ('split', [qstr('a')]),
    ('str-slice', [num(1)]),
    ('map-get', [num(1)]),
    ('map-merge', [num(1)]),
    ('nth', [num(1)]),
    ('set-nth', [lst([num(1), num(2)]), ustr('a')]),
    ('set-nth', [lst([num(1), num(2)]), num(5)]),
    ('set-nth', [lst([num(1), num(2)]), num(1)]),
]


CORPUS_NAMED = [
    ('nth', [], [('list', lst([ustr('a'), ustr('b'), ustr('c')])), ('n', num(2))]),
    ('nth', [], [('n', num(-1)), ('list', lst([ustr('a'), ustr('b'), ustr('c')]))]),
    ('nth', [lst([ustr('a'), ustr('b')])], [('n', num(2))]),
    ('nth', [num(2)], [('list', lst([ustr('a'), ustr('b')]))]),
    ('join', [ustr('a'), ustr('b')], [('bracketed', TRUE)]),
    ('join', [ustr('a'), ustr('b')], [('separator', ustr('comma'))]),
    ('join', [], [('list2', ustr('b')), ('list1', lst([ustr('a')], 'comma')), ('bracketed', ustr('auto')), ('separator', ustr('slash'))]),
    ('join', [ustr('a')], [('separator', ustr('comma'))]),
    ('append', [lst([ustr('a'), ustr('b')])], [('val', ustr('c')), ('separator', ustr('slash'))]),
    ('set-nth', [lst([ustr('a'), ustr('b')])], [('value', ustr('z')), ('n', num(-1))]),
    ('set-nth', [lst([ustr('a'), ustr('b')])], [('value', ustr('z'))]),
    ('index', [lst([ustr('a'), ustr('b')])], [('value', ustr('b'))]),
    ('length', [], [('list', lst([ustr('a'), ustr('b')]))]),
    ('length', [], [('foo', lst([ustr('a'), ustr('b')]))]),
    ('map-get', [('map', [(ustr('a'), num(1))])], [('key', ustr('a'))]),
    ('map-get', [], [('key', ustr('a')), ('map', ('map', [(ustr('a'), num(1))]))]),
    ('map-get', [('map', [(ustr('a'), ('map', [(ustr('b'), num(2))]))]), ustr('a')], [('keys', ustr('b'))]),
    ('map-has-key', [('map', [(ustr('a'), num(1))])], [('key', ustr('a'))]),
    ('map-merge', [], [('map1', ('map', [(ustr('a'), num(1))])), ('map2', ('map', [(ustr('b'), num(2))]))]),
    ('map-merge', [('map', [(ustr('a'), num(1))])], [('map2', ('map', [(ustr('b'), num(2))]))]),
    ('map-merge', [('map', [(ustr('a'), num(1))]), ustr('k')], [('map2', ('map', [(ustr('b'), num(2))]))]),
    ('map-merge', [('map', [(ustr('b'), num(2))])], [('map1', ('map', [(ustr('a'), num(1))]))]),
    ('map-merge', [], [('map2', ('map', [(ustr('a'), num(1))]))]),
    ('map-set', [('map', [(ustr('a'), num(1))])], [('key', ustr('b')), ('value', num(2))]),
    ('map-set', [('map', [(ustr('a'), num(1))]), ustr('b')], [('value', num(2))]),
    ('map-set', [('map', [(ustr('a'), num(1))]), ustr('k1'), ustr('k2')], [('value', num(2))]),
    ('map-set', [('map', [(ustr('a'), num(1))]), ustr('k1')], [('key', ustr('k2')), ('value', num(2))]),
    ('map-set', [('map', [(ustr('a'), num(1))])], [('key', ustr('k'))]),
    ('map-set', [('map', [(ustr('a'), num(1))])], [('value', ustr('v'))]),
    ('map-set', [], [('key', ustr('k')), ('value', ustr('v'))]),
    ('map-set', [('map', [(ustr('a'), num(1))]), ustr('k')], [('value', ustr('v')), ('foo', num(1))]),
    ('map-remove', [('map', [(ustr('a'), num(1))])], [('key', ustr('a'))]),
    ('deep-merge', [], [('map1', ('map', [(ustr('a'), num(1))])), ('map2', ('map', [(ustr('b'), num(2))]))]),
    ('deep-remove', [('map', [(ustr('a'), num(1))])], [('key', ustr('a'))]),
    ('str-slice', [qstr('abcd')], [('end_at', num(3)), ('start_at', num(2))]),
    ('str-slice', [qstr('abcd')], [('end-at', num(3))]),
    ('str-slice', [qstr('abcd'), num(2)], [('end-at', num(3))]),
    ('str-insert', [num(1)], [('index', num(2))]),
    ('str-insert', [], [('string', qstr('abc')), ('insert', qstr('X')), ('index', num(2))]),
    ('str-index', [], [('string', qstr('abc')), ('substring', qstr('b'))]),
    ('split', [qstr('a,b,c'), qstr(',')], [('limit', num(1))]),
    ('split', [qstr('a,b,c')], [('limit', num(1))]),
    ('quote', [], [('string', ustr('a'))]),
    ('slash', [], [('elements', lst([ustr('a'), ustr('b')]))]),
    ('slash', [ustr('a'), ustr('b')], [('foo', ustr('c'))]),
    ('slash', [ustr('a')], [('foo', ustr('c'))]),
    ('zip', [lst([ustr('a'), ustr('b')])], [('foo', num(1))]),
    # K14e: accepted although the documented signature does not allow them
    ('join', [ustr('a'), ustr('b')], [('foo', num(1))]),
    ('join', [lst([ustr('a'), ustr('b')]), lst([ustr('c'), ustr('d')]), ustr('comma')], [('separator', ustr('slash'))]),
    ('append', [lst([ustr('a'), ustr('b')]), ustr('c')], [('val', ustr('d'))]),
    ('str-slice', [qstr('abc'), num(1)], [('foo', num(2))]),
    ('map-get', [('map', [(ustr('a'), ('map', [(ustr('b'), num(2))]))]), ustr('b')], [('key', ustr('a'))]),
]
# string.split with an empty string / separator, map.deep-remove through a missing key (round 3: as the code behaves)
CORPUS += [
    ('split', [qstr('abc'), qstr('')]),
    ('split', [qstr('abc'), qstr(''), num(1)]),
    ('split', [qstr('abc'), qstr(''), num(3)]),
    ('split', [qstr('abc'), qstr(''), num(4)]),
    ('split', [qstr('abc'), qstr(''), num(9)]),
    ('split', [qstr(''), qstr(',')]),
    ('split', [qstr(''), qstr('')]),
    ('split', [qstr(''), qstr(''), num(1)]),
    ('split', [qstr('é中a'), qstr('')]),
    ('split', [qstr('aXbXc'), qstr('X'), num(1)]),
    ('deep-remove', [('map', [(ustr('a'), num(1))]), ustr('z'), ustr('y')]),
    ('deep-remove', [('map', [(ustr('a'), ('map', [(ustr('b'), num(1))]))]), ustr('a'), ustr('z'), ustr('y')]),
    ('deep-remove', [('map', [(ustr('a'), ('map', [(ustr('b'), num(1))]))]), ustr('z'), ustr('q'), ustr('y')]),
    ('str-slice', [qstr('abcdef'), num(4), num(2)]),
    ('str-slice', [qstr('abcdef'), num(-1), num(-3)]),
    ('quote', [qstr('a b')]),
    ('unquote', [num(1)]),
    ('to-upper-case', [qstr('ßäé')]),
    ('set-nth', [lst([ustr('a'), ustr('b'), ustr('c')]), num(-3), ustr('z')]),
    ('zip', [lst([num(1), num(2), num(3)]), lst([ustr('a')], 'comma'), lst([], 'undecided')]),
    ('slash', [lst([ustr('a'), ustr('b')], 'comma')]),
    ('slash', [ustr('a')]),
    ('append', [lst([ustr('a')], 'comma'), ustr('b')]),
    ('append', [lst([ustr('a')], 'undecided', True), ustr('b')]),
]


def known_tag(f, args):
    """which repaired deviation a now≠before-fix call belongs to (descriptive only: nothing is suppressed)"""
    if f == 'append':
        return 'K14a'
    if f == 'join':
        return 'K14b'
    if f in ('nth', 'set-nth'):
        return 'K14c'
    if f == 'map-set':
        return 'K14d'
    return None


# ----------------------------------------------------------------------------------------------
# running cases
# ----------------------------------------------------------------------------------------------
DECLS = ('v', 't', 's', 'b', 'n')


def rule_for(i, exprs):
    """one rule observing several expressions: declarations i, then v<j> t<j> s<j> b<j> n<j>"""
    parts = [f"i: {i}"]
    pre = []
    for j, e in enumerate(exprs):
        pre.append(f"$r{j}: {e};")
        parts += [f"v{j}: inspect($r{j})", f"t{j}: type-of($r{j})", f"s{j}: list-separator($r{j})",
                  f"b{j}: is-bracketed($r{j})", f"n{j}: length($r{j})"]
    return "x { " + " ".join(pre) + " " + "; ".join(parts) + " }"


_decl = re.compile(r'^  ([a-z]+)(\d*): (.*);$')


def parse_css(css):
    """{case index: [ {v,t,s,b,n} per expression ]}"""
    out = {}
    cur = None
    for line in css.split('\n'):
        if line.startswith('x {'):
            cur = {}
            continue
        if line == '}':
            if cur is not None and 'i' in cur:
                idx = int(cur.pop('i')['i'])
                out[idx] = [cur[j] for j in sorted(k for k in cur if k != 'i')]
            cur = None
            continue
        m = _decl.match(line)
        if m and cur is not None:
            name, j, val = m.group(1), m.group(2), m.group(3)
            if name == 'i':
                cur['i'] = {'i': val}
            else:
                cur.setdefault(int(j), {})[name] = val
    return out


def observe(pool, items, batch=150):
    """items: list of [expr…] expected to evaluate without error.
    Returns per item either ('ok', [obs…]) or ('err', class, message) / ('status', status, text)."""
    res = [None] * len(items)
    jobs, spans = [], []
    for off in range(0, len(items), batch):
        chunk = items[off:off + batch]
        jobs.append(compile_job(PRELUDE + "\n".join(rule_for(off + k, ex) for k, ex in enumerate(chunk)), syntax="scss"))
        spans.append((off, len(chunk)))
    answers = pool.map(jobs, timeout=60)
    retry = []
    for (off, n), ans in zip(spans, answers):
        if ans.get("status") == "ok":
            got = parse_css(ans["css"])
            for k in range(n):
                res[off + k] = ('ok', got[off + k]) if off + k in got else ('status', 'dropped', '')
        else:
            retry += list(range(off, off + n))
    if retry:
        singles = pool.map([compile_job(PRELUDE + rule_for(i, items[i]), syntax="scss") for i in retry], timeout=30)
        for i, ans in zip(retry, singles):
            if ans.get("status") == "ok":
                got = parse_css(ans["css"])
                res[i] = ('ok', got[i]) if i in got else ('status', 'dropped', '')
            elif ans.get("status") == "err":
                msg = (ans.get("err") or {}).get("message") or ''
                res[i] = ('err', err_class(msg), msg)
            else:
                res[i] = ('status', ans.get("status"), str(ans.get("panic") or ans.get("why") or '')[:300])
    return res


def is_call(a):
    return isinstance(a, tuple) and len(a) in (3, 4) and a[0] == 'call'


def node_named(n):
    """named arguments [(name, value)…] of a call node ('call', f, positional[, named])"""
    return list(n[3]) if len(n) == 4 else []


def named_enc(named):
    """named arguments as one map value (name ↦ value) for `blt callN`"""
    return enc(('map', [(ustr(k), v) for k, v in named]))


def args_src(node, module):
    parts = [expr_src(a, module) for a in node[2]] + [f"${k}: {src(v)}" for k, v in node_named(node)]
    return ', '.join(parts)


def expr_src(node, module):
    """source of an expression tree: ('call', fname, [argument…]) with values or further calls as arguments"""
    if is_call(node):
        name = MODULE[node[1]] if module else node[1]
        return name + '(' + args_src(node, module) + ')'
    return src(node)


def module_only(node):
    return is_call(node) and (node[1] in MODULE_ONLY or any(module_only(a) for a in node[2]))


def postorder(node, out=None):
    out = [] if out is None else out
    for a in node[2]:
        if is_call(a):
            postorder(a, out)
    out.append(node)
    return out


def literal(v):
    """literal spelling of a value that has exactly this internal form (separator and brackets included),
    or None: `(a b)` Space, `(a, b)`/`(a,)` Comma, `[a]`/`[]`/`()` Undecided, list.slash(a, b) Slash; a 0/1-element
    list with a decided space separator, an empty comma list, … have no literal."""
    k = v[0]
    if k in ('null', 'bool'):
        return src(v)
    if k == 'num':
        try:
            return src(v)
        except ValueError:
            return None
    if k == 'str':
        return src(v) if (v[2] or _ident(v[1])) else None
    if k == 'map':
        if not v[1]:
            return src(v)
        parts = []
        for a, b in v[1]:
            la, lb = literal(a), literal(b)
            if la is None or lb is None:
                return None
            parts.append(la + ': ' + lb)
        return '(' + ', '.join(parts) + ')'
    if k == 'arglist':
        try:
            return arglist_src(v, literal)
        except ValueError:
            return None
    if k == 'list':
        es, sep, br = v[1], v[2], v[3]
        inner = [literal(e) for e in es]
        if any(x is None for x in inner):
            return None
        n = len(es)
        if sep == 'slash':
            return 'list.slash(' + ', '.join(inner) + ')' if n >= 2 and not br else None
        if br:
            if sep == 'comma' and n >= 1:
                return '[' + ', '.join(inner) + (',' if n == 1 else '') + ']'
            if sep == 'space' and n >= 2 or sep == 'undecided' and n <= 1:
                return '[' + ' '.join(inner) + ']'
            return None
        if n == 0:
            return '()' if sep == 'undecided' else None
        if sep == 'comma':
            return '(' + ', '.join(inner) + (',' if n == 1 else '') + ')'
        if sep == 'space' and n >= 2:
            return '(' + ' '.join(inner) + ')'
        return None
    return None


def model_obs(ans):
    """('ok', value) | ('err', class) | ('unsupported',) | ('bad', text)"""
    if ans.startswith('ok '):
        v, _ = dec(ans.split(' ')[1:])
        return ('ok', v)
    if ans.startswith('err '):
        return ('err', ans[4:])
    if ans == 'unsupported':
        return ('unsupported',)
    return ('bad', ans)


def model_eval(tops, variant):
    """the model's answer for every call node of the expression trees (nested calls are evaluated by composing the
    model functions: inner results are fed, exactly, into the outer call; the first failing argument decides)"""
    nodes = []
    for t in tops:
        postorder(t, nodes)
    res = {}
    pending = nodes
    while pending:
        ready, later, lines = [], [], []
        for n in pending:
            if id(n) in res:
                continue
            subs = [a for a in n[2] if is_call(a)]
            if any(id(a) not in res for a in subs):
                later.append(n)
                continue
            bad = next((res[id(a)] for a in subs if res[id(a)][0] != 'ok'), None)
            if bad is not None:
                res[id(n)] = bad
                continue
            vals = [res[id(a)][1] if is_call(a) else a for a in n[2]]
            ready.append(n)
            nm = node_named(n)
            if nm:
                lines.append(f"blt callN {variant} {n[1]} {len(vals)} " + " ".join([enc(v) for v in vals] + [named_enc(nm)]))
            else:
                lines.append(f"blt call {variant} {n[1]} {len(vals)} " + " ".join(enc(v) for v in vals))
        outs = driver(lines) if lines else []
        for n, o in zip(ready, outs):
            res[id(n)] = model_obs(o)
            if res[id(n)][0] == 'bad':
                raise RuntimeError(f"driver answered {o!r} for {expr_src(n, True)}")
        if later and not ready and all(id(n) not in res for n in later):
            raise RuntimeError("model_eval: no progress")
        pending = later
    return res


def same_obs(o, v):
    """does the implementation's observation {v,t,s,b,n} agree with the model's value?"""
    want = pins(v)
    for k in ('t', 's', 'b', 'n'):
        if o.get(k) != want[k]:
            return False
    text = show(v)
    if 'v' not in o:
        return text == ''
    return text_eq(o['v'], text)


def case_text(f, args):
    return expr_src(('call', f, args), module_only(('call', f, args)))


def build_probes(cases):
    """every call node of every case (intermediate results included) becomes a probe, plus, for each list-valued
    result the model knows and that has a literal spelling, `E == literal` and `literal == E`."""
    tops = [(('call', c[0], list(c[1]), list(c[2])) if len(c) > 2 and c[2] else ('call', c[0], list(c[1]))) for c in cases]
    now, old = model_eval(tops, 'now'), model_eval(tops, 'beforefix')
    named_tops = [t for t in tops if node_named(t)]
    strict = model_eval(named_tops, 'strict') if named_tops else {}
    probes, seen, eqs = [], set(), []
    for t in tops:
        for n in postorder(t):
            mo = module_only(n)
            tm = expr_src(n, True)
            if tm in seen:
                continue
            seen.add(tm)
            texts = [tm] if mo else [expr_src(n, False), tm]
            p = {"f": n[1], "node": n, "texts": texts, "now": now[id(n)], "old": old[id(n)], "kind": "call",
                 "nested": any(is_call(a) for a in n[2]), "inner": n is not t}
            nm = node_named(n)
            if nm:
                p["main"] = tm
                p["strict"] = strict[id(n)]
                p["shape"] = named_shape(n[1], n[2], nm)
                eqv = positional_equivalent(n[1], n[2], nm)
                if eqv is not None and p["strict"][0] == 'ok':
                    # the same call with every argument by position: grass must answer the same (named = positional)
                    p["texts"] = texts + [expr_src(('call', n[1], eqv), mo)]
                    p["positional"] = True
            probes.append(p)
            m = p["now"]
            if m[0] == 'ok' and m[1][0] == 'list':
                L = literal(m[1])
                if L is not None:
                    eqs.append((p, L))
    lines = []
    for p, L in eqs:
        v = p["now"][1]
        lines.append(f"blt eq now {enc(v)} {enc(v)}")
        lines.append(f"blt eq beforefix {enc(p['old'][1]) if p['old'][0] == 'ok' else enc(v)} {enc(v)}")
    outs = driver(lines) if lines else []
    for j, (p, L) in enumerate(eqs):
        a, b = outs[2 * j].split(), outs[2 * j + 1].split()
        if a[0] != 'ok' or b[0] != 'ok':
            raise RuntimeError(f"driver answered {outs[2 * j]!r} / {outs[2 * j + 1]!r} for blt eq")
        for order in (0, 1):
            texts = [(f"{t} == {L}" if order == 0 else f"{L} == {t}") for t in p["texts"]]
            oldm = ('ok', ('bool', b[1 + order] == '1')) if p["old"][0] == 'ok' else p["old"]
            probes.append({"f": p["f"], "node": p["node"], "texts": texts, "now": ('ok', ('bool', a[1 + order] == '1')),
                           "old": oldm, "kind": "eq", "nested": p["nested"], "inner": p["inner"]})
    return probes


def evaluate(ck, pool, cases, direct_only=False):
    """correspondence (model of the code as it stands vs grass, every intermediate result, `==` against the literal
    spelling) + regression guard on `cases`; returns failures of the documented semantics"""
    probes = build_probes(cases)
    ok_items, ok_idx, err_idx = [], [], []
    for i, p in enumerate(probes):
        m = p["now"]
        if m[0] == 'unsupported':
            continue
        if m[0] == 'ok':
            ok_items.append(p["texts"])
            ok_idx.append(i)
        else:
            err_idx.append((i, p["texts"]))
    got = observe(pool, ok_items)
    impl = {}
    for i, g in zip(ok_idx, got):
        impl[i] = g
    # predicted errors: one job per expression
    ejobs = [compile_job(PRELUDE + rule_for(0, [e]), syntax="scss") for _, exprs in err_idx for e in exprs]
    eans = pool.map(ejobs, timeout=30) if ejobs else []
    pos = 0
    for i, exprs in err_idx:
        per = []
        for _ in exprs:
            a = eans[pos]
            pos += 1
            if a.get("status") == "err":
                msg = (a.get("err") or {}).get("message") or ''
                per.append(('err', err_class(msg), msg))
            elif a.get("status") == "ok":
                g = parse_css(a["css"])
                per.append(('ok', g.get(0, [{}])[0]))
            else:
                per.append(('status', a.get("status"), str(a.get("panic") or '')[:300]))
        impl[i] = ('multi', per)
    failing = []
    for i, p in enumerate(probes):
        m, d, f = p["now"], p["old"], p["f"]
        text = p.get("main") or p["texts"][-1]
        args = p["node"][2]
        if m[0] == 'unsupported':
            ck.cov["unsupported_dropped"] += 1
            ck.hist("unsupported:" + f)
            continue
        g = impl[i]
        if g[0] == 'multi':
            per = g[1]
        elif g[0] == 'ok':
            per = [('ok', o) for o in g[1]]
        else:
            per = [g] * len(p["texts"])
        ck.count(('c14', text), nontrivial=bool(args))
        if p["kind"] == 'eq':
            ck.hist("probe:== against the literal spelling")
        else:
            ck.hist("fn:" + f)
            ck.hist("probe:" + ("intermediate result of a nested call" if p["inner"] else
                                "nested call" if p["nested"] else "single call"))
            if args and not is_call(args[0]):
                a0 = args[0]
                ck.hist("arg0:" + (f"list/{a0[2]}/{'br' if a0[3] else 'plain'}/len={len(a0[1])}" if a0[0] == 'list'
                                   else f"str/len={len(a0[1])}" if a0[0] == 'str' else a0[0]))
            ck.hist(f"arity={len(args)}")
        ck.hist("model:" + (m[0] if m[0] == 'ok' else 'err:' + m[1]))
        if len(ck.cov["samples"]) < 8 and i % 397 == 0:
            ck.sample({"expression": text, "model": [m[0], show(m[1]) if m[0] == 'ok' else m[1]],
                       "impl": [list(q[:2]) for q in per]})

        def agrees(q, mm):
            if mm[0] == 'ok':
                return q[0] == 'ok' and same_obs(q[1], mm[1])
            return q[0] == 'err' and q[1] == mm[1]
        names_agree = all(agrees(q, m) for q in per)
        if "strict" in p:
            ck.hist("named:" + p["shape"])
            ck.hist("named-fn:" + f)
            if p.get("positional"):
                ck.hist("named: compared with the all-positional call")
            st = p["strict"]
            ck.hist("named-documented:" + (st[0] if st[0] != 'err' else 'err:' + st[1]))
            if st[0] == 'err' and st[1] in ('no-named-arg', 'dup-arg') and any(q[0] == 'ok' for q in per):
                failing.append({"call": text, "why": "a named argument the documented signature does not allow ("
                                + st[1] + ") is accepted", "impl": [list(q[:2]) for q in per],
                                "tags": ["K14e-named-unchecked"]})
        if len(per) >= 2 and "strict" in p:
            if len({(q[0], json.dumps(q[1], sort_keys=True, default=str)) for q in per}) != 1:
                ck.hist("named≠positional or module≠global")
                failing.append({"call": " ; ".join(p["texts"]), "why": "the spellings of one call (global / module member / all-positional) differ",
                                "impl": [list(q[:2]) for q in per], "tags": []})
        elif len(per) == 2:
            same_names = (per[0][0] == per[1][0]) and (per[0][1] == per[1][1])
            if not same_names:
                ck.hist("module≠global")
                failing.append({"call": " ; ".join(p["texts"]), "why": "module member and global alias differ",
                                "global": list(per[0][:2]), "module": list(per[1][:2]), "tags": []})
        if not names_agree and not direct_only:
            ck.cov["model_disagreements"] += 1
            ck.hist("disagree:" + f + ("/==" if p["kind"] == 'eq' else ""))
            if len(ck.disagreements) < 10:
                ck.disagreements.append({"call": text, "model_now": [m[0], show(m[1]) if m[0] == 'ok' else m[1]],
                                         "impl": [list(q) for q in per]})
        # regression guard: the pre-repair model differs here and grass answers as it did before the repair
        if d != m and d[0] != 'unsupported':
            ck.hist("now≠before-fix:" + (known_tag(f, args) or f))
            if not names_agree and all(agrees(q, d) for q in per):
                failing.append({"call": text, "why": "grass answers as it did before the repair of K14a-K14d, not as documented",
                                "documented": [m[0], show(m[1]) if m[0] == 'ok' else m[1]],
                                "before_fix": [d[0], show(d[1]) if d[0] == 'ok' else d[1]],
                                "impl": [list(q[:2]) for q in per], "tags": []})
        if any(q[0] == 'status' for q in per):
            failing.append({"call": text, "why": "abnormal status", "impl": [list(q) for q in per], "tags": []})
    return failing


# ----------------------------------------------------------------------------------------------
# DIRECT: the laws on grass's own answers
# ----------------------------------------------------------------------------------------------
def simple_value(g, depth=1):
    """values the inspect parser rebuilds faithfully (no argument lists, no 1-element space lists)"""
    r = g.r
    x = r.random()
    if depth <= 0 or x < 0.6:
        return g.atom()
    if x < 0.85:
        n = r.choice([0, 2, 3, 1])
        es = [simple_value(g, depth - 1) for _ in range(n)]
        if n == 0:
            return lst([], 'undecided', r.random() < 0.3)
        if n == 1:
            return lst(es, 'comma', r.random() < 0.3)
        sep = r.choice(['space', 'comma', 'slash'])
        return lst(es, sep, sep != 'slash' and r.random() < 0.3)
    ps, seen = [], set()
    for _ in range(r.randint(1, 2)):
        k = g.key_atom()
        if key_id(k) in seen:
            continue
        seen.add(key_id(k))
        ps.append((k, simple_value(g, 0)))
    return ('map', ps)


def simple_list(g, minlen=0):
    r = g.r
    n = r.randint(minlen, 6)
    es = [simple_value(g, 1) for _ in range(n)]
    br = r.random() < 0.3
    if n == 0:
        return lst([], 'undecided', br)
    if n == 1:
        return lst(es, r.choice(['undecided', 'comma']) if br else 'comma', br)
    sep = r.choice(['space', 'comma', 'slash'])
    return lst(es, sep, br and sep != 'slash')


def simple_map(g, depth=2):
    r = g.r
    ps, seen = [], set()
    for _ in range(r.randint(0 if depth < 2 else 1, 3)):
        k = g.key_atom()
        if key_id(k) in seen:
            continue
        seen.add(key_id(k))
        v = simple_map(g, depth - 1) if depth > 0 and r.random() < 0.4 else simple_value(g, 1)
        if r.random() < 0.2:
            v = r.choice([NULL, NULL, FALSE, num(0), qstr('')])
        if v == ('map', []):
            v = num(7)
        ps.append((k, v))
    return ('map', ps)


def listish_for_law(g):
    x = g.r.random()
    if x < 0.7:
        return simple_list(g)
    if x < 0.8:
        return g.atom()
    if x < 0.9:
        return simple_map(g, 1)
    n = g.r.randint(0, 3)
    return ('arglist', [simple_value(g, 0) for _ in range(n)], g.r.choice(['comma', 'space', 'slash']) if n >= 2 else 'comma')


def gen_law(g):
    """(law name, [expr…], builder(values)->driver line or None, tag-if-fails)"""
    r = g.r
    name = r.choice(['length_append', 'length_append', 'nth_set_nth', 'nth_neg', 'length_join', 'join_sep', 'zip_length',
                     'slice_concat', 'length_slice', 'slice_neg', 'slice_neg', 'length_insert', 'index_slice', 'unquote_quote',
                     'eq_literal', 'eq_literal', 'eq_literal', 'has_key_index', 'has_key_index', 'get_set_path',
                     'set_other_path', 'set_other_path', 'set_other_path', 'case_ascii', 'deep_merge_get',
                     'get_merge', 'keys_merge', 'get_set', 'remove_get', 'deep_merge_get',
                     'index_first', 'index_first', 'split_join', 'split_join', 'deep_remove', 'deep_remove', 'has_key_path'])
    S = src
    if name == 'length_append':
        l, v = listish_for_law(g), simple_value(g)
        ex = [f"length({S(l)})", f"length(append({S(l)}, {S(v)}))"]
        tag = None
        return name, ex, lambda vs: "blt law length_append 2 " + " ".join(map(enc, vs)), tag
    if name == 'index_first':
        l = listish_for_law(g)
        if l[0] == 'arglist':
            l = simple_list(g)
        es = as_list(l)
        if es and r.random() < 0.7:
            v = r.choice(es)
            if v[0] == 'str' and r.random() < 0.3:
                v = sanitize_str(('str', v[1], not v[2]))
        else:
            v = simple_value(g)
        v = sanitize_str(v)
        ex = [S(l), S(v), f"index({S(l)}, {S(v)})"]
        return name, ex, lambda vs: "blt law index_first 3 " + " ".join(map(enc, vs)), None
    if name == 'split_join':
        s = g.string()
        sep = sanitize_str(g.substring_of(s)) if r.random() < 0.75 else g.string()
        if r.random() < 0.15:
            sep = qstr('')
        if r.random() < 0.08:
            s = qstr('')
        lim = r.choice([None, None, 1, 2, 3, len(s[1]) + 1])
        ex = [S(s), S(sep), f"string.split({S(s)}, {S(sep)}" + (f", {lim})" if lim else ")")]
        return name, ex, lambda vs: f"blt law split_join {lim if lim else 'none'} " + " ".join(map(enc, vs)), None
    if name == 'deep_remove':
        m = abc_map(g, r.choice([1, 2, 2, 3]))
        ks = abc_path(g, 1, 4)
        for _ in range(20):
            pth = ks[:r.randint(0, len(ks) - 1)] + abc_path(g, 1, 2)
            if not prefix_related(pth, ks):
                break
        else:
            pth = [ustr('zz')]
        path, pp = ", ".join(S(x) for x in ks), ", ".join(S(x) for x in pth)
        rem = f"map.deep-remove({S(m)}, {path})"
        ex = [f"map-get({rem}, {path})", f"map-get({S(m)}, {pp})", f"map-get({rem}, {pp})"]
        return name, ex, lambda vs: "blt law deep_remove 3 " + " ".join(map(enc, vs)), None
    if name == 'has_key_path':
        # nested has-key against index(map-keys(<the nested map the path leads to>), last key)
        m = abc_map(g, r.choice([2, 2, 3]))
        ks = abc_path(g, 2, 4)
        init, last = ", ".join(S(x) for x in ks[:-1]), S(ks[-1])
        sub = f"map-get({S(m)}, {init})"
        ex = [f"map-has-key({S(m)}, {init}, {last})", f"if(ismap({sub}), index(map-keys(if(ismap({sub}), {sub}, ())), {last}), null)"]
        return 'has_key_index', ex, lambda vs: "blt law has_key_index 2 " + " ".join(map(enc, vs)), None
    if name == 'nth_set_nth':
        l = simple_list(g, 1) if r.random() < 0.8 else simple_map(g, 1)
        n = len(as_list(l))
        if n == 0:
            l, n = lst([num(1), num(2)]), 2
        k = r.choice([i for i in range(-n, n + 1) if i != 0])
        v = simple_value(g)
        ex = [S(v), f"nth(set-nth({S(l)}, {k}, {S(v)}), {k})"]
        return name, ex, lambda vs: "blt law nth_set_nth 2 " + " ".join(map(enc, vs)), None
    if name == 'nth_neg':
        l = simple_list(g, 1)
        n = len(l[1])
        k = r.randint(1, n)
        ex = [f"nth({S(l)}, {-k})", f"nth({S(l)}, {n - k + 1})"]
        return name, ex, lambda vs: "blt law nth_neg 2 " + " ".join(map(enc, vs)), None
    if name == 'length_join':
        a, b = listish_for_law(g), listish_for_law(g)
        ex = [f"length({S(a)})", f"length({S(b)})", f"length(join({S(a)}, {S(b)}))"]
        tag = None
        return name, ex, lambda vs: "blt law length_join 3 " + " ".join(map(enc, vs)), tag
    if name == 'join_sep':
        a, b = simple_list(g), simple_list(g)
        explicit = r.choice([None, None, 'auto', 'comma', 'space', 'slash'])
        ex = [f"list-separator(join({S(a)}, {S(b)}" + (f", {explicit}" if explicit else "") + "))"]
        exs = 'none' if explicit in (None, 'auto') else explicit
        return name, ex, lambda vs: f"blt law join_sep {a[2]} {b[2]} {exs} " + enc(vs[0]), None
    if name == 'zip_length':
        ls = [listish_for_law(g) for _ in range(r.choice([0, 1, 2, 3]))]
        ex = [f"length({S(l)})" for l in ls] + ["length(zip(" + ", ".join(S(l) for l in ls) + "))"]
        return name, ex, lambda vs: f"blt law zip_length {len(ls)} " + " ".join(map(enc, vs)), None
    if name == 'slice_concat':
        s = g.string()
        k = r.randint(0, len(s[1]))
        ex = [S(s), f"str-slice({S(s)}, 1, {k})", f"str-slice({S(s)}, {k + 1}, -1)"]
        return name, ex, lambda vs: "blt law slice_concat 3 " + " ".join(map(enc, vs)), None
    if name == 'length_slice':
        s = g.string()
        n = len(s[1])
        if n == 0:
            s, n = qstr('aé中'), 3
        a = r.randint(1, n)
        b = r.randint(a, n)
        ex = [f"str-length(str-slice({S(s)}, {a}, {b}))"]
        return name, ex, lambda vs: f"blt law length_slice {a} {b} " + enc(vs[0]), None
    if name == 'slice_neg':
        s = g.string()
        n = len(s[1])
        if n == 0:
            s, n = qstr('café!'), 5
        k = r.randint(1, n)
        e = r.choice([-1, n, r.randint(-n, n), r.randint(1, n)])
        if r.random() < 0.5:
            ex = [f"str-slice({S(s)}, {-k}, {e})", f"str-slice({S(s)}, {n - k + 1}, {e})"]
        else:
            ex = [f"str-slice({S(s)}, {e}, {-k})", f"str-slice({S(s)}, {e}, {n - k + 1})"]
        return name, ex, lambda vs: "blt law slice_neg 2 " + " ".join(map(enc, vs)), None
    if name == 'eq_literal':
        # phase 1 observes E; phase 2 (run_laws) spells the literal from grass's OWN answers and asks grass E == literal
        def opnd():
            x = r.random()
            if x < 0.35:
                return simple_value(g, 0)
            if x < 0.5:
                return lst([], 'undecided', r.random() < 0.3)
            return simple_list(g)
        def expr(d):
            x = r.random()
            l = expr(d - 1) if d > 0 and x < 0.5 else S(opnd())
            if r.random() < 0.55:
                rr = expr(d - 1) if d > 0 and r.random() < 0.3 else S(opnd())
                sepa = r.choice(['', '', '', ', auto', ', comma', ', space'])
                return f"join({l}, {rr}{sepa})"
            return f"append({l}, {S(simple_value(g, 0))}{r.choice(['', '', '', ', auto', ', comma', ', space'])})"
        e = expr(r.choice([0, 1, 1, 2]))
        return name, [e], None, None
    if name == 'length_insert':
        s, ins = g.string(), g.string()
        i = r.randint(-10, 10)
        ex = [f"str-length({S(s)})", f"str-length({S(ins)})", f"str-length(str-insert({S(s)}, {S(ins)}, {i}))"]
        return name, ex, lambda vs: "blt law length_insert 3 " + " ".join(map(enc, vs)), None
    if name == 'index_slice':
        s = g.string()
        sub = sanitize_str(g.substring_of(s))
        if not sub[1]:
            sub = qstr('a')
        e_i = f"str-index({S(s)}, {S(sub)})"
        ex = [S(s), S(sub), e_i, f"if({e_i} == null, \"\", str-slice({S(s)}, if({e_i} == null, 1, {e_i}), if({e_i} == null, 1, {e_i}) + {len(sub[1]) - 1}))"]
        return name, ex, lambda vs: "blt law index_slice 4 " + " ".join(map(enc, vs)), None
    if name == 'unquote_quote':
        s = g.string()
        ex = [S(s), f"unquote(quote({S(s)}))", f"quote(unquote({S(s)}))"]
        return name, ex, lambda vs: "blt law unquote_quote 3 " + " ".join(map(enc, vs)), None
    if name == 'case_ascii':
        s = g.string()
        ex = [S(s), f"to-upper-case({S(s)})", f"to-lower-case({S(s)})"]
        return name, ex, lambda vs: "blt law case_ascii 3 " + " ".join(map(enc, vs)), None
    if name == 'has_key_index':
        m = abc_map(g, 1) if r.random() < 0.4 else simple_map(g)
        k = r.choice([kk for kk, _ in m[1]] + [g.key_atom()] + ABC[:1])
        ex = [f"map-has-key({S(m)}, {S(k)})", f"index(map-keys({S(m)}), {S(k)})"]
        return name, ex, lambda vs: "blt law has_key_index 2 " + " ".join(map(enc, vs)), None
    if name in ('get_set_path', 'set_other_path'):
        m = abc_map(g, r.choice([1, 2, 2, 3]))
        ks = abc_path(g, 2, 4) if r.random() < 0.85 else abc_path(g, 1, 1)
        v = r.choice([ustr('d'), num(9), qstr('v'), lst([num(1), num(2)])])
        path = ", ".join(S(x) for x in ks)
        setx = f"map.set({S(m)}, {path}, {S(v)})"
        if name == 'get_set_path':
            ex = [S(v), f"map-get({setx}, {path})"]
            return 'get_set', ex, lambda vs: "blt law get_set 2 " + " ".join(map(enc, vs)), None
        for _ in range(20):
            if r.random() < 0.5:
                pth = ks[:-1] + [r.choice(ABC)]
            else:
                pth = ks[:r.randint(0, len(ks) - 1)] + abc_path(g, 1, 2)
            if not prefix_related(pth, ks):
                break
        else:
            pth = [ustr('zz')]
        pp = ", ".join(S(x) for x in pth)
        ex = [f"map-get({S(m)}, {pp})", f"map-get({setx}, {pp})"]
        return name, ex, lambda vs: "blt law set_other_path 2 " + " ".join(map(enc, vs)), None
    # map laws
    a, b = simple_map(g), simple_map(g)
    keys = [k for k, _ in a[1]] + [k for k, _ in b[1]] + [g.key_atom()]
    k = r.choice(keys)
    if name == 'get_merge':
        ex = [f"map-has-key({S(b)}, {S(k)})", f"map-get({S(a)}, {S(k)})", f"map-get({S(b)}, {S(k)})",
              f"map-get(map-merge({S(a)}, {S(b)}), {S(k)})"]
        return name, ex, lambda vs: "blt law get_merge 4 " + " ".join(map(enc, vs)), None
    if name == 'keys_merge':
        ex = [f"map-has-key({S(a)}, {S(k)})", f"map-has-key({S(b)}, {S(k)})", f"map-has-key(map-merge({S(a)}, {S(b)}), {S(k)})"]
        return name, ex, lambda vs: "blt law keys_merge 3 " + " ".join(map(enc, vs)), None
    if name == 'get_set':
        v = simple_value(g)
        ex = [S(v), f"map-get(map.set({S(a)}, {S(k)}, {S(v)}), {S(k)})"]
        return name, ex, lambda vs: "blt law get_set 2 " + " ".join(map(enc, vs)), None
    if name == 'remove_get':
        ex = [f"map-get(map-remove({S(a)}, {S(k)}), {S(k)})", f"map-has-key(map-remove({S(a)}, {S(k)}), {S(k)})"]
        return name, ex, lambda vs: "blt law remove_get 2 " + " ".join(map(enc, vs)), None
    if name == 'deep_merge_get':
        if r.random() < 0.6:
            # the same key names at every level: overlap down to depth 3
            a, b = abc_map(g, 3), abc_map(g, 3)
            k = r.choice(ABC)
        else:
            # make b overlap a
            ps, seen = [], set()
            for kk, vv in a[1]:
                if r.random() < 0.6:
                    ps.append((kk, simple_map(g, 1) if vv[0] == 'map' and r.random() < 0.8 else simple_value(g, 0)))
                    seen.add(key_id(kk))
            for kk, vv in b[1]:
                if key_id(kk) not in seen:
                    seen.add(key_id(kk))
                    ps.append((kk, vv))
            b = ('map', [(kk, num(7) if vv == ('map', []) else vv) for kk, vv in ps])
        ga, gb = f"map-get({S(a)}, {S(k)})", f"map-get({S(b)}, {S(k)})"
        sub = f"if(ismap({ga}) and ismap({gb}), map.deep-merge(if(ismap({ga}), {ga}, ()), if(ismap({gb}), {gb}, ())), null)"
        ex = [f"map-has-key({S(b)}, {S(k)})", ga, gb, sub, f"map-get(map.deep-merge({S(a)}, {S(b)}), {S(k)})"]
        return name, ex, lambda vs: "blt law deep_merge_get 5 " + " ".join(map(enc, vs)), None
    raise ValueError(name)


def run_laws(ck, pool, n):
    g = Gen(ck.rng)
    laws = [gen_law(g) for _ in range(n)]
    got = observe(pool, [ex for _, ex, _, _ in laws], batch=100)
    lines, keep = [], []
    failing = []
    second = []           # eq_literal: (expression, literal spelt from grass's own answers)
    for (name, ex, build, tag), res in zip(laws, got):
        ck.hist("law:" + name)
        if res[0] != 'ok':
            failing.append({"call": " ; ".join(ex), "why": f"law {name}: an expression within the law's guard did not evaluate",
                            "impl": list(res), "tags": [tag] if tag else []})
            continue
        vals = [obs_value(o) for o in res[1]]
        if any(v is None for v in vals):
            ck.cov["unsupported_dropped"] += 1
            ck.hist("law-unparsed:" + name)
            continue
        if name == 'eq_literal':
            v = vals[0]
            L = literal(v) if (v[0] == 'list' and len(v[1]) >= 2) else None
            if L is None:
                ck.hist("law-guard-not-met:eq_literal (fewer than 2 elements)")
                continue
            second.append((ex[0], L))
            continue
        lines.append(build(vals))
        keep.append((name, ex, tag, res[1]))
    if second:
        got2 = observe(pool, [[f"{e} == {L}", f"{L} == {e}"] for e, L in second], batch=100)
        for (e, L), res in zip(second, got2):
            ex = [f"{e} == {L}", f"{L} == {e}"]
            if res[0] != 'ok':
                failing.append({"call": " ; ".join(ex), "why": "law eq_literal: the comparison did not evaluate", "impl": list(res), "tags": []})
                continue
            vals = [obs_value(o) for o in res[1]]
            if any(v is None for v in vals):
                ck.cov["unsupported_dropped"] += 1
                continue
            lines.append("blt law eq_literal 2 " + " ".join(map(enc, vals)))
            keep.append(('eq_literal', ex, None, res[1]))
    outs = driver(lines) if lines else []
    for (name, ex, tag, obs), out in zip(keep, outs):
        ck.count(('law', name, ex), True)
        if out == 'ok holds':
            continue
        if out != 'ok fails':
            raise RuntimeError(f"driver answered {out!r} for law {name}: {ex}")
        failing.append({"call": " ; ".join(ex), "why": f"law {name} fails on grass's own answers",
                        "impl": [o.get('v') for o in obs], "tags": [tag] if tag else []})
    return failing


def check_tables(ck):
    """the dispatch tables of the model (regenerated from builtin/functions/*.rs and builtin/modules/*.rs) resolve every
    global name and every module member this check calls to the model function it is compared with"""
    lines, want = [], []
    for f in FUNCS:
        mod, mem = MODULE[f].split('.', 1)
        lines.append(f"blt resolve member {mod} {mem}")
        want.append(f)
        if f not in MODULE_ONLY:
            lines.append(f"blt resolve global {f}")
            want.append(f)
    for f in MODULE_ONLY:
        lines.append(f"blt resolve global {f}")
        want.append(None)
    outs = driver(lines)
    for l, w, o in zip(lines, want, outs):
        ck.count(('table', l), True)
        ck.hist("dispatch-table:" + ("member" if " member " in l else "global") + (" (absent, as expected)" if w is None else ""))
        if o != ("none" if w is None else "ok " + w):
            ck.cov["model_disagreements"] += 1
            ck.disagreements.append({"call": l, "model_now": o, "impl": "expected " + str(w)})
    return []


SIZES = {"quick": (5000, 2400, 1500, 1200, 1800), "thorough": (100000, 36000, 30000, 20000, 30000)}


def gen_cases(ck, n, n_nested=0, n_abc=0, n_named=0):
    g = Gen(ck.rng)
    cases = list(CORPUS) + list(CORPUS_NAMED)
    per = max(1, n // len(FUNCS))
    for f in FUNCS:
        for _ in range(per):
            cases.append(gen_call(g, f))
    for _ in range(n_nested):
        cases.append(gen_nested(g))
    for _ in range(n_abc):
        cases.append(gen_abc(g))
    for _ in range(n_named):
        cases.append(gen_named(g))
    return cases


def run(tier, seed):
    ck = Check("C14", tier, seed)
    ck.disagreements = []
    ck.cov["rule"] = ("round 3: calls with NAMED arguments (a generated positional call whose tail or all of it is passed by name, in order "
                      "or shuffled, `_` for `-`; an optional parameter in between left out; a name that is no parameter; a parameter "
                      "by position and by name; nested map-merge/map.set with the last arguments named) are evaluated by the model "
                      "(`blt callN`, parameter names read from the model's own table) and by grass under the global name, the module "
                      "member name and, where the names are parameters not given by position, as the all-positional call - all "
                      "spellings must agree with the model and with each other; string.split with empty string/separator and "
                      "map.deep-remove through a missing key are generated; the model's dispatch tables (regenerated from the Rust "
                      "`declare` functions) must resolve every global/member name called here to the model function compared. "
                      "calls of 28 built-ins (9 list + list.slash, 9 map, 9 string) with generated positional arguments: lists of "
                      "length 0-6 over space/comma/slash/undecided x bracketed, scalars, maps and argument lists in list "
                      "position, indices -8..8, near-integers, fractions, with units, wrongly typed, missing and extra arguments; "
                      "nested maps with key paths mostly along existing entries; strings over ASCII, é, e+U+0301, 中, U+1F600. "
                      "Map values include null, false, (), the empty map, 0 and \"\" at every level; a second family of map calls "
                      "(set/get/has-key/merge with key paths of length 1-4, deep-merge, deep-remove) runs over maps whose keys a/b/c "
                      "recur at every level. Argument lists carry comma, space or slash (spread of a list). "
                      "Nested calls (join/append/zip/set-nth results fed into join/append/zip/set-nth/nth/index/length/"
                      "list-separator/is-bracketed, depth <= 4, single values and empty/one-element lists as frequent as proper "
                      "lists): every intermediate and final result is a probe. Every probe is observed under its global name and "
                      "its module member name through inspect(), type-of, list-separator, is-bracketed, length; for every "
                      "list-valued result that has a literal spelling, `E == literal` and `literal == E` are probes too (expected "
                      "answer from the model's veq). A probe is distinct by its expression text and non-trivial when the call has "
                      "at least one argument; law cases are distinct by their expressions.")
    ck.assumptions = ["named arguments: the documented variant (an error for a name that is no parameter or for a parameter given "
                      "twice) is judged only as 'error expected'; the nested forms of map-merge/map.set with named arguments are "
                      "compared as the code resolves them (documented variant: unsupported)",
                      "map.deep-remove with a missing last intermediate key and string.split with an empty string or separator "
                      "are not settled by the documentation; they are modelled and compared as the code behaves",
                      "grass's answers are read through inspect(); the printer is re-implemented in tools/props/c14.py (show) and "
                      "the model's value is compared as printed text plus the four structural pins"]
    import time
    t0 = time.time()
    import translate_module_aliases
    tok, tmsg = translate_module_aliases.main()          # Grass/Generated/ModuleAliases.lean from the Rust `declare` functions
    ck.notes.append("translate_module_aliases: " + tmsg)
    ck.do_prove(cores=("blt",))
    t1 = time.time()
    if not tok:
        ck.unproved("correspondence-broken", {"why": "tools/translate_module_aliases.py could not read the built-in tables", "message": tmsg})
        return ck.finish()
    if not ck.do_build_runner():
        ck.unproved("correspondence-broken", {"why": "runner does not build against /repo", "error": getattr(ck, "build_error", "")})
        return ck.finish()
    pool = RunnerPool()
    n_calls, n_laws, n_nested, n_abc, n_named = SIZES[tier]
    t2 = time.time()
    failing0 = check_tables(ck)
    cases = gen_cases(ck, n_calls, n_nested, n_abc, n_named)
    failing = failing0 + evaluate(ck, pool, cases)
    t3 = time.time()
    failing += run_laws(ck, pool, n_laws)
    t4 = time.time()
    ck.notes.append(f"phase wall times: proof step (lake build incl. waiting for the shared build lock, token scan, axiom audit) "
                    f"{t1 - t0:.0f}s, runner build {t2 - t1:.0f}s, correspondence {t3 - t2:.0f}s, laws {t4 - t3:.0f}s")
    unknown = [f for f in failing if not f["tags"]]
    if (not ck.proof["ok"] or ck.cov["model_disagreements"]) and not unknown and tier == "quick":
        log("[C14] proof or correspondence broken: enlarging the search")
        extra = gen_cases(ck, 25000, 6000, 6000, 6000)[len(CORPUS) + len(CORPUS_NAMED):]
        failing += evaluate(ck, pool, extra, direct_only=True)
        failing += run_laws(ck, pool, 8000)
    failing.sort(key=lambda f: (bool(f["tags"]), len(f["call"])))
    reported = 0
    for f in failing:
        if ck.impl_violation(f["call"], f, tags=f["tags"]):
            reported += 1
    from vlib import known_findings
    for k in known_findings("C14"):
        if k["id"] not in [x["id"] for x in ck.known_seen]:
            ck.notes.append(f"known finding {k['id']} was not reproduced on this run (entry may be stale)")
    if ck.cov["model_disagreements"] and not reported:
        ck.unproved("correspondence-broken", {"correspondence": "blt call now (model Grass.Builtins, Sw.now) vs grass",
                                              "cases": ck.disagreements})
    return ck.finish()


def replay(path):
    r = json.load(open(path))
    ck = Check("C14", "quick", 0)
    ck.do_build_runner()
    pool = RunnerPool(1)
    calls = r.get("call")
    if not calls:
        print(json.dumps(r, indent=1))
        return 0
    exprs = [c.strip() for c in calls.split(" ; ")]
    res = observe(pool, [exprs])[0]
    print("expressions:", exprs)
    print("grass      :", res)
    print("recorded   :", r.get("why"), "| documented:", r.get("documented"), "| impl:", r.get("impl"))
    return 0
