"""C03 program generator: typed ASTs over the modelled Sass core, three concrete forms.

AST (plain tuples, so programs hash, compare and shrink structurally)

  expr  ("num", Fraction) | ("num", Fraction, unit) | ("str", text, quoted) | ("bool", b) | ("null",) | ("var", name)
        ("bin", op, a, b)  op in add sub mul mod div eq ne lt gt le ge and or   (div: `/` spelled so that Sass divides)
        ("neg", a) | ("not", a) | ("list", (e…), sep, bracketed)   sep in "s" "c" "u"
        ("map", ((k, v)…)) | ("call", fname, (pos…), ((name, e)…), rest|None) | ("if", c, a, b)
        ("interp", quoted, ((text, e|None)…))
  stmt  ("decl", prop, e) | ("decli", ((text, e|None)…), e) | ("rule", selector, body) | ("var", name, e, is_global, is_default)
        ("ifs", ((cond, body)…), else_body|None) | ("for", var, lo, hi, inclusive, body)
        ("each", (vars…), e, body) | ("while", cond, body)
        ("func", name, params, body) | ("ret", e) | ("mixin", name, params, body)
        ("incl", name, args, content|None)   content = (params, body)
        ("content", args) | ("debug", e) | ("warn", e) | ("error", e)
  params = (((name, default|None)…), rest|None);  args = ((pos…), ((name, e)…), rest|None)
  body   = tuple of stmt

Concrete forms
  to_tokens(prog) : the Polish-notation token string read by `drv_eval` (Grass/Eval.lean pStmt/pExpr)
  to_scss(prog)   : SCSS text; the expression printer inserts only the parentheses the Sass
                    precedence rules require (or < and < ==,!= < <,>,<=,>= < +,- < *,% < unary;
                    space list < operators; comma list < space list)
  to_sass(prog)   : the same program in the indented syntax

Generators
  gen_program(rng, cfg)      : random mostly-valid program (type- and scope-directed)
  gen_scope_program(rng, …)  : program derived from a scope-operation tree, with the operation
                               sequence for `drv_scope` (D3-style shapes included)
  shrink_candidates(prog)    : one-step structural reductions (delete a statement, replace a
                               block by its body, simplify an expression)
"""
from fractions import Fraction

# ---------------------------------------------------------------------------------------------
# tokens for the Lean driver
# ---------------------------------------------------------------------------------------------


def hx(s):
    b = s.encode("utf-8")
    return b.hex() if b else "-"


def norm(name):
    """Sass identifiers: `_` and `-` are the same character in variable, function and mixin names."""
    return name.replace("_", "-")


def _opt(x, f):
    return ["0"] if x is None else ["1"] + f(x)


def expr_tokens(e):
    k = e[0]
    if k == "num":
        q = Fraction(e[1])
        if len(e) > 2 and e[2]:
            return ["D", str(q.numerator), str(q.denominator), e[2]]
        return ["N", str(q.numerator), str(q.denominator)]
    if k == "str":
        return ["Q" if e[2] else "U", hx(e[1])]
    if k == "bool":
        return ["T" if e[1] else "F"]
    if k == "null":
        return ["Z"]
    if k == "var":
        return ["V", norm(e[1])]
    if k == "bin":
        return ["B", e[1]] + expr_tokens(e[2]) + expr_tokens(e[3])
    if k == "neg":
        return ["NEG"] + expr_tokens(e[1])
    if k == "not":
        return ["NOT"] + expr_tokens(e[1])
    if k == "list":
        out = ["LIST", e[2], "1" if e[3] else "0", str(len(e[1]))]
        for x in e[1]:
            out += expr_tokens(x)
        return out
    if k == "map":
        out = ["MAP", str(len(e[1]))]
        for a, b in e[1]:
            out += expr_tokens(a) + expr_tokens(b)
        return out
    if k == "call":
        return ["CALL", e[1]] + args_tokens((e[2], e[3], e[4]))
    if k == "if":
        return ["IF"] + expr_tokens(e[1]) + expr_tokens(e[2]) + expr_tokens(e[3])
    if k == "interp":
        out = ["INTERP", "1" if e[1] else "0", str(len(e[2]))]
        for t, x in e[2]:
            out += [hx(t)] + _opt(x, expr_tokens)
        return out
    raise ValueError(k)


def args_tokens(a):
    pos, named, rest = a
    out = [str(len(pos))]
    for x in pos:
        out += expr_tokens(x)
    out.append(str(len(named)))
    for n, x in named:
        out += [norm(n)] + expr_tokens(x)
    return out + _opt(rest, expr_tokens)


def params_tokens(p):
    ps, rest = p
    out = [str(len(ps))]
    for n, d in ps:
        out += [norm(n)] + _opt(d, expr_tokens)
    return out + _opt(rest, lambda r: [norm(r)])


def block_tokens(b):
    out = [str(len(b))]
    for s in b:
        out += stmt_tokens(s)
    return out


def stmt_tokens(s):
    k = s[0]
    if k == "decl":
        return ["DECL", hx(s[1])] + expr_tokens(s[2])
    if k == "decli":
        out = ["DECLI", str(len(s[1]))]
        for t, x in s[1]:
            out += [hx(t)] + _opt(x, expr_tokens)
        return out + expr_tokens(s[2])
    if k == "rule":
        return ["RULE", hx(s[1])] + block_tokens(s[2])
    if k == "var":
        return ["VAR", norm(s[1])] + expr_tokens(s[2]) + ["1" if s[3] else "0", "1" if s[4] else "0"]
    if k == "ifs":
        out = ["IFS", str(len(s[1]))]
        for c, b in s[1]:
            out += expr_tokens(c) + block_tokens(b)
        return out + _opt(s[2], block_tokens)
    if k == "for":
        return ["FOR", norm(s[1])] + expr_tokens(s[2]) + expr_tokens(s[3]) + ["1" if s[4] else "0"] + block_tokens(s[5])
    if k == "each":
        return ["EACH", str(len(s[1]))] + [norm(v) for v in s[1]] + expr_tokens(s[2]) + block_tokens(s[3])
    if k == "while":
        return ["WHILE"] + expr_tokens(s[1]) + block_tokens(s[2])
    if k == "func":
        return ["FUNC", s[1]] + params_tokens(s[2]) + block_tokens(s[3])
    if k == "ret":
        return ["RET"] + expr_tokens(s[1])
    if k == "mixin":
        return ["MIXIN", s[1]] + params_tokens(s[2]) + block_tokens(s[3])
    if k == "incl":
        return ["INCL", s[1]] + args_tokens(s[2]) + _opt(s[3], lambda c: params_tokens(c[0]) + block_tokens(c[1]))
    if k == "content":
        return ["CONTENT"] + args_tokens(s[1])
    if k in ("debug", "warn", "error"):
        return [k.upper()] + expr_tokens(s[1])
    raise ValueError(k)


def to_tokens(prog):
    return " ".join(block_tokens(prog))


# ---------------------------------------------------------------------------------------------
# SCSS / indented-syntax printers
# ---------------------------------------------------------------------------------------------

PREC = {"or": 1, "and": 2, "eq": 3, "ne": 3, "lt": 4, "gt": 4, "le": 4, "ge": 4,
        "add": 5, "sub": 5, "mul": 6, "mod": 6, "div": 6}
OPTXT = {"or": "or", "and": "and", "eq": "==", "ne": "!=", "lt": "<", "gt": ">", "le": "<=", "ge": ">=",
         "add": "+", "sub": "-", "mul": "*", "mod": "%", "div": "/"}
P_COMMA, P_SPACE, P_UNARY, P_ATOM = -1, 0, 7, 9


def fmt_num(q):
    q = Fraction(q)
    neg = q < 0
    q = abs(q)
    ip = q.numerator // q.denominator
    r = q.numerator % q.denominator
    ds = []
    for _ in range(12):
        if r == 0:
            break
        r *= 10
        ds.append(str(r // q.denominator))
        r %= q.denominator
    assert r == 0, "generator literal is not a short decimal"
    s = str(ip) + ("." + "".join(ds) if ds else "")
    return ("-" if neg else "") + s


def prec_of(e):
    k = e[0]
    if k == "bin":
        if e[1] == "div" and _slash_operand(e[2]) and _slash_operand(e[3]):
            return P_ATOM       # printed with its own parentheses (see _ex)
        return PREC[e[1]]
    if k in ("neg", "not"):
        return P_UNARY
    if k == "num" and Fraction(e[1]) < 0:
        return P_UNARY          # a negative literal is spelled with a unary minus
    if k == "list":
        if e[3] or len(e[1]) == 0:
            return P_ATOM        # [..] and () are self-delimiting
        if len(e[1]) == 1:
            return P_ATOM        # (x,) is printed with its own parentheses
        return P_COMMA if e[2] == "c" else P_SPACE
    return P_ATOM


def ex(e, minp):
    """Text of `e` in a position that requires precedence >= minp."""
    s = _ex(e)
    return "(" + s + ")" if prec_of(e) < minp else s


def _slash_operand(e):
    """parse/value.rs:532 + ast/expr.rs:170: `a / b` is a slash-separated pair, not a division, when
    both operands are number literals (or such pairs).  Our printer parenthesises exactly those
    divisions (inside parentheses `/` always divides), so a printed operand is a slash operand only
    if it is a number literal."""
    if e[0] == "neg" and e[1][0] == "num" and Fraction(e[1][1]) >= 0:
        return True             # `-10` printed from neg(10) is read back as the literal -10
    return e[0] == "num"


def _ex(e):
    k = e[0]
    if k == "num":
        return fmt_num(e[1]) + (e[2] if len(e) > 2 else "")
    if k == "str":
        return '"' + e[1] + '"' if e[2] else e[1]
    if k == "bool":
        return "true" if e[1] else "false"
    if k == "null":
        return "null"
    if k == "var":
        return "$" + e[1]
    if k == "bin":
        p = PREC[e[1]]
        t = ex(e[2], p) + " " + OPTXT[e[1]] + " " + ex(e[3], p + 1)
        if e[1] == "div" and _slash_operand(e[2]) and _slash_operand(e[3]):
            return "(" + t + ")"
        return t
    if k == "neg":
        # `-name(` and `-name` are identifiers in Sass, so a minus in front of anything that
        # starts with a letter needs parentheses
        if e[1][0] in ("call", "if", "str", "interp", "bool", "null"):
            return "-(" + _ex(e[1]) + ")"
        return "-" + ex(e[1], P_UNARY + 1)
    if k == "not":
        return "not " + ex(e[1], P_UNARY)
    if k == "list":
        es, sep, br = e[1], e[2], e[3]
        if br:
            if len(es) == 1 and sep == "c":
                return "[" + ex(es[0], P_SPACE) + ",]"
            inner = (", " if sep == "c" else " ").join(
                ex(x, P_SPACE if sep == "c" else P_ATOM if (i > 0 and _needs_guard(x)) else P_SPACE + 1) for i, x in enumerate(es))
            return "[" + inner + "]"
        if len(es) == 0:
            return "()"
        if len(es) == 1:
            return "(" + ex(es[0], P_SPACE) + ",)"
        if sep == "c":
            return ", ".join(ex(x, P_SPACE) for x in es)
        # space list: elements must bind tighter than a space list; a leading unary minus would be
        # read as a binary minus after another element, so such elements are parenthesised
        return " ".join(ex(x, P_ATOM if (i > 0 and _needs_guard(x)) else P_SPACE + 1) for i, x in enumerate(es))
    if k == "map":
        return "(" + ", ".join(ex(a, P_SPACE) + ": " + ex(b, P_SPACE) for a, b in e[1]) + ")"
    if k == "call":
        return e[1] + "(" + args_text((e[2], e[3], e[4])) + ")"
    if k == "if":
        return "if(" + ", ".join(ex(x, P_SPACE) for x in e[1:4]) + ")"
    if k == "interp":
        body = "".join(t + ("#{" + ex(x, P_COMMA) + "}" if x is not None else "") for t, x in e[2])
        return '"' + body + '"' if e[1] else body
    raise ValueError(k)


def _needs_guard(x):
    """Would the text of `x` start with a minus sign (read as a binary minus after a list element)?"""
    k = x[0]
    if k == "num":
        return Fraction(x[1]) < 0
    if k == "neg":
        return True
    if k == "bin":
        return prec_of(x[2]) >= PREC[x[1]] and _needs_guard(x[2])
    return False


def args_text(a):
    pos, named, rest = a
    parts = [ex(x, P_SPACE) for x in pos] + ["$" + n + ": " + ex(x, P_SPACE) for n, x in named]
    if rest is not None:
        parts.append(ex(rest, P_SPACE + 1) + "...")
    return ", ".join(parts)


def params_text(p):
    ps, rest = p
    parts = ["$" + n + (": " + ex(d, P_SPACE) if d is not None else "") for n, d in ps]
    if rest is not None:
        parts.append("$" + rest + "...")
    return ", ".join(parts)


def _head(s):
    """(header text, body or None) for one statement; body None = simple statement."""
    k = s[0]
    if k == "decl":
        return s[1] + ": " + ex(s[2], P_COMMA), None
    if k == "decli":
        name = "".join(t + ("#{" + ex(x, P_COMMA) + "}" if x is not None else "") for t, x in s[1])
        return name + ": " + ex(s[2], P_COMMA), None
    if k == "rule":
        return s[1], s[2]
    if k == "var":
        return "$" + s[1] + ": " + ex(s[2], P_COMMA) + (" !default" if s[4] else "") + (" !global" if s[3] else ""), None
    if k == "for":
        return "@for $%s from %s %s %s" % (s[1], ex(s[2], P_SPACE + 1), "through" if s[4] else "to", ex(s[3], P_SPACE + 1)), s[5]
    if k == "each":
        return "@each " + ", ".join("$" + v for v in s[1]) + " in " + ex(s[2], P_COMMA), s[3]
    if k == "while":
        return "@while " + ex(s[1], P_SPACE + 1), s[2]
    if k == "func":
        return "@function %s(%s)" % (s[1], params_text(s[2])), s[3]
    if k == "ret":
        return "@return " + ex(s[1], P_COMMA), None
    if k == "mixin":
        return "@mixin %s(%s)" % (s[1], params_text(s[2])), s[3]
    if k == "incl":
        a = s[2]
        h = "@include " + s[1] + ("(" + args_text(a) + ")" if (a[0] or a[1] or a[2] is not None) else "")
        if s[3] is not None:
            ps = s[3][0]
            if ps[0] or ps[1] is not None:
                h += " using (" + params_text(ps) + ")"
            return h, s[3][1]
        return h, None
    if k == "content":
        a = s[1]
        return "@content" + ("(" + args_text(a) + ")" if (a[0] or a[1] or a[2] is not None) else ""), None
    if k in ("debug", "warn", "error"):
        return "@" + k + " " + ex(s[1], P_COMMA), None
    if k == "import":
        return '@import "' + s[1] + '"', None
    raise ValueError(k)


def scss_lines(body, ind, out):
    pad = "  " * ind
    for s in body:
        if s[0] == "ifs":
            for i, (c, b) in enumerate(s[1]):
                kw = "@if " if i == 0 else "} @else if "
                out.append(pad + kw + ex(c, P_SPACE + 1) + " {")
                scss_lines(b, ind + 1, out)
            if s[2] is not None:
                out.append(pad + "} @else {")
                scss_lines(s[2], ind + 1, out)
            out.append(pad + "}")
            continue
        h, b = _head(s)
        if b is None:
            out.append(pad + h + ";")
        else:
            out.append(pad + h + " {")
            scss_lines(b, ind + 1, out)
            out.append(pad + "}")


USE_MATH = '@use "sass:math"'


def to_scss(prog):
    out = []
    scss_lines(prog, 0, out)
    if any("math.div(" in l for l in out):
        out.insert(0, USE_MATH + ";")
    return "\n".join(out) + "\n"


def sass_lines(body, ind, out):
    pad = "  " * ind
    if not body:
        return
    for s in body:
        if s[0] == "ifs":
            for i, (c, b) in enumerate(s[1]):
                out.append(pad + ("@if " if i == 0 else "@else if ") + ex(c, P_SPACE + 1))
                sass_lines(b, ind + 1, out)
            if s[2] is not None:
                out.append(pad + "@else")
                sass_lines(s[2], ind + 1, out)
            continue
        h, b = _head(s)
        out.append(pad + h)
        if b is not None:
            sass_lines(b, ind + 1, out)


def to_sass(prog):
    out = []
    sass_lines(prog, 0, out)
    if any("math.div(" in l for l in out):
        out.insert(0, USE_MATH)
    return "\n".join(out) + "\n"


# ---------------------------------------------------------------------------------------------
# random programs (type- and scope-directed)
# ---------------------------------------------------------------------------------------------

WORDS = ["alpha", "beta", "gamma", "delta", "kappa", "sigma"]
QWORDS = ["foo", "bar baz", "x1", "q-r", "", "w_z"]
TYPES = ["num", "str", "bool", "list", "map", "px", "em"]
# "px" / "em": numbers with a unit — two type names, spelled with the two units picked per program
UNIT_TYPES = ("px", "em")
UNITS = ["px", "em", "rem", "%", "s", "deg", "vw", "fr"]       # = Grass.Eval.knownUnits (pairwise inconvertible)
DYADIC_DIVISORS = [Fraction(2), Fraction(4), Fraction(-2), Fraction(1, 2), Fraction(8), Fraction(1)]
DECIMALS = [Fraction(1, 2), Fraction(1, 4), Fraction(3, 4), Fraction(3, 2), Fraction(5, 2), Fraction(-1, 2)]


class Cfg:
    def __init__(self, depth=4, max_stmts=25, p_error=0.06):
        self.depth, self.max_stmts, self.p_error = depth, max_stmts, p_error


class Scope:
    """What the generator knows at a program point."""

    def __init__(self, parent=None, kind="block"):
        self.parent, self.kind = parent, kind
        self.vars = {}      # name -> type
        self.fns = {}       # name -> (params, ret type, pure)
        self.mixins = {}    # name -> (params, needs_rule, has_content, content_arity)

    def lookup(self, table, pred=lambda n, v: True):
        out, s, seen = [], self, set()
        while s is not None:
            for n, v in getattr(s, table).items():
                if n not in seen and pred(n, v):
                    out.append((n, v))
                seen.add(n)
            s = s.parent
        return out

    def root(self):
        s = self
        while s.parent is not None:
            s = s.parent
        return s


class Gen:
    def __init__(self, rng, cfg):
        self.rng, self.cfg = rng, cfg
        self.n_stmts = 0
        self.counter = 0
        self.features = set()
        self.want_error = rng.random() < cfg.p_error
        self.error_done = False
        self.no_str_vars = False
        self.stop_range = (0, 3)
        u = rng.sample(UNITS, 2)
        self.units = {"px": u[0], "em": u[1]}

    # -- names --------------------------------------------------------------------------------
    def fresh(self, prefix):
        self.counter += 1
        return f"{prefix}{self.counter}"

    def sp(self, name):
        """`$a-b` and `$a_b` are the same variable: spell it either way at each occurrence."""
        if "-" in name or "_" in name:
            n = name.replace("_", "-")
            return n.replace("-", "_") if self.rng.random() < 0.5 else n
        return name

    def var_name(self, sc):
        r = self.rng
        if r.random() < 0.55:
            return r.choice(["x", "y", "z", "w", "a-b", "c_d"])
        return self.fresh("v")

    # -- expressions --------------------------------------------------------------------------
    def lit(self, ty):
        r = self.rng
        if ty in UNIT_TYPES:
            q = r.choice(DECIMALS) if r.random() < 0.2 else Fraction(r.randint(-4, 12))
            return ("num", q, self.units[ty])
        if ty == "num":
            return ("num", r.choice(DECIMALS)) if r.random() < 0.2 else ("num", Fraction(r.randint(-6, 12)))
        if ty == "str":
            return ("str", r.choice(WORDS), False) if r.random() < 0.5 else ("str", r.choice(QWORDS), True)
        if ty == "bool":
            return ("bool", r.random() < 0.5)
        if ty == "null":
            return ("null",)
        if ty == "list":
            n = r.choice([0, 1, 2, 2, 3, 3, 4])
            sep = r.choice(["s", "c"]) if n >= 2 else r.choice(["u", "c"]) if n == 1 else "u"
            br = r.random() < 0.15
            if n == 1 and sep == "u" and not br:
                sep = "c"
            return ("list", tuple(("num", Fraction(r.randint(0, 9))) for _ in range(n)), sep, br)
        if ty == "map":
            n = r.choice([1, 2, 2, 3])
            keys = r.sample(WORDS, n)
            return ("map", tuple((("str", k, False), ("num", Fraction(r.randint(0, 9)))) for k in keys))
        raise ValueError(ty)

    def expr(self, sc, ty, d, pure=False):
        """An expression of static type `ty` (num str bool list map any)."""
        r = self.rng
        if ty == "any":
            ty = r.choice(["num", "num", "str", "str", "bool", "list", "map", "null", "mixed", "px", "em"])
        if ty == "null":
            return ("null",)
        if ty == "cunit":
            return self.complex_unit(sc, max(d, 1), pure)
        if ty == "mixed":
            return self.mixed(sc, d, pure)
        vs = sc.lookup("vars", lambda n, t: t == ty)
        if ty == "str" and self.no_str_vars:
            vs = []      # keeps strings from doubling in loops (`$s: $s + $s`)
        if d <= 0 or r.random() < 0.25:
            if vs and r.random() < 0.6:
                return ("var", self.sp(r.choice(vs)[0]))
            return self.lit(ty)
        if vs and r.random() < 0.3:
            return ("var", self.sp(r.choice(vs)[0]))
        fns = [] if (pure or (ty == "str" and self.no_str_vars)) else sc.lookup("fns", lambda n, f: f[1] == ty)
        if fns and r.random() < 0.3:
            return self.call(sc, r.choice(fns), d, pure)
        if r.random() < 0.08:
            self.features.add("if()")
            return ("if", self.expr(sc, "bool", d - 1, pure), self.expr(sc, ty, d - 1, pure), self.expr(sc, ty, d - 1, pure))
        if ty in UNIT_TYPES:
            return self.unit_expr(sc, ty, d, pure)
        if ty == "num":
            c = r.random()
            if c < 0.12:
                # a quotient: same-unit operands give a unitless number; divisors are non-zero dyadic literals
                self.features.add("div")
                t = r.choice(["num", "px", "em"])
                dv = r.choice(DYADIC_DIVISORS)
                b = ("num", dv, self.units[t]) if t in UNIT_TYPES else ("num", dv)
                if t != "num":
                    self.features.add("div:unit/unit")
                return self.div(self.expr(sc, t, d - 1, pure), b)
            c = r.random()
            if c < 0.6:
                op = r.choice(["add", "add", "sub", "sub", "mul", "mod"])
                b = self.expr(sc, "num", d - 1, pure)
                if op == "mod":
                    b = ("num", Fraction(r.choice([2, 3, 4, 5, -3])))
                return ("bin", op, self.expr(sc, "num", d - 1, pure), b)
            if c < 0.7:
                return ("neg", self.expr(sc, "num", d - 1, pure))
            if c < 0.8:
                self.features.add("builtin")
                return ("call", "length", (self.expr(sc, r.choice(["list", "map"]), d - 1, pure),), (), None)
            return self.lit("num")
        if ty == "str":
            c = r.random()
            if c < 0.5:
                self.features.add("str+")
                if r.random() < 0.7:
                    a = self.expr(sc, "str", d - 1, pure)
                    saved, self.no_str_vars = self.no_str_vars, True
                    b = self.expr(sc, r.choice(["str", "num", "bool"]), d - 1, pure)
                    self.no_str_vars = saved
                    return ("bin", "add", a, b)
                return ("bin", "add", self.expr(sc, "num", d - 1, pure), self.expr(sc, "str", d - 1, pure))
            if c < 0.7:
                self.features.add("interp")
                quoted = r.random() < 0.6
                if not quoted:
                    self.features.add("interp-unquoted")
                return ("interp", quoted, self.interp_parts(sc, d, pure, quoted))
            if c < 0.8:
                self.features.add("builtin")
                return ("call", "type-of", (self.expr(sc, "any", d - 1, pure),), (), None)
            if c < 0.86:
                self.features.add("unit()")
                return ("call", "unit", (self.expr(sc, r.choice(["px", "em", "num", "cunit"]), d - 1, pure),), (), None)
            if c < 0.92:
                # inspect() of anything but a string (the result would contain quote characters)
                self.features.add("inspect()")
                return ("call", "inspect", (self.expr(sc, r.choice(["num", "px", "bool", "list", "map", "null", "cunit"]), d - 1, pure),), (), None)
            return self.lit("str")
        if ty == "bool":
            c = r.random()
            if c < 0.08:
                return self.exists_call(sc)
            c = r.random()
            if c < 0.4:
                t = r.choice(["num", "num", "px", "em"])
                if t != "num":
                    self.features.add("units-compare")
                    if r.random() < 0.3:
                        # a unitless number compares with any unit
                        return ("bin", r.choice(["lt", "gt", "le", "ge"]), self.expr(sc, t, d - 1, pure), self.expr(sc, "num", d - 1, pure))
                return ("bin", r.choice(["lt", "gt", "le", "ge"]), self.expr(sc, t, d - 1, pure), self.expr(sc, t, d - 1, pure))
            if c < 0.6:
                t = r.choice(["num", "str", "bool", "list", "px"])
                if t == "px":
                    self.features.add("units-equal")
                    return ("bin", r.choice(["eq", "ne"]), self.expr(sc, "px", d - 1, pure),
                            self.expr(sc, r.choice(["px", "px", "em", "num"]), d - 1, pure))
                return ("bin", r.choice(["eq", "ne"]), self.expr(sc, t, d - 1, pure), self.expr(sc, t, d - 1, pure))
            if c < 0.8:
                self.features.add("and/or")
                return ("bin", r.choice(["and", "or"]), self.expr(sc, "bool", d - 1, pure), self.expr(sc, "bool", d - 1, pure))
            if c < 0.9:
                return ("not", self.expr(sc, "bool", d - 1, pure))
            return self.lit("bool")
        if ty == "list":
            c = r.random()
            if c < 0.5:
                n = r.choice([2, 3])
                sep = r.choice(["s", "c"])
                return ("list", tuple(self.expr(sc, "num", d - 1, pure) for _ in range(n)), sep, r.random() < 0.1)
            return self.lit("list")
        if ty == "map":
            if r.random() < 0.5:
                n = r.choice([1, 2, 3])
                keys = r.sample(WORDS, n)
                return ("map", tuple((("str", k, r.random() < 0.3), self.expr(sc, "num", d - 1, True)) for k in keys))
            return self.lit("map")
        raise ValueError(ty)

    # -- numbers with units, division ------------------------------------------------------------
    def div(self, a, b):
        """`a / b` as a division: the operator (the printer parenthesises it where Sass would read a
        slash) or `math.div`."""
        if self.rng.random() < 0.4:
            self.features.add("math.div")
            return ("call", "math.div", (a, b), (), None)
        self.features.add("div:slash-literals" if (a[0] == "num" and b[0] == "num") else "div:operator")
        return ("bin", "div", a, b)

    def unit_expr(self, sc, ty, d, pure):
        """A number in the unit of type `ty` (same-unit arithmetic only)."""
        r = self.rng
        self.features.add("units")
        c = r.random()
        if c < 0.3:
            return ("bin", r.choice(["add", "sub"]), self.expr(sc, ty, d - 1, pure), self.expr(sc, ty, d - 1, pure))
        if c < 0.38:
            # a unitless operand takes the other operand's unit
            a, b = self.expr(sc, ty, d - 1, pure), self.expr(sc, "num", d - 1, pure)
            self.features.add("units:+unitless")
            return ("bin", r.choice(["add", "sub"]), a, b) if r.random() < 0.5 else ("bin", "add", b, a)
        if c < 0.5:
            a, b = self.expr(sc, ty, d - 1, pure), self.expr(sc, "num", d - 1, pure)
            self.features.add("units:mul")
            return ("bin", "mul", a, b) if r.random() < 0.5 else ("bin", "mul", b, a)
        if c < 0.64:
            self.features.add("div")
            self.features.add("div:unit/unitless")
            return self.div(self.expr(sc, ty, d - 1, pure), ("num", r.choice(DYADIC_DIVISORS)))
        if c < 0.72:
            self.features.add("units:mod")
            m = ("num", Fraction(r.choice([2, 3, 4, 5, -3])), self.units[ty]) if r.random() < 0.7 else ("num", Fraction(r.choice([2, 3, -3])))
            return ("bin", "mod", self.expr(sc, ty, d - 1, pure), m)
        if c < 0.8:
            return ("neg", self.expr(sc, ty, d - 1, pure))
        return self.lit(ty)

    def complex_unit(self, sc, d, pure):
        """A number whose unit is not a single unit: u*u, u*v, 1/u, v/u (printable by @debug, unit()
        and inspect() only; in a declaration or an interpolation it is not a valid CSS value)."""
        r = self.rng
        self.features.add("units-complex")
        a = self.expr(sc, r.choice(UNIT_TYPES), d - 1, pure)
        c = r.random()
        if c < 0.35:
            return ("bin", "mul", a, self.expr(sc, r.choice(UNIT_TYPES), d - 1, pure))
        if c < 0.7:
            return self.div(self.expr(sc, "num", d - 1, pure), ("num", r.choice(DYADIC_DIVISORS), self.units[r.choice(UNIT_TYPES)]))
        if c < 0.85:
            # (u*v)/v cancels back to u, (u*u)/u to u
            t = r.choice(UNIT_TYPES)
            return self.div(("bin", "mul", a, self.expr(sc, t, d - 1, pure)), ("num", r.choice(DYADIC_DIVISORS), self.units[t]))
        return self.div(a, ("num", r.choice(DYADIC_DIVISORS), self.units["em"]))

    def interp_parts(self, sc, d, pure, quoted):
        r = self.rng
        parts = []
        saved = self.no_str_vars
        texts = ["", "k", "m-", "t "] if quoted else ["", "k", "m-", "w"]
        for i in range(r.choice([1, 2])):
            t = r.choice(["num", "str", "bool", "px", "list", "null", "strlist"])
            if t == "strlist":
                # quoted strings lose their quotes at every list level; null elements vanish
                self.features.add("interp-list")
                e = ("list", tuple(self.expr(sc, r.choice(["str", "str", "num", "null", "px"]), 0, pure) for _ in range(r.choice([2, 3]))),
                     r.choice(["s", "c"]), r.random() < 0.2)
            else:
                if t == "list":
                    self.features.add("interp-list")
                e = self.expr(sc, t, d - 1, pure)
            txt = r.choice(texts)
            if not quoted and i == 0 and txt == "":
                txt = "k"
            parts.append((txt, e))
            if t == "str":
                self.no_str_vars = True
        self.no_str_vars = saved
        parts.append((r.choice(["", "e"]), None))
        return tuple(parts)

    def exists_call(self, sc):
        """variable-exists / global-variable-exists / function-exists / mixin-exists on a visible or an
        unknown name, spelled with either quote style and either `-`/`_`."""
        r = self.rng
        self.features.add("meta-exists")
        k = r.choice(["variable-exists", "variable-exists", "global-variable-exists", "function-exists", "mixin-exists"])
        if k in ("variable-exists", "global-variable-exists"):
            names = [n for n, _ in sc.lookup("vars")] + ["nope", "a-b", "g1"]
        elif k == "function-exists":
            names = [n for n, _ in sc.lookup("fns")] + ["nofn1", "length", "nofn-x"]
        else:
            names = [n for n, _ in sc.lookup("mixins")] + ["nomx"]
        return ("call", k, (("str", self.sp(r.choice(names)), r.random() < 0.5),), (), None)

    def mixed(self, sc, d, pure):
        """Expressions whose static type is a union: short-circuit operators over non-booleans,
        nested lists, map-get, nth, if() with different branches."""
        r = self.rng
        if r.random() < 0.12:
            return self.complex_unit(sc, d, pure)
        c = r.random()
        if c < 0.35:
            self.features.add("and/or")
            return ("bin", r.choice(["and", "or"]), self.expr(sc, r.choice(["num", "str", "bool", "null"]), d - 1, pure),
                    self.expr(sc, r.choice(["num", "str", "bool", "null"]), d - 1, pure))
        if c < 0.55:
            self.features.add("nested-list")
            n = r.choice([2, 3])
            return ("list", tuple(self.expr(sc, r.choice(["num", "str", "list", "bool", "null"]), d - 1, pure) for _ in range(n)),
                    r.choice(["s", "c"]), r.random() < 0.15)
        if c < 0.7:
            self.features.add("builtin")
            return ("call", "map-get", (self.expr(sc, "map", d - 1, pure), ("str", r.choice(WORDS), r.random() < 0.3)), (), None)
        if c < 0.85:
            self.features.add("builtin")
            return ("call", "nth", (self.expr(sc, "list", d - 1, pure), ("num", Fraction(r.choice([1, 1, 2, 2, 3, -1, 5])))), (), None)
        self.features.add("if()")
        return ("if", self.expr(sc, "bool", d - 1, pure), self.expr(sc, r.choice(["num", "str"]), d - 1, pure),
                self.expr(sc, r.choice(["num", "str", "null"]), d - 1, pure))

    def args_for(self, sc, params, d, pure, ptypes):
        """A (mostly) valid argument list for a parameter declaration."""
        r = self.rng
        ps, rest = params
        pos, named = [], []
        npos = r.randint(0, len(ps))
        effectful_named = False
        for i, (n, dflt) in enumerate(ps):
            ty = ptypes.get(n, "num")
            if ty == "stopnum":
                e = ("num", Fraction(self.rng.randint(*self.stop_range)))
                if i < npos:
                    pos.append(e)
                else:
                    named.append((n, e))
                continue
            if ty == "smallnum":
                # recursion depth argument: kept small
                e = ("bin", "mod", self.expr(sc, "num", d - 1, pure), ("num", Fraction(6)))
                if i < npos:
                    pos.append(e)
                else:
                    named.append((n, e))
                continue
            if i < npos:
                pos.append(self.expr(sc, ty, d - 1, pure))
            else:
                if dflt is not None and r.random() < 0.5:
                    continue
                # named arguments are evaluated in source order (N1 was repaired): any number of
                # them may have side effects or read state
                named.append((n, self.expr(sc, ty, d - 1, pure)))
                self.features.add("named-arg")
        if named:
            r.shuffle(named)
        rest_e = None
        if rest is not None and npos == len(ps) and not named:
            c = r.random()
            if c < 0.35:
                for _ in range(r.choice([1, 2, 3])):
                    pos.append(self.expr(sc, "num", d - 1, pure))
                self.features.add("rest-param")
            elif c < 0.7:
                # `f($list...)`: space, comma, bracketed, single-element and empty lists; an
                # enclosing callable's own `$rest...` is passed on with its keywords
                if dict(sc.lookup("vars")).get("rest") == "list" and r.random() < 0.4:
                    rest_e = ("var", "rest")
                    self.features.add("rest-passed-on")
                else:
                    rest_e = self.expr(sc, "list", d - 1, pure)
                self.features.add("rest-arg")
        if rest is not None and (ptypes.get("__kw__") and r.random() < 0.6 or r.random() < 0.04):
            # extra named arguments end up in the argument list's keywords, in source order
            for nm in r.sample(["kx", "ky", "kz"], r.choice([1, 2, 2, 3])):
                named.append((nm, self.expr(sc, r.choice(["num", "str", "bool"]), d - 1, pure)))
            self.features.add("extra-named")
        elif rest is None and ps and npos == len(ps) and not named and r.random() < 0.1 and all(ptypes.get(n) == "num" for n, _ in ps):
            # pass every positional argument through `(a, b, c)...`
            rest_e = ("list", tuple(pos), "c", False)
            if len(pos) == 1:
                rest_e = ("list", tuple(pos), "c", False)
            pos = []
            self.features.add("rest-arg")
        return (tuple(pos), tuple(named), rest_e)

    def call(self, sc, fn, d, pure):
        name, (params, ret, fpure, ptypes) = fn
        a = self.args_for(sc, params, d, pure, ptypes)
        self.features.add("fn-call")
        return ("call", name, a[0], a[1], a[2])

    # -- statements ---------------------------------------------------------------------------
    def budget(self):
        return self.n_stmts < self.cfg.max_stmts

    def block(self, sc, depth, ctx, lo=1, hi=4):
        ctx = dict(ctx, at_root=False)
        out = []
        n = self.rng.randint(lo, hi)
        for _ in range(n):
            if not self.budget():
                break
            s = self.stmt(sc, depth, ctx)
            if s is not None:
                out.extend(s)
        return tuple(out)

    def params(self, sc, d):
        r = self.rng
        n = r.choice([0, 1, 1, 2, 2, 3])
        ps, ptypes = [], {}
        seen_default = False
        inner = Scope(sc, "callable")
        for i in range(n):
            name = r.choice(["p", "q", "r", "s", "t"]) + str(i)
            ty = r.choice(["num", "num", "str", "bool", "px"])
            dflt = None
            if seen_default or r.random() < 0.3:
                seen_default = True
                earlier = [n for n, t in inner.vars.items() if t == ty]
                if earlier and r.random() < 0.4:
                    # a default that refers to an earlier parameter (evaluated in the callee's scope)
                    dflt = ("var", r.choice(earlier))
                    if ty in ("num", "px") and r.random() < 0.5:
                        dflt = ("bin", "add", dflt, self.lit(ty))
                else:
                    dflt = self.expr(inner, ty, 1, pure=True)
                if has_var(dflt):
                    self.features.add("default-refs-param")
                self.features.add("default-arg")
            ps.append((name, dflt))
            ptypes[name] = ty
            inner.vars[name] = ty
        rest = None
        if r.random() < 0.3:
            rest = "rest"
            inner.vars[rest] = "list"
            # does the body read the argument list's keywords (then extra named arguments are fine)?
            ptypes["__kw__"] = r.random() < 0.6
        return (tuple(ps), rest), ptypes, inner

    def rest_prefix(self, params, ptypes):
        """Statements that observe a rest parameter: its separator and its keywords."""
        if params[1] is None:
            return ()
        out = []
        R = ("var", "rest")
        if self.rng.random() < 0.7:
            out.append(("debug", ("call", "list-separator", (R,), (), None)))
            self.features.add("list-separator($rest)")
        if ptypes.get("__kw__"):
            out.append(("debug", ("call", "keywords", (R,), (), None)))
            self.features.add("keywords()")
        if self.rng.random() < 0.5:
            out.append(("debug", R))
        return tuple(out)

    def stmt(self, sc, depth, ctx):
        """ctx: dict(in_rule, in_fn, in_mixin, ret, top_ctl) -> list of statements or None."""
        r = self.rng
        self.n_stmts += 1
        in_rule, in_fn = ctx["in_rule"], ctx["in_fn"]
        choices = ["var", "var", "var", "assign", "assign", "debug", "debug"]
        if in_rule and not in_fn:
            choices += ["decl", "decl", "decl"]
        if depth > 0:
            choices += ["if", "if", "for", "each", "while"]
            if not in_fn:
                choices += ["rule", "rule"]
                if sc.lookup("mixins", lambda n, m: (not m[1]) or in_rule):
                    choices += ["include"] * 6
                if not ctx["in_callable_or_ctl"]:
                    choices += ["mixin", "func", "func"]
        if in_fn:
            choices += ["ret"]
        if ctx["in_mixin"] and not in_fn:
            choices += ["content", "content"]
        choices += ["warn"]
        if self.want_error and not self.error_done and r.random() < 0.15:
            self.error_done = True
            return self.bad_stmt(sc, depth, ctx)
        k = r.choice(choices)
        d = min(3, depth + 1)
        if k == "var":
            name = self.var_name(sc)
            known = dict(sc.lookup("vars")).get(name)
            if known is not None and known not in TYPES:
                return None
            ty = known or r.choice(["num", "num", "num", "str", "bool", "list", "map", "px", "px", "em"])
            glob = r.random() < 0.15
            dflt = r.random() < 0.12
            if known is None and not ctx.get("at_root") and r.random() < 0.04:
                # `!global` from a nested scope creates a NEW global (env.rs:341 insert_var: global scope)
                gname = self.fresh("gn")
                self.features.add("!global-new")
                return [("var", gname, self.expr(sc, ty, d), True, False), ("debug", ("var", gname))]
            if known is None and r.random() < 0.06:
                # `!default` assigns when the variable is null
                self.features.add("!default-null")
                sc.vars[name] = ty
                return [("var", self.sp(name), ("null",), False, False), ("var", self.sp(name), self.expr(sc, ty, d), False, True),
                        ("debug", ("var", self.sp(name)))]
            if glob:
                # `!global` only on the pre-declared globals g1 (number) and g2 (string), so that
                # later reads are defined whichever branches ran
                name = r.choice(["g1", "g2"])
                ty = "num" if name == "g1" else "str"
                if sc.root().vars.get(name) != ty:
                    return None
                self.features.add("!global")
                if dict(sc.lookup("vars")).get(name) == ty and sc.root() is not sc:
                    self.features.add("global-from-nested")
            e = self.expr(sc, ty, d)
            if not glob:
                if known is None:
                    sc.vars[name] = ty
            if dflt:
                self.features.add("!default")
            return [("var", self.sp(name), e, glob, dflt)]
        if k == "assign":
            vs = sc.lookup("vars", lambda n, t: t in TYPES)
            if not vs:
                return None
            name, ty = r.choice(vs)
            if sc.vars.get(name) is None:
                self.features.add("nested-assign")
            return [("var", self.sp(name), self.expr(sc, ty, d), False, False)]
        if k == "debug":
            return [("debug", self.expr(sc, "any", d))]
        if k == "warn":
            return [("warn", self.expr(sc, r.choice(["num", "str", "bool", "list", "px"]), d))]
        if k == "decl":
            v = self.expr(sc, r.choice(["num", "str", "bool", "list", "mixed", "px", "em"]), d)
            if r.random() < 0.12:
                # interpolated property name: text and `#{…}` pieces (identifier characters only)
                self.features.add("decl-interp-name")
                pieces = [(r.choice(["p-", "w", "m-n-"]), r.choice([("str", r.choice(WORDS), r.random() < 0.5), ("num", Fraction(r.randint(0, 9))),
                                                                  self.expr(sc, "str", 1, True)])),
                          (r.choice(["", "-z"]), None)]
                return [("decli", tuple(pieces), v)]
            return [("decl", r.choice(["p", "q", "margin", "width", "m-n"]), v)]
        if k == "rule":
            inner = Scope(sc)
            c2 = dict(ctx, in_rule=True)
            return [("rule", r.choice(["a", "b", "c", ".k", "d"]), self.block(inner, depth - 1, c2))]
        if k == "if":
            self.features.add("@if")
            clauses = []
            for _ in range(r.choice([1, 1, 2, 3])):
                clauses.append((self.expr(sc, "bool", d), self.block(Scope(sc), depth - 1, dict(ctx, in_callable_or_ctl=True), 1, 3)))
            els = self.block(Scope(sc), depth - 1, dict(ctx, in_callable_or_ctl=True), 1, 3) if r.random() < 0.5 else None
            return [("ifs", tuple(clauses), els)]
        if k == "for":
            self.features.add("@for")
            inner = Scope(sc)
            v = r.choice(["i", "j", "k"])
            pre, head = [], ()
            outer = sc.lookup("vars", lambda n, t: t == "num" and n not in ("g1",))
            if outer and r.random() < 0.35:
                # the loop variable shadows an outer variable that was read just before the loop
                # (the read leaves the lookup cache pointing at the outer frame)
                v = r.choice(outer)[0]
                self.features.add("loop-var-shadows-just-read")
                pre = [("debug", ("var", self.sp(v)))]
                head = (("debug", ("var", self.sp(v))),)
            inner.vars[v] = "num"
            lo, hi = r.randint(-2, 5), r.randint(-2, 5)
            lo_e = ("num", Fraction(lo)) if r.random() < 0.7 else self.small_num(sc, lo)
            hi_e = ("num", Fraction(hi)) if r.random() < 0.7 else self.small_num(sc, hi)
            body = head + self.block(inner, depth - 1, dict(ctx, in_callable_or_ctl=True), 1, 3)
            post = [("debug", ("var", self.sp(v)))] if pre else []
            return pre + [("for", self.sp(v) if pre else v, lo_e, hi_e, r.random() < 0.5, body)] + post
        if k == "each":
            self.features.add("@each")
            inner = Scope(sc)
            c = r.random()
            if c < 0.5:
                v = r.choice(["e", "f"])
                pre, head = [], ()
                outer = sc.lookup("vars", lambda n, t: t == "num" and n not in ("g1",))
                if outer and r.random() < 0.35:
                    v = r.choice(outer)[0]
                    self.features.add("loop-var-shadows-just-read")
                    pre = [("debug", ("var", self.sp(v)))]
                    head = (("debug", ("var", self.sp(v))),)
                lst = self.expr(sc, "list", d)
                inner.vars[v] = "num"
                body = head + self.block(inner, depth - 1, dict(ctx, in_callable_or_ctl=True), 1, 3)
                post = [("debug", ("var", self.sp(v)))] if pre else []
                return pre + [("each", (v,), lst, body)] + post
            if c < 0.8:
                self.features.add("@each-map")
                inner.vars["k"] = "str"
                inner.vars["v"] = "num"
                return [("each", ("k", "v"), self.expr(sc, "map", d), self.block(inner, depth - 1, dict(ctx, in_callable_or_ctl=True), 1, 3))]
            self.features.add("@each-destructure")
            nv = r.choice([2, 2, 3])
            names = ("m", "n", "o")[:nv]
            lens = [r.choice([1, 2, 2, 3, 4]) for _ in range(r.choice([2, 3, 3, 4]))]
            if r.random() < 0.7:
                # ragged: a shorter element follows a longer one (its missing positions are null)
                j = r.randrange(len(lens) - 1)
                lens[j], lens[j + 1] = max(nv, lens[j]), r.randint(1, nv - 1)
                self.features.add("@each-ragged")
            rows = tuple(("list", tuple(("num", Fraction(r.randint(0, 9))) for _ in range(n_)), r.choice(["s", "s", "c"]), False)
                         for n_ in lens)
            rows = tuple(x if len(x[1]) != 1 else x[1][0] for x in rows)
            inner.vars["m"] = "num"
            for nm in names[1:]:
                inner.vars[nm] = "mixednull"
            lst = ("list", rows, "c", False)
            if any(x[0] == "list" and x[2] == "c" for x in rows):
                lst = ("list", rows, "s", False)
            body = tuple(("debug", ("var", nm)) for nm in names) + \
                self.block(inner, depth - 1, dict(ctx, in_callable_or_ctl=True), 0, 2)
            return [("each", names, lst, body)]
        if k == "while":
            self.features.add("@while")
            cn = self.fresh("n")
            sc.vars[cn] = "counter"
            inner = Scope(sc)
            bound = r.randint(0, 4)
            body = self.block(inner, depth - 1, dict(ctx, in_callable_or_ctl=True), 0, 2)
            body = body + (("var", cn, ("bin", "add", ("var", cn), ("num", Fraction(1))), False, False),)
            return [("var", cn, ("num", Fraction(0)), False, False),
                    ("while", ("bin", "lt", ("var", cn), ("num", Fraction(bound))), body)]
        if k in ("func", "mixin"):
            return self.callable_stmt(sc, depth, ctx, k)
        return self.stmt_rest(sc, depth, ctx, k, d)

    def callable_stmt(self, sc, depth, ctx, k):
        r = self.rng
        d = min(3, depth + 1)
        if k == "func":
            self.features.add("@function")
            name = self.fresh("f")
            params, ptypes, inner = self.params(sc, d)
            ret = r.choice(["num", "num", "str", "bool", "px"])
            c2 = dict(in_rule=False, in_fn=True, in_mixin=False, ret=ret, in_callable_or_ctl=True)
            body = self.rest_prefix(params, ptypes) + self.block(inner, min(depth - 1, 2), c2, 0, 3)
            body = body + (("ret", self.expr(inner, ret, d)),)
            sc.fns[name] = (params, ret, False, ptypes)
            return [("func", name, params, body)]
        if k == "mixin":
            self.features.add("@mixin")
            name = self.fresh("m")
            params, ptypes, inner = self.params(sc, d)
            has_content = r.random() < 0.4
            carity = r.choice([0, 0, 1]) if has_content else 0
            c2 = dict(in_rule=ctx["in_rule"], in_fn=False, in_mixin=has_content, ret=None, in_callable_or_ctl=True,
                      content_arity=carity)
            needs_rule = ctx["in_rule"]
            if not needs_rule and r.random() < 0.5:
                needs_rule = True
                c2["in_rule"] = True
            body = self.rest_prefix(params, ptypes) + self.block(inner, min(depth - 1, 2), c2, 1, 3)
            if has_content and not any(s[0] == "content" for s in body):
                body = body + (self.content_stmt(inner, c2, d),)
            sc.mixins[name] = (params, needs_rule, has_content, carity, ptypes)
            return [("mixin", name, params, body)]
        return None

    def stmt_rest(self, sc, depth, ctx, k, d):
        r = self.rng
        in_rule = ctx["in_rule"]
        if k == "ret":
            self.features.add("early-return")
            return [("ret", self.expr(sc, ctx["ret"], d))]
        if k == "content":
            return [self.content_stmt(sc, ctx, d)]
        if k == "include":
            ms = sc.lookup("mixins", lambda n, m: (not m[1]) or in_rule)
            if not ms:
                return None
            name, (params, needs_rule, has_content, carity, ptypes) = r.choice(ms)
            self.features.add("@include")
            a = self.args_for(sc, params, d, False, ptypes)
            content = None
            if has_content and r.random() < 0.8:
                self.features.add("content-block")
                inner = Scope(sc)
                cps = ()
                if carity == 1:
                    cps = (("u", None),)
                    inner.vars["u"] = "num"
                    self.features.add("content-using")
                # a content block runs in its own callable scope: no mixin/function definitions
                content = ((cps, None), self.block(inner, depth - 1, dict(ctx, in_callable_or_ctl=True), 1, 3))
            return [("incl", name, a, content)]
        return None

    def small_num(self, sc, n):
        vs = sc.lookup("vars", lambda nm, t: t == "num")
        if vs and self.rng.random() < 0.3:
            return ("bin", "sub", ("bin", "add", ("var", vs[0][0]), ("num", Fraction(n))), ("var", vs[0][0]))
        a = self.rng.randint(-3, 3)
        return ("bin", "add", ("num", Fraction(a)), ("num", Fraction(n - a)))

    def content_stmt(self, sc, ctx, d):
        self.features.add("@content")
        if ctx.get("content_arity", 0) == 1:
            return ("content", ((self.expr(sc, "num", d),), (), None))
        return ("content", ((), (), None))

    def bad_stmt(self, sc, depth, ctx):
        """A deliberately erroneous statement (compared by error class)."""
        r = self.rng
        kinds = ["undef-var", "undef-var", "undef-mixin", "arity", "arity", "user-error", "for-nonint", "incompatible-units",
                 "incompatible-units"]
        if ctx["in_rule"] and not ctx["in_fn"]:
            kinds += ["invalid-css"]
        if not ctx["in_fn"]:
            kinds += ["ret-outside"]
        if ctx.get("at_root"):
            kinds += ["decl-outside"]
        k = r.choice(kinds)
        self.features.add("error:" + k)
        if k == "undef-var":
            return [("debug", ("bin", "add", ("var", "nope"), ("num", Fraction(1))))]
        if k == "incompatible-units":
            a, b = self.expr(sc, "px", 1), self.expr(sc, "em", 1)
            if r.random() < 0.5:
                a, b = b, a
            return [("debug", ("bin", r.choice(["add", "sub", "mod", "lt", "ge"]), a, b))]
        if k == "undef-mixin":
            if ctx["in_fn"]:
                return [("debug", ("var", "nope"))]
            return [("incl", "nomixin", ((), (), None), None)]
        if k == "arity":
            fns = sc.lookup("fns")
            if fns:
                name, (params, ret, _, ptypes) = r.choice(fns)
                ps, rest = params
                c = r.random()
                if c < 0.35 and rest is None:
                    return [("debug", ("call", name, tuple(("num", Fraction(1)) for _ in range(len(ps) + 1)), (), None))]
                if c < 0.6 and rest is None:
                    return [("debug", ("call", name, tuple(("num", Fraction(1)) for _ in range(len(ps))), (("zz", ("num", Fraction(1))),), None))]
                if c < 0.8 and ps:
                    return [("debug", ("call", name, tuple(("num", Fraction(1)) for _ in range(len(ps))), ((ps[0][0], ("num", Fraction(1))),), None))]
                req = [n for n, dflt in ps if dflt is None]
                if req:
                    return [("debug", ("call", name, (), (), None))]
            return [("debug", ("var", "nope"))]
        if k == "user-error":
            return [("error", self.expr(sc, r.choice(["str", "num"]), 1))]
        if k == "for-nonint":
            return [("for", "i", ("num", Fraction(1, 2)), ("num", Fraction(3)), False, (("debug", ("var", "i")),))]
        if k == "invalid-css":
            return [("decl", "p", r.choice([self.lit("map"), ("list", (), "u", False)]))]
        if k == "ret-outside":
            return [("ret", ("num", Fraction(1)))]
        if k == "decl-outside":
            return [("decl", "p", ("num", Fraction(1)))]
        return None


BUILTIN_NAMES = ("length", "nth", "map-get", "type-of", "list-separator", "keywords", "math.div", "unit", "unitless",
                 "inspect", "variable-exists", "global-variable-exists", "function-exists", "mixin-exists")


def has_user_call(e):
    if not isinstance(e, tuple):
        return False
    if e and e[0] == "call" and e[1] not in BUILTIN_NAMES:
        return True
    return any(has_user_call(x) for x in e if isinstance(x, tuple))


def respell(t, rng):
    """Spell `$a-b` / `$c_d` with either separator at each occurrence (they are the same name)."""
    if isinstance(t, tuple):
        if t and t[0] == "var" and len(t) in (2, 5) and isinstance(t[1], str) and ("-" in t[1] or "_" in t[1]):
            n = t[1].replace("_", "-")
            if rng.random() < 0.5:
                n = n.replace("-", "_")
            return (t[0], n) + tuple(respell(x, rng) for x in t[2:])
        return tuple(respell(x, rng) for x in t)
    return t


def has_var(e):
    if not isinstance(e, tuple):
        return False
    if e and e[0] == "var":
        return True
    return any(has_var(x) for x in e if isinstance(x, tuple))


def gen_program(rng, cfg):
    g = Gen(rng, cfg)
    root = Scope(None, "root")
    ctx = dict(in_rule=False, in_fn=False, in_mixin=False, ret=None, in_callable_or_ctl=False, at_root=True)
    body = []
    if rng.random() < 0.85:
        root.vars["g1"] = "num"
        root.vars["g2"] = "str"
        body += [("var", "g1", ("num", Fraction(rng.randint(0, 5))), False, False),
                 ("var", "g2", ("str", rng.choice(WORDS), rng.random() < 0.5), False, False)]
    # a prelude of callables, so that calls and includes are frequent
    for _ in range(rng.choice([0, 1, 1, 2, 3])):
        g.n_stmts += 1
        kind = rng.choice(["func", "mixin"])
        saved = rng.choice
        s = g.callable_stmt(root, min(cfg.depth, 3), ctx, kind)
        if s:
            body.extend(s)
    if rng.random() < 0.3:
        # @return on a non-last iteration of (nested) loops, ascending and descending: nothing may
        # run after it
        g.features.add("return-in-loop")
        I, J, K = ("var", "i"), ("var", "j"), ("var", "k")
        num = lambda n_: ("num", Fraction(n_))
        lo, hi = rng.randint(-2, 3), rng.randint(-2, 3)
        if lo == hi:
            hi += 2
        stop = rng.randint(min(lo, hi), max(lo, hi))
        kind = rng.choice(["for", "for", "each", "while", "nested"])
        hit = (("debug", ("list", (("str", "hit", False), I), "s", False)), ("ret", ("bin", "mul", I, num(10))))
        if kind == "for":
            loop = ("for", "i", num(lo), num(hi), rng.random() < 0.6,
                    (("debug", I), ("ifs", ((("bin", "eq", I, K), hit),), None), ("debug", ("bin", "add", I, num(100)))))
        elif kind == "each":
            vals = tuple(num(x) for x in rng.sample(range(-3, 6), 4))
            loop = ("each", ("i",), ("list", vals, "c", False),
                    (("debug", I), ("ifs", ((("bin", "eq", I, K), hit),), None), ("debug", ("bin", "add", I, num(100)))))
        elif kind == "while":
            loop = ("while", ("bin", "lt", I, num(max(lo, hi) + 1)),
                    (("debug", I), ("ifs", ((("bin", "eq", I, K), hit),), None), ("var", "i", ("bin", "add", I, num(1)), False, False)))
        else:
            inner_loop = ("each", ("j",), ("list", (num(7), num(8), num(9)), "s", False),
                          (("debug", ("list", (I, J), "s", False)),
                           ("ifs", ((("bin", "and", ("bin", "eq", I, K), ("bin", "eq", J, num(rng.choice([7, 8])))), hit),), None)))
            loop = ("for", "i", num(lo), num(hi), True, (inner_loop, ("debug", ("bin", "add", I, num(100)))))
        pre = (("var", "i", num(min(lo, hi)), False, False),) if kind == "while" else ()
        body.append(("func", "rl", ((("k", None),), None), pre + (loop, ("ret", num(-1)))))
        root.fns["rl"] = (((("k", None),), None), "num", False, {"k": "stopnum"})
        g.stop_range = (min(lo, hi) - 1, max(lo, hi) + 1)
        body.append(("debug", ("call", "rl", (num(stop),), (), None)))
    if rng.random() < 0.12:
        # recursion: a function and a mixin that call themselves with a decreasing counter
        g.features.add("recursion")
        N, ONE, ZERO = ("var", "n"), ("num", Fraction(1)), ("num", Fraction(0))
        body.append(("func", "rf", ((("n", None),), None), (
            ("ifs", ((("bin", "le", N, ZERO), (("ret", ZERO),)),), None),
            ("ret", ("bin", "add", N, ("call", "rf", (("bin", "sub", N, ONE),), (), None))))))
        root.fns["rf"] = (((("n", None),), None), "num", False, {"n": "smallnum"})
        body.append(("mixin", "rm", ((("n", None),), None), (
            ("ifs", ((("bin", "gt", N, ZERO), (("decl", "p", N), ("incl", "rm", ((("bin", "sub", N, ONE),), (), None), None))),), None),)))
        root.mixins["rm"] = (((("n", None),), None), True, False, 0, {"n": "smallnum"})
    n = rng.randint(3, 9)
    for _ in range(n):
        if not g.budget():
            break
        s = g.stmt(root, cfg.depth, ctx)
        if s:
            body.extend(s)
    # make the final state observable
    for name, ty in list(root.vars.items())[:4]:
        body.append(("debug", ("var", name)))
    return tuple(body), sorted(g.features)


# ---------------------------------------------------------------------------------------------
# programs derived from scope-operation trees (op-sequence correspondence for Grass/Scope.lean)
# ---------------------------------------------------------------------------------------------
#
# scope tree   ("assign", i, v) | ("global", i, v) | ("read", i)            i = index into NAMES
#              ("block", "rule"|"if", body) | ("each", i, (v…), body)
#              ("mixin", name, body) | ("include", name, content_body|None) | ("content",)
#              ("import", file, body)
#
# tree_ops(tree)   executes the tree symbolically and returns the operation sequence of
#                  Grass/Scope.lean: E X L A S G R C K I T  (every lookup is one `@debug $n`)
# tree_ast(tree)   the Sass program (statements + imported files) and the same program with the
#                  imports spliced in place for the reference evaluator

NAMES = ["x", "y", "z"]


def tree_ops(tree):
    ops = []
    nclos = [0]

    def emit(o):
        ops.append(o)

    def new_closure():
        emit("C")
        nclos[0] += 1
        return nclos[0] - 1

    def run(body, semi, mixins, content):
        # `mixins`: name -> (closure index, body, dict it was defined in); the dict is shared by
        # reference with closures defined in this block (they see later definitions, as frames do)
        for nd in body:
            k = nd[0]
            if k == "assign":
                emit(("S" if semi else "A") + f"{nd[1]}:{nd[2]}")
            elif k == "global":
                emit(f"G{nd[1]}:{nd[2]}")
            elif k == "read":
                emit(f"R{nd[1]}")
            elif k == "block":
                emit("E")
                run(nd[2], semi and nd[1] == "if", Chain(mixins), content)
                emit("X")
            elif k == "each":
                emit("E")
                inner = Chain(mixins)
                for v in nd[2]:
                    emit(f"L{nd[1]}:{v}")
                    run(nd[3], semi, inner, content)
                emit("X")
            elif k == "mixin":
                mixins.define(nd[1], (new_closure(), nd[2], mixins))
            elif k == "include":
                ck = None
                if nd[2] is not None:
                    ck = (new_closure(), nd[2], mixins, content)
                idx, mbody, menv = mixins.get(nd[1])
                emit(f"K{idx}")
                emit("E")
                run(mbody, False, Chain(menv), ck)
                emit("X")
                emit("T")
            elif k == "content":
                if content is not None:
                    idx, cbody, cenv, outer = content
                    emit(f"K{idx}")
                    emit("E")
                    run(cbody, False, Chain(cenv), outer)
                    emit("X")
                    emit("T")
            elif k == "import":
                emit("I")
                run(nd[2], semi, mixins, content)
                emit("T")
            else:
                raise ValueError(k)

    run(tree, True, Chain(None), None)
    return ops


class Chain:
    """Lexically chained name table (one per frame)."""

    def __init__(self, parent):
        self.parent, self.d = parent, {}

    def define(self, k, v):
        self.d[k] = v

    def get(self, k):
        c = self
        while c is not None:
            if k in c.d:
                return c.d[k]
            c = c.parent
        raise KeyError(k)

    def names(self):
        out, c = [], self
        while c is not None:
            out += [k for k in c.d if k not in out]
            c = c.parent
        return out


def tree_ast(tree):
    """-> (grass_prog, files, eval_prog)"""
    files = {}

    def conv(body, splice):
        out = []
        for nd in body:
            k = nd[0]
            if k == "assign":
                out.append(("var", NAMES[nd[1]], ("num", Fraction(nd[2])), False, False))
            elif k == "global":
                out.append(("var", NAMES[nd[1]], ("num", Fraction(nd[2])), True, False))
            elif k == "read":
                out.append(("debug", ("var", NAMES[nd[1]])))
            elif k == "block":
                b = conv(nd[2], splice)
                out.append(("rule", "a", b) if nd[1] == "rule" else ("ifs", ((("bool", True), b),), None))
            elif k == "each":
                out.append(("each", (NAMES[nd[1]],), ("list", tuple(("num", Fraction(v)) for v in nd[2]), "c", False),
                            conv(nd[3], splice)))
            elif k == "mixin":
                out.append(("mixin", nd[1], ((), None), conv(nd[2], splice)))
            elif k == "include":
                out.append(("incl", nd[1], ((), (), None), None if nd[2] is None else (((), None), conv(nd[2], splice))))
            elif k == "content":
                out.append(("content", ((), (), None)))
            elif k == "import":
                b = conv(nd[2], splice)
                if splice:
                    out.extend(b)
                else:
                    files[nd[1] + ".scss"] = '@use "sass:math";\n' + to_scss(b)
                    out.append(("import", nd[1]))
        return tuple(out)

    g = conv(tree, False)
    e = conv(tree, True)
    return g, files, e


def gen_scope_tree(rng, depth=3, size=20, imports=True):
    state = {"n": 0, "v": 0, "m": 0, "f": 0}
    feats = set()

    def val():
        state["v"] += 1
        return state["v"]

    def body(d, mixins, in_content_mixin, ctl, lo=1, hi=5):
        """mixins: Chain name -> has_content (lexically visible, defined earlier);
        in_content_mixin: `@content` may be written here; ctl: inside control flow / a callable
        (no @mixin definitions and no @import there)."""
        out = []
        for _ in range(rng.randint(lo, hi)):
            if state["n"] >= size:
                break
            state["n"] += 1
            kinds = ["assign", "assign", "assign", "read", "read", "read", "read", "global"]
            if d > 0:
                kinds += ["rule", "rule", "if", "if", "each"]
                if not ctl:
                    kinds += ["mixin", "mixin", "mixin"]
                    if imports:
                        kinds += ["import"]
                if mixins.names():
                    kinds += ["include"] * 5
            if in_content_mixin:
                kinds += ["content", "content"]
            k = rng.choice(kinds)
            i = rng.randrange(len(NAMES))
            if d > 0 and not ctl and rng.random() < 0.12:
                # the D3 shapes: a read that fills the cache, a closure (or an environment switch),
                # a declaration in the frame the closure shares, then the call and a read
                feats.add("d3-gadget")
                filler = lambda: tuple(body(0, Chain(mixins), False, True, 0, 2))
                g = rng.random()
                wrap = rng.random() < 0.7
                if g < 0.45:
                    state["m"] += 1
                    name = f"m{state['m']}"
                    seq = (("read", i),) + filler() + (("mixin", name, (("read", i),) + filler()),) + filler() + \
                          (("assign", i, val()),) + filler() + (("include", name, None), ("read", i))
                    if not wrap:
                        mixins.define(name, False)
                elif g < 0.7 and mixins.names() and any(mixins.get(n) for n in mixins.names()):
                    name = rng.choice([n for n in mixins.names() if mixins.get(n)])
                    seq = (("read", i), ("include", name, (("read", i),) + filler()), ("assign", i, val()),
                           ("include", name, (("read", i),)), ("read", i))
                elif g < 0.85:
                    # a loop variable with the name of the variable that was read last (the binding
                    # must refresh the cache, scope.rs:133)
                    feats.add("loop-var-after-read")
                    seq = (("read", i), ("each", i, (val(), val()), (("read", i),) + filler()), ("read", i))
                elif imports:
                    state["f"] += 1
                    seq = (("read", i),) + filler() + (("import", f"i{state['f']}", (("assign", i, val()), ("read", i))),) + (("read", i),)
                else:
                    seq = (("read", i),)
                if wrap:
                    out.append(("block", "rule", seq))
                else:
                    out.extend(seq)
                continue
            if k == "assign":
                out.append(("assign", i, val()))
            elif k == "global":
                out.append(("global", i, val()))
            elif k == "read":
                out.append(("read", i))
            elif k in ("rule", "if"):
                out.append(("block", k, body(d - 1, Chain(mixins), in_content_mixin, ctl or k == "if")))
                feats.add("block:" + k)
            elif k == "each":
                out.append(("each", i, tuple(val() for _ in range(rng.choice([1, 2]))),
                            body(d - 1, Chain(mixins), in_content_mixin, True, 1, 3)))
                feats.add("loop-var")
            elif k == "mixin":
                state["m"] += 1
                name = f"m{state['m']}"
                has_content = rng.random() < 0.4
                b = body(d - 1, Chain(mixins), has_content, True, 1, 4)
                if has_content and not any(x[0] == "content" for x in b):
                    pos = rng.randint(0, len(b))
                    b = b[:pos] + (("content",),) + b[pos:]
                mixins.define(name, has_content)
                out.append(("mixin", name, b))
                feats.add("closure")
            elif k == "include":
                name = rng.choice(mixins.names())
                cb = None
                if mixins.get(name) and rng.random() < 0.8:
                    cb = body(d - 1, Chain(mixins), in_content_mixin, True, 1, 3)
                    feats.add("content-block")
                out.append(("include", name, cb))
                feats.add("call")
            elif k == "content":
                out.append(("content",))
            elif k == "import":
                state["f"] += 1
                b = tuple(x for x in body(0, Chain(None), False, True, 1, 3) if x[0] in ("assign", "global", "read"))
                out.append(("import", f"i{state['f']}", b))
                feats.add("import")
        return tuple(out)

    pre = tuple(("global", i, val()) for i in range(len(NAMES)) if rng.random() < 0.8)
    return pre + body(depth, Chain(None), False, False, 3, 8), sorted(feats)


def calls_itself(name, b):
    return any(x[0] == "include" and x[1] == name for x in b)


# the D3 shapes as scope trees (kept in the corpus of c03.py)
D3_TREES = [
    # read fills the cache, closure defined, declaration in the shared frame, call
    (("global", 0, 10), ("block", "rule", (("read", 0), ("mixin", "m1", (("read", 0),)), ("assign", 0, 20), ("include", "m1", None)))),
    # the same through a content block
    (("global", 0, 10), ("mixin", "m1", (("content",),)),
     ("block", "rule", (("read", 0), ("include", "m1", (("read", 0),)), ("assign", 0, 20), ("include", "m1", (("read", 0),))))),
    # for_import variant: the imported file declares the variable in the importer's frame
    (("global", 0, 10), ("block", "rule", (("read", 0), ("import", "i1", (("assign", 0, 20),)), ("read", 0)))),
    # seeded change m1 (insert_var_last did not refresh the cache): loop variable named like the
    # variable that was read last
    (("global", 2, 1), ("read", 2), ("each", 2, (2, 3), (("read", 2),)), ("read", 2)),
    (("global", 0, 1), ("block", "rule", (("read", 0), ("each", 0, (2,), (("read", 0), ("assign", 0, 5), ("read", 0))), ("read", 0)))),
    # loop variable, closure, re-declaration
    (("global", 1, 5), ("block", "rule", (("each", 1, (6, 7), (("read", 1),)), ("mixin", "m1", (("read", 1), ("assign", 1, 8), ("read", 1))),
                                          ("read", 1), ("include", "m1", None), ("assign", 1, 9), ("include", "m1", None), ("read", 1)))),
]


# ---------------------------------------------------------------------------------------------
# shrinking: one-step structural reductions of a program
# ---------------------------------------------------------------------------------------------

def expr_variants(e):
    """Smaller expressions that could replace `e`: its sub-expressions, then a literal."""
    k = e[0]
    subs = []
    if k == "bin":
        subs = [e[2], e[3]]
    elif k in ("neg", "not"):
        subs = [e[1]]
    elif k == "list":
        subs = list(e[1])
        for i in range(len(e[1])):
            if len(e[1]) > 1:
                yield ("list", e[1][:i] + e[1][i + 1:], e[2], e[3])
    elif k == "map":
        for i in range(len(e[1])):
            if len(e[1]) > 1:
                yield ("map", e[1][:i] + e[1][i + 1:])
        subs = [v for _, v in e[1]]
    elif k == "call":
        subs = list(e[2]) + [x for _, x in e[3]]
    elif k == "if":
        subs = [e[2], e[3], e[1]]
    elif k == "interp":
        subs = [x for _, x in e[2] if x is not None]
        for i, (t, x) in enumerate(e[2]):
            if x is not None:
                for v in expr_variants(x):
                    yield ("interp", e[1], e[2][:i] + ((t, v),) + e[2][i + 1:])
    elif k == "num" and len(e) > 2:
        yield ("num", e[1])
    for x in subs:
        yield x
    if k not in ("num", "bool", "null", "str", "var"):
        yield ("num", Fraction(1))
    # one level down
    if k == "bin":
        for v in expr_variants(e[2]):
            yield ("bin", e[1], v, e[3])
        for v in expr_variants(e[3]):
            yield ("bin", e[1], e[2], v)
    elif k in ("neg", "not"):
        for v in expr_variants(e[1]):
            yield (k, v)
    elif k == "list":
        for i, x in enumerate(e[1]):
            for v in expr_variants(x):
                yield ("list", e[1][:i] + (v,) + e[1][i + 1:], e[2], e[3])
    elif k == "call":
        for i, x in enumerate(e[2]):
            for v in expr_variants(x):
                yield ("call", e[1], e[2][:i] + (v,) + e[2][i + 1:], e[3], e[4])
        for i, (n, x) in enumerate(e[3]):
            for v in expr_variants(x):
                yield ("call", e[1], e[2], e[3][:i] + ((n, v),) + e[3][i + 1:], e[4])
    elif k == "if":
        for j in (1, 2, 3):
            for v in expr_variants(e[j]):
                yield e[:j] + (v,) + e[j + 1:]


def args_variants(a):
    pos, named, rest = a
    for i, x in enumerate(pos):
        for v in expr_variants(x):
            yield (pos[:i] + (v,) + pos[i + 1:], named, rest)
    for i, (n, x) in enumerate(named):
        for v in expr_variants(x):
            yield (pos, named[:i] + ((n, v),) + named[i + 1:], rest)
    if rest is not None:
        for v in expr_variants(rest):
            yield (pos, named, v)


def stmt_variants(s):
    """Variants of one statement (same kind, something inside made smaller)."""
    k = s[0]
    if k in ("decl",):
        for v in expr_variants(s[2]):
            yield (k, s[1], v)
    elif k == "decli":
        yield ("decl", "p", s[2])
        for v in expr_variants(s[2]):
            yield (k, s[1], v)
        for i, (t, x) in enumerate(s[1]):
            if x is not None:
                for v in expr_variants(x):
                    yield (k, s[1][:i] + ((t, v),) + s[1][i + 1:], s[2])
    elif k == "rule":
        for b in body_variants(s[2]):
            yield (k, s[1], b)
    elif k == "var":
        for v in expr_variants(s[2]):
            yield (k, s[1], v, s[3], s[4])
        if s[3] or s[4]:
            yield (k, s[1], s[2], False, False)
    elif k == "ifs":
        cl, els = s[1], s[2]
        for i, (c, b) in enumerate(cl):
            if len(cl) > 1:
                yield (k, cl[:i] + cl[i + 1:], els)
            for v in expr_variants(c):
                yield (k, cl[:i] + ((v, b),) + cl[i + 1:], els)
            for b2 in body_variants(b):
                yield (k, cl[:i] + ((c, b2),) + cl[i + 1:], els)
        if els is not None:
            yield (k, cl, None)
            for b2 in body_variants(els):
                yield (k, cl, b2)
    elif k == "for":
        for b in body_variants(s[5]):
            yield s[:5] + (b,)
        for j in (2, 3):
            for v in expr_variants(s[j]):
                yield s[:j] + (v,) + s[j + 1:]
    elif k == "each":
        for b in body_variants(s[3]):
            yield s[:3] + (b,)
        for v in expr_variants(s[2]):
            yield s[:2] + (v,) + s[3:]
    elif k == "while":
        for b in body_variants(s[2]):
            yield (k, s[1], b)
    elif k in ("func", "mixin"):
        for b in body_variants(s[3]):
            yield s[:3] + (b,)
        ps, rest = s[2]
        for i, (n, d) in enumerate(ps):
            if d is not None:
                for v in expr_variants(d):
                    yield (k, s[1], (ps[:i] + ((n, v),) + ps[i + 1:], rest), s[3])
    elif k in ("ret", "debug", "warn", "error"):
        for v in expr_variants(s[1]):
            yield (k, v)
    elif k == "incl":
        for a in args_variants(s[2]):
            yield (k, s[1], a, s[3])
        if s[3] is not None:
            for b in body_variants(s[3][1]):
                yield (k, s[1], s[2], (s[3][0], b))
    elif k == "content":
        for a in args_variants(s[1]):
            yield (k, a)


def inner_bodies(s):
    k = s[0]
    if k in ("rule", "while"):
        return [s[2]]
    if k == "ifs":
        return [b for _, b in s[1]] + ([s[2]] if s[2] is not None else [])
    if k == "for":
        return [s[5]]
    if k == "each":
        return [s[3]]
    return []


def body_variants(body):
    for i, s in enumerate(body):
        yield body[:i] + body[i + 1:]                       # delete a statement
    for i, s in enumerate(body):
        for b in inner_bodies(s):
            yield body[:i] + b + body[i + 1:]               # replace a block by its body
    for i, s in enumerate(body):
        for v in stmt_variants(s):
            yield body[:i] + (v,) + body[i + 1:]


def shrink_candidates(prog):
    return body_variants(prog)
