"""Selector generator shared by the C11 and C10 checks (DESIGN Appendix C alphabet).

Generator trees (python never interprets a selector semantically — matching is done by the Lean
driver; these trees exist to print text, to derive related selectors and to shrink):
  simple   = ('type', n) | ('univ',) | ('cls', n) | ('id', n) | ('attr', n, v|None) | ('pc', n)
           | ('pe', n) | ('ph', n) | ('sel', k, [complex…]) | ('parent', suffix|None)
  compound = [simple…]
  complex  = [compound, comb, compound, …]      comb in ' ', '>', '+', '~'
  list     = [complex…]
"""

TYPES = ["a", "b"]
CLASSES = ["x", "y"]
IDS = ["i", "j"]
PCS = ["hover", "focus"]
PES = ["before", "after"]
PHS = ["p", "q"]
SELS = ["not", "is", "where", "matches"]
COMBS = [" ", ">", "+", "~"]


def simple_text(s):
    k = s[0]
    if k == "type":
        return s[1]
    if k == "univ":
        return "*"
    if k == "cls":
        return "." + s[1]
    if k == "id":
        return "#" + s[1]
    if k == "attr":
        return f"[{s[1]}]" if s[2] is None else f"[{s[1]}={s[2]}]"
    if k == "pc":
        return ":" + s[1]
    if k == "pe":
        return (":" if s[1] == "after" else "::") + s[1]
    if k == "ph":
        return "%" + s[1]
    if k == "parent":
        return "&" + (s[1] or "")
    if k == "sel":
        return f":{s[1]}({list_text(s[2])})"
    raise ValueError(s)


def compound_text(c):
    return "".join(simple_text(s) for s in c)


def complex_text(x):
    out = []
    for part in x:
        if isinstance(part, str):
            if part != " ":
                out.append(part)
        else:
            out.append(compound_text(part))
    return " ".join(out)


def list_text(l):
    return ", ".join(complex_text(x) for x in l)


def _order(c):
    rank = {"parent": 0, "type": 0, "univ": 0, "cls": 1, "id": 1, "attr": 1, "ph": 1, "pc": 2, "sel": 2, "pe": 3}
    return sorted(c, key=lambda s: rank[s[0]])


def gen_simple(rng, kinds):
    k = rng.choice(kinds)
    if k == "type":
        return ("type", rng.choice(TYPES))
    if k == "univ":
        return ("univ",)
    if k == "cls":
        return ("cls", rng.choice(CLASSES))
    if k == "id":
        return ("id", rng.choice(IDS))
    if k == "attr":
        return ("attr", "t", rng.choice([None, "v"]))
    if k == "pc":
        return ("pc", rng.choice(PCS))
    if k == "pe":
        return ("pe", rng.choice(PES))
    if k == "ph":
        return ("ph", rng.choice(PHS))
    raise ValueError(k)


def gen_compound(rng, sel_depth=1, placeholders=False, pe=True, min_simples=1):
    c = []
    r = rng.random()
    if r < 0.45:
        c.append(("type", rng.choice(TYPES)))
    elif r < 0.5:
        c.append(("univ",))
    mid = ["cls", "cls", "cls", "id", "attr"] + (["ph"] if placeholders else [])
    for _ in range(rng.choice([0, 1, 1, 1, 2])):
        s = gen_simple(rng, mid)
        if s not in c:
            c.append(s)
    if rng.random() < 0.2:
        c.append(("pc", rng.choice(PCS)))
    if sel_depth > 0 and rng.random() < 0.22:
        k = rng.choice(SELS)
        n = rng.choice([1, 1, 2])
        args = []
        for _ in range(n):
            if rng.random() < 0.8:
                args.append([gen_compound(rng, sel_depth - 1, False, False)])
            else:
                args.append(gen_complex(rng, 2, sel_depth - 1, False, False))
        c.append(("sel", k, args))
    if pe and rng.random() < 0.1:
        c.append(("pe", rng.choice(PES)))
    while len(c) < min_simples:
        s = gen_simple(rng, ["cls", "type", "id"])
        if s[0] == "type" and any(t[0] in ("type", "univ") for t in c):
            continue
        if s not in c:
            c.append(s)
    return _order(c)


def gen_complex(rng, max_compounds=3, sel_depth=1, placeholders=False, pe=True):
    n = rng.choice([1, 1, 2, 2, 3][: 2 * max_compounds - 1]) if max_compounds < 3 else rng.choice([1, 1, 2, 2, 3])
    x = []
    for i in range(n):
        if i:
            x.append(rng.choice([" ", " ", ">", ">", "+", "~"]))
        x.append(gen_compound(rng, sel_depth, placeholders, pe and i == n - 1))
    return x


def gen_list(rng, max_complexes=3, **kw):
    return [gen_complex(rng, **kw) for _ in range(rng.choice([1, 1, 1, 2, 3][: max(1, 2 * max_complexes - 1)]))]


def strengthen(rng, x):
    """A complex selector that should match a subset of what `x` matches (so that
    is-superselector(x, result) has a good chance of being true)."""
    y = [list(p) if not isinstance(p, str) else p for p in x]
    for _ in range(rng.choice([1, 1, 2, 3])):
        op = rng.random()
        idxs = [i for i, p in enumerate(y) if not isinstance(p, str)]
        i = rng.choice(idxs)
        if op < 0.4:
            s = gen_simple(rng, ["cls", "cls", "id", "attr", "pc"])
            if s not in y[i] and not (s[0] == "id" and any(t[0] == "id" for t in y[i])):
                y[i] = _order(y[i] + [s])
        elif op < 0.5:
            if not any(t[0] in ("type", "univ") for t in y[i]):
                y[i] = _order([("type", rng.choice(TYPES))] + y[i])
        elif op < 0.8:
            # insert a compound (with a combinator) somewhere
            newc = gen_compound(rng, 0, False, False)
            comb = rng.choice(COMBS)
            pos = rng.choice(idxs)
            if rng.random() < 0.5:
                y[pos:pos] = [newc, comb]
            else:
                y[pos + 1:pos + 1] = [comb, newc] if pos + 1 < len(y) else []
                if pos + 1 >= len(y):
                    y[0:0] = [newc, comb]
        else:
            cidx = [k for k, p in enumerate(y) if isinstance(p, str)]
            if cidx:
                k = rng.choice(cidx)
                y[k] = {" ": rng.choice([">", " "]), "~": rng.choice(["+", "~"])}.get(y[k], y[k])
    return y


def shrink_candidates(l):
    """Smaller variants of a selector list (one deletion each)."""
    out = []
    if len(l) > 1:
        for i in range(len(l)):
            out.append(l[:i] + l[i + 1:])
    for i, x in enumerate(l):
        comps = [k for k, p in enumerate(x) if not isinstance(p, str)]
        if len(comps) > 1:
            for k in comps:
                if k == 0:
                    nx = x[2:]
                else:
                    nx = x[:k - 1] + x[k + 1:]
                out.append(l[:i] + [nx] + l[i + 1:])
        for k in comps:
            if len(x[k]) > 1:
                for j in range(len(x[k])):
                    nc = x[k][:j] + x[k][j + 1:]
                    out.append(l[:i] + [x[:k] + [nc] + x[k + 1:]] + l[i + 1:])
            for j, s in enumerate(x[k]):
                if s[0] == "sel":
                    for sub in shrink_candidates(s[2]):
                        nc = x[k][:j] + [("sel", s[1], sub)] + x[k][j + 1:]
                        out.append(l[:i] + [x[:k] + [nc] + x[k + 1:]] + l[i + 1:])
    return out
