"""C06 — Output style changes only formatting, never meaning or evaluation.

(a) PROOF   GrassProofs.C06 (comment retention, style-equivalence of the serializer model, evaluation has no style parameter)
(b) TIE     as C05: model text == grass text byte for byte in BOTH styles on generated CssStmt trees; in addition the
            model's own two serialisations are read back by the independent reader and must canonicalise equal
(c) DIRECT  every input (generated trees, generated SassScript programs, SassScript-visible probes, golden corpus) is
            compiled in both styles; both outputs are reduced by tools/cssread.py + the value canonicaliser of
            c05_common (rules listed in evidence) and compared; both styles must also agree on success/failure and
            on the error message.
"""
import json
import re

import cssread
from props import c05_common as cc
from props import c05
from vlib import Check, RunnerPool, compile_job, driver, hexs, log, unhex

# ---------------------------------------------------------------------------------------------
# SassScript-visible probes: a value v, turned into text during evaluation, observed through
# something that does not depend on spelling in the output (a length, a boolean, a branch, a name)
# ---------------------------------------------------------------------------------------------

PROBE_VALUES = [
    # (family, SassScript expression)
    ("number", "0.5"), ("number", "-0.25"), ("number", "0.999"), ("number", "math.div(1, 3)"), ("number", "0.05px"),
    ("number", "1.5"), ("number", "10"), ("number", "0.5%"), ("number", "-.5em"), ("number", "1e-3"),
    ("color", "#ff0000"), ("color", "red"), ("color", "#f00"), ("color", "#aabbcc"), ("color", "rgba(1, 2, 3, 0.5)"),
    ("color", "mix(#000, #fff, 50%)"), ("color", "hsl(120, 50%, 50%)"), ("color", "transparent"),
    ("color", "lighten(#800, 20%)"), ("color", "rgba(#102030, 0.25)"), ("color", "#00000080"),
    ("list", "(a, b, c)"), ("list", "(1px 2px, 3px)"), ("list", "(0.5, 0.25)"), ("list", "[a, b]"), ("list", "(a b) (c, d)"),
    ("list", "list.slash(1, 0.5)"), ("list", "(red, #00f)"), ("list", "append((), 0.5, comma)"),
    ("string", '"a, b"'), ("string", "unquote(\"a,  b\")"), ("string", '"0.50"'),
    ("calc", "calc(100% - 32px)"), ("calc", "calc(var(--a) - 0.5px)"), ("calc", "min(1px - 1%, 2em)"), ("calc", "clamp(1px, 50% - 2px, 3em)"),
    ("calc", "calc(1px - (2% - 3em))"), ("calc", "calc(1px * 2 - 3% / 4)"),
    ("calc", "calc(0.5px + 1%)"), ("calc", "calc(1px * 0.5 + 2%)"), ("calc", "min(0.5px, 1%)"), ("calc", "clamp(0.1px, 1%, 0.9em)"),
    ("map-inspect", "inspect((a: 0.5, b: (c, d)))"), ("bool", "true"), ("null-inspect", "inspect(null)"),
    ("selector", 'selector-nest("a > b", "& + c")'), ("selector", 'selector-append(".a", ".b, .c")'),
    ("selector", 'selector-parse("a > b, c ~ d")'), ("selector", 'selector-unify(".a", ".b")'),
    ("selector", 'selector-replace("a > b c", "c", "d + e")'), ("selector", 'selector-extend("a > b", "b", "c")'),
    ("rgb-special-fn", "rgba(var(--x), 0.5)"), ("rgb-special-fn", "rgb(var(--x), 0.5, 0.25)"),
    ("rgb-special-fn", "rgba(#102030, var(--a))"), ("rgb-special-fn", "hsl(var(--h), 0.5%, 20%)"),
    ("rgb-special-fn", "rgb(1 2 0.5 / var(--a))"), ("rgb-special-fn", "hsla(0.5, var(--s), 20%, 0.5)"),
    ("rgb-special-fn", "rgba(1, 2, 3, calc(var(--a) * 0.5))"),
    ("calc-args", "meta.calc-args(calc(0.5px + 1%))"), ("calc-args", "meta.calc-args(min(0.5px + 1%, 2em))"),
    ("calc-args", "meta.calc-args(clamp(0.5px, 1% * 0.5, 3em))"),
    ("plain-css-fn", "foo(0.5, #ff0000)"), ("plain-css-fn", "url(a0.5)"), ("plain-css-fn", "var(--x, 0.5)"),
    ("unary", "-(0.5)"), ("unary", "+0.5px"), ("unary", "/0.5"), ("op", "0.5 + \"\""), ("op", "\"\" + #ff0000"),
    ("op", "0.5 + a"), ("op", "a - 0.5"), ("op", "(0.5/a)"), ("op", "#ff0000 + \"x\""), ("op", "(a, 0.5) + \"\""),
    # a colour on the LEFT of `+` / `-` / `/` with a string, list or null on the right
    ("color-op", "white + -fg"), ("color-op", "#ff0000 + \"\""), ("color-op", "aquamarine + x"), ("color-op", "#f00 + null"),
    ("color-op", "white + (a, b)"), ("color-op", "red - x"), ("color-op", "(white/x)"), ("color-op", "white + 1"),
    ("color-op", "#fff + \"-q\""), ("color-op", "rgba(1, 2, 3, 0.5) + x"), ("color-op", "x + white"), ("color-op", "-white"),
    # magnitudes below the printing precision (float noise), both signs
    ("float-noise", "0.3 - 0.1 - 0.2"), ("float-noise", "(0.3 - 0.1 - 0.2) * 1px"), ("float-noise", "0.1 + 0.2 - 0.3"),
    ("float-noise", "-1e-11"), ("float-noise", "1e-11"), ("float-noise", "-0.00000000004px"), ("float-noise", "-0.00000000006px"),
    ("float-noise", "0.00000000004%"), ("float-noise", "-0.0"), ("float-noise", "math.div(-1, 1e12)"), ("float-noise", "1 - 0.9 - 0.1"),
    ("float-noise", "-0.99999999999"), ("float-noise", "0.99999999996"), ("float-noise", "(0.3 - 0.1 - 0.2) (0.1 + 0.2 - 0.3)"),
    # values whose last character is a (possibly escaped) ';' or '}'
    ("ends-semicolon", "c\\;"), ("ends-semicolon", "x c\\;"), ("ends-semicolon", "unquote(\"1;2;\")"), ("ends-semicolon", "a\\}"),
    ("ends-semicolon", "unquote(\"c\\\\;\")"), ("ends-semicolon", "(a, c\\;)"),
]

PROBE_CONTEXTS = [
    # (name, template over {v}) — each yields ONE declaration whose value is spelling-independent
    ("str-length-interp", 'p: str-length("#{{{v}}}")'),
    ("str-length-plus", 'p: str-length("" + {v})'),
    ("eq-self-interp", 'p: "#{{{v}}}" == "#{{{v}}}"'),
    ("str-index-dot", 'p: str-index("x#{{{v}}}", ".")'),
    ("str-index-zero", 'p: str-index("x#{{{v}}}", "0")'),
    ("str-index-space", 'p: str-index("x#{{{v}}}", " ")'),
    ("if-branch", '@if str-length("#{{{v}}}") > 3 {{ p: long; }} @else {{ p: short; }}'),
    ("upper-len", 'p: str-length(to-upper-case("#{{{v}}}"))'),
    ("slice-head", 'p: quote(str-slice("#{{{v}}}x", 1, 2))'),
    ("slice-tail", 'p: quote(str-slice("x#{{{v}}}", -3))'),
    ("inspect-len", 'p: str-length(inspect({v}))'),
    ("unique-chars", 'p: str-index("#{{{v}}}", ",") str-index("#{{{v}}}", ">") str-index("#{{{v}}}", "#")'),
    ("quote-len", 'p: str-length(quote("#{{{v}}}"))'),
    ("prop-name", 'p-#{{str-length("#{{{v}}}")}}: 1'),
    ("type-of-len", 'p: type-of({v}) str-length("#{{type-of({v})}}")'),
    # the value itself in the output, as the LAST declaration of its block (with and without the final ';')
    ("direct-last", 'o: x; p: {v}'),
    ("direct-not-last", 'p: {v}; o: x'),
    ("direct-list", 'p: {v} {v}, 1px'),
    ("direct-nested", '@media screen {{ p: {v} }} b {{ c: d }}'),
]


# ---------------------------------------------------------------------------------------------
# Round 3 (seeded C06-r3m1 / C06-r3m2): evaluation ORDER / side effects and verbatim text
#  * every construct that carries interpolation is evaluated in both styles, whether or not its
#    text survives into the output: a side-effecting function called inside it (a !global counter)
#    must advance the counter identically, observed by a later declaration and an @if branch;
#  * quoted strings embedded in text that grass treats as an unquoted string (custom property
#    values, plain-CSS function arguments, url(), unquote) keep every character in both styles.
# ---------------------------------------------------------------------------------------------
SIDE_EFFECT_SITES = [
    ("loud-comment", "/* c #{next()} */"),
    ("loud-comment-in-rule", "q { /* c #{next()} */ r: s; }"),
    ("preserved-comment", "/*! c #{next()} */"),
    ("loud-comment-multiline", "/* a\n * #{next()}\n */"),
    ("loud-comment-after-decl", "q { r: s; /* #{next()} */ }"),
    ("loud-comment-in-media", "@media screen { /* #{next()} */ q { r: s; } }"),
    ("loud-comment-in-mixin", "@mixin m { /* #{next()} */ } q { @include m; }"),
    ("loud-comment-in-function-free-rule", "q { @if true { /* #{next()} */ } }"),
    ("loud-comment-in-each", "@each $i in a b { /* #{$i} #{next()} */ }"),
    ("empty-rule", "q-#{next()} { }"),
    ("empty-media", "@media (w: #{next()}) { }"),
    ("placeholder-rule", "%p-#{next()} { r: s; }"),
    ("null-declaration", "q { r-#{next()}: null; }"),
    ("custom-property", "q { --c: #{next()}; }"),
    ("supports-empty", "@supports (a: #{next()}) { }"),
    ("unknown-at-rule", "@foo #{next()};"),
    ("import-css", '@import url("x#{next()}.css");'),
    ("keyframes", "@keyframes k#{next()} { from { r: s; } }"),
    ("debug-free-variable", "$unused: next();"),
    ("if-function", "q { r: if(true, 1, next()); }"),
    ("and-short-circuit", "q { r: false and next(); }"),
    ("or-short-circuit", "q { r: true or next(); }"),
]


def side_effect_cases():
    cases = []
    pre = ('$n: 0;\n@function next() { $n: $n + 1 !global; @return $n; }\n').replace("\\n", "\n")
    post = ('\nz { p: next(); @if $n == 1 { b: one; } @else if $n == 2 { b: two; } @else { b: many-#{$n}; } }\n').replace("\\n", "\n")
    for name, site in SIDE_EFFECT_SITES:
        site = site.replace("\\n", "\n")
        cases.append({"key": f"side-effect:{name}", "src": pre + site + post, "family": "side-effect", "syntax": "scss"})
        cases.append({"key": f"side-effect:{name}:twice", "src": pre + site + "\n" + site.replace("q", "q2").replace("k#", "k2#") + post,
                      "family": "side-effect", "syntax": "scss"})
    return cases


VERBATIM_TEXTS = [
    '--sep: ", "', "--sep: ', '", '--x: "a ,b" , "c,  d"', '--y: {"k": "v, w"}', '--z: [ "a,  b" ]',
    'p: var(--font, "Helvetica Neue, Arial", sans-serif)', 'p: foo("a, b", c)', 'p: foo(bar("x,  y"), "z")',
    "p: unquote('\"a, b\"')", 'p: url("a, b")', 'p: url(a,b)', 'p: env(x, "a, b")', 'p: attr(x) ", " counter(n)',
    'p: "a, b" + c', 'p: c + "a, b"', 'p: "#{"a,  b"}"', 'p: #{"a,  b"}', 'p: #{\'"a, b"\'}', 'p: foo(#{\'"a, b"\'})',
    'p: var(--a,"x, y")', 'p: var(--a, "x ; y")', "p: foo('a > b', 'c + d', 'e ~ f')", 'p: foo("a  b")', 'p: foo("(a, b)")',
    'p: foo("a: b", "c :d")', 'p: foo("{a, b}")', 'p: foo("a,\\\"b, c")', 'font-family: "Helvetica Neue, Arial", sans-serif',
    'p: progid:DXImageTransform.Microsoft.gradient(startColorstr="#80,  0", endColorstr="a, b")',
    'p: "a" , "b,  c"', 'p: ("a, b", "c")', 'p: [ "a,  b" ]', 'p: -foo-bar("a,  b")', 'p: calc(var(--x, "a, b") + 1px)',
    'p: element("a, b")', 'p: image-set("a, b.png" 1x, "c,d.png" 2x)', 'p: expression("a, b")',
]


def verbatim_cases():
    cases = []
    for i, t in enumerate(VERBATIM_TEXTS):
        for j, tmpl in enumerate(("a {{ {t}; }}\n", "a {{ o: x; {t} }}\nz {{ y: w; }}\n", "@media screen {{ a {{ {t}; b: c }} }}\n")):
            cases.append({"key": f"verbatim:{i}:{j}", "src": tmpl.format(t=t), "family": "verbatim", "syntax": "scss"})
    return cases


def probe_cases(rng, n):
    """All (value, context) pairs (shuffled, capped at n); each is a tiny stylesheet of its own so a
    compile error in one probe cannot hide another.  Selector-name probes are separate."""
    cases = []
    for fam, v in PROBE_VALUES:
        for cname, tmpl in PROBE_CONTEXTS:
            body = tmpl.format(v=v)
            end = " }\nz { y: w; }\n" if cname.startswith("direct") else "; }\n"
            src = '@use "sass:math"; @use "sass:meta"; @use "sass:list";\na { ' + body + end
            cases.append({"key": f"probe:{fam}:{v}:{cname}", "src": src, "family": fam, "syntax": "scss"})
        src = ('@use "sass:math"; @use "sass:meta"; @use "sass:list";\n.s-#{str-length("#{' + v + '}")} { p: 1; }\n')
        cases.append({"key": f"probe:{fam}:{v}:selector-name", "src": src, "family": fam, "syntax": "scss"})
        src = ('@use "sass:math"; @use "sass:meta"; @use "sass:list";\n@media (w: #{str-length("#{' + v + '}")}) { a { p: 1; } }\n')
        cases.append({"key": f"probe:{fam}:{v}:media-query", "src": src, "family": fam, "syntax": "scss"})
    rng.shuffle(cases)
    return cases[:n]


# minimised past failures (fixed in /repo: 1f313a3, 5c13552, 6f559f9): run first on every run and must now
# behave the same in both styles
CORPUS = [
    ("C06-F1", 'a { p: str-length(rgba(var(--x), 0.5)); }'),
    ("C06-F1b", 'a { p: str-length(hsl(var(--h), 0.5%, 20%)) str-length(rgb(1 2 0.5 / var(--a))); }'),
    ("C06-F2", '@use "sass:meta"; a { p: str-length("#{meta.calc-args(calc(0.5px + 1%))}"); }'),
    ("C06-F3", 'a { p: rgba(1, 2, 3, 0.5px); }'),
    ("C06-F3b", 'a { p: calc(0.5px + 0.5s); }'),
    ("C06-F3c", '@use "sass:selector"; a { p: selector.append("a > b", "> c"); }'),
    ("D4", 'a { p: str-length("#{0.5}") str-length("#{#ff0000}") str-length("#{(a, b)}"); }'),
]
FAMILY_TAG = {}


def _msg(a):
    return (a.get("err") or {}).get("message") or a.get("panic") or ""


def _num_respelled(m):
    """error text with numbers in one spelling and no optional spaces around combinators (used only to
    recognise finding C06-F3 precisely)."""
    m = re.sub(r"(?<![\w.])0\.(\d)", r".\1", m)
    return re.sub(r"\s*([>+~,])\s*", r"\1", m)


def compare_styles(ck, pool, progs, label):
    """Compile each program in both styles and compare.  Returns failures."""
    jobs = []
    for p in progs:
        for st in c05.STYLES:
            jobs.append(compile_job(p["src"], style=st, syntax=p.get("syntax"), charset=True))
    ans = cc.run_jobs(pool, jobs)
    fails = []
    for i, p in enumerate(progs):
        ae, ac = ans[2 * i], ans[2 * i + 1]
        se, sc = ae.get("status"), ac.get("status")
        ck.hist(f"{label}:status:{se}/{sc}")
        fam_tags = [FAMILY_TAG[p["family"]]] if p.get("family") in FAMILY_TAG else []
        if se != sc:
            ck.count((label, p["key"]), True)
            fails.append({"key": p["key"], "src": p["src"], "what": "one style compiles, the other does not",
                          "expanded": se, "compressed": sc, "expanded_err": _msg(ae), "compressed_err": _msg(ac), "tags": fam_tags})
            continue
        if se != "ok":
            if se == "err":
                ck.count((label, p["key"]), False)
                if _msg(ae) != _msg(ac):
                    tags = list(fam_tags)
                    if _num_respelled(_msg(ae)) == _num_respelled(_msg(ac)):
                        tags.append("error-message-spelled-by-style")
                    fails.append({"key": p["key"], "src": p["src"], "what": "the error message depends on the output style",
                                  "expanded_err": _msg(ae), "compressed_err": _msg(ac), "tags": tags})
            continue
        try:
            te = cc.canon_css(ae["css"], True)
            tc = cc.canon_css(ac["css"], True)
        except cssread.IllFormed as e:
            def _ok(t):
                try:
                    cssread.parse(t)
                    return True
                except cssread.IllFormed:
                    return False
            re_, rc_ = _ok(ae["css"]), _ok(ac["css"])
            if re_ != rc_:
                ck.count((label, p["key"]), True)
                fails.append({"key": p["key"], "src": p["src"], "what": "the output of one style only is ill-formed CSS",
                              "expanded_css": ae["css"], "compressed_css": ac["css"], "expanded_readable": re_,
                              "compressed_readable": rc_, "tags": fam_tags})
            else:
                ck.hist(f"{label}:unreadable-output-in-both-styles(C05's business)")
            continue
        nontrivial = ae["css"].strip() != "" and ae["css"] != ac["css"]
        ck.count((label, p["key"]), nontrivial)
        if not cc.canon_equal(te, tc):
            fails.append({"key": p["key"], "src": p["src"], "what": "expanded and compressed output describe different CSS",
                          "expanded_css": ae["css"], "compressed_css": ac["css"], "diff": cc.first_diff(te, tc), "tags": fam_tags})
        if len(ck.cov["samples"]) < 6 and nontrivial and label in ("probe", "gen-prog") and i % 37 == 0:
            ck.sample({"kind": label, "source": p["src"], "expanded": ae["css"], "compressed": ac["css"]})
    return fails


def tie_both_styles(ck, pool, cases):
    """(b): both styles of grass == both styles of the model; and the Lean reader `readTree`
    (C05_read_roundtrip / C06_style_equiv_model), run on GRASS's own text, returns the canonical tree
    the theorems predict: `canonTop st t` whenever the guard `treeReadable st t` holds, and the SAME
    tree for both styles whenever the style-free guard `treeG t` holds."""
    jobs, reqs = [], []
    for c in cases:
        for st in c05.STYLES:
            jobs.append(compile_job(c["src"], style=st, syntax="scss", charset=True))
            reqs.append(cc.print_request(st, True, c["tree"]))
            reqs.append(" ".join(["ser", "canon", "c" if st == "compressed" else "e"] + cc.enc_body(c["tree"])))
    ans = cc.run_jobs(pool, jobs)
    reqs += ["ser readtree " + hexs(a.get("css") or "") for a in ans]
    outs = driver(reqs)
    nj = len(jobs)
    for i, c in enumerate(cases):
        models, read = [], []
        feats = cc.tree_features(c["tree"])
        nontrivial = len(feats - {"top:rule", "in:decl", "non-ascii"}) > 0
        gflag = None
        for j, st in enumerate(c05.STYLES):
            k = 2 * i + j
            a, o, canon, rd = ans[k], outs[2 * k], outs[2 * k + 1], outs[2 * nj + k]
            if not o.startswith("ok "):
                ck.cov["unsupported_dropped"] += 1
                continue
            parts = o.split(" ")
            model = unhex(parts[1])
            models.append(model)
            ck.count(("tie", hexs(json.dumps(c["tree"], ensure_ascii=False)), st), nontrivial)
            impl = a.get("css") if a.get("status") == "ok" else None
            bad = None
            if impl != model:
                bad = {"model_text": model, "impl_text": impl}
            readable, gflag, has_header = parts[6] == "1", parts[7] == "1", parts[8] == "1"
            ck.hist(f"tie:treeReadable={parts[6]} treeG={parts[7]} embedOk={parts[9] if len(parts) > 9 else '?'}")
            if readable and not has_header and impl is not None:
                ck.count(("readtree", hexs(json.dumps(c["tree"], ensure_ascii=False)), st), nontrivial)
                if rd != canon:
                    bad = {"reader_on_grass_text": rd[:600], "canonTop": canon[:600], "impl_text": impl}
                read.append(rd)
            if bad:
                ck.cov["model_disagreements"] += 1
                if len(ck.disagreements) < 3:
                    bad.update({"source": c["src"], "style": st or "expanded", "impl_status": a.get("status")})
                    ck.disagreements.append(bad)
        if gflag and len(read) == 2 and read[0] != read[1]:
            ck.cov["model_disagreements"] += 1
            ck.notes.append({"readTree_differs_between_styles_although_treeG": c["src"]})
        if len(models) == 2 and c.get("clean"):
            try:
                if cc.canon_css(models[0], True) != cc.canon_css(models[1], True):
                    ck.cov["model_disagreements"] += 1
                    ck.notes.append({"model_styles_read_back_different": c["src"]})
            except cssread.IllFormed:
                ck.cov["model_disagreements"] += 1
                ck.notes.append({"model_output_unreadable": c["src"]})
        for f in feats:
            ck.hist("tree:" + f)


SUB_SELS = ["a", ".x", "#i", "a.x", "div", "é", "b#j.k", "*", "a:hover", "[t=v]"]
SUB_NAMES = ["b", "c", "width", "margin-top", "x-y", "--v"]
SUB_VALUES = ["c", "auto", "10px", "2em", "solid", "a-b", "x1", "12", "é", "100%"]


def read_tie(ck, pool, n):
    """Declaration-only trees (the domain of C06_style_equiv_model_partial): the Lean reader `readCss`, run by
    the driver on GRASS's own text in both styles, must return the rule list of the tree."""
    rng = ck.rng
    cases = []
    for _ in range(n):
        rules = []
        for _ in range(rng.choice([0, 1, 2, 3, 4])):
            decls = [(rng.choice(SUB_NAMES[:5]), rng.choice(SUB_VALUES)) for _ in range(rng.choice([0, 1, 1, 2, 3]))]
            rules.append((rng.choice(SUB_SELS), decls))
        src = "\n".join(sel + " {" + " ".join(f"{n}: {v};" for n, v in ds) + "}" for sel, ds in rules) + "\n"
        exp = "|".join(hexs(sel) + "=" + ",".join(hexs(n) + ":" + hexs(v) for n, v in ds) for sel, ds in rules if ds)
        cases.append((src, exp))
    jobs = [compile_job(src, style=st, syntax="scss", charset=False) for src, _ in cases for st in c05.STYLES]
    ans = cc.run_jobs(pool, jobs)
    reqs = ["ser read " + hexs(a.get("css") or "") for a in ans]
    outs = driver(reqs)
    for i, (src, exp) in enumerate(cases):
        for j, st in enumerate(c05.STYLES):
            a, o = ans[2 * i + j], outs[2 * i + j]
            ck.count(("read-tie", src, st), exp != "")
            ck.hist("read-tie:" + ("nonempty" if exp else "empty"))
            want = "ok " + exp if exp else "ok "
            if a.get("status") != "ok" or o.strip() != want.strip():
                ck.cov["model_disagreements"] += 1
                if len(ck.disagreements) < 3:
                    ck.disagreements.append({"source": src, "style": st or "expanded", "reader_on_grass_text": o,
                                             "expected_rules": want, "impl_text": a.get("css"), "impl_status": a.get("status")})


def report(ck, pool, fails):
    fails.sort(key=lambda f: len(f["src"]))
    seen, reported = set(), 0
    for f in fails:
        if (f["key"], f["what"]) in seen:
            continue
        seen.add((f["key"], f["what"]))
        if reported < 3 and not f.get("tags") and not str(f["key"]).startswith("corpus:"):
            what = f["what"]

            def still(src):
                r = compare_styles(Check("C06", "quick", 0), pool, [{"key": "shrink", "src": src, "syntax": f.get("syntax", "scss")}], "shrink")
                return any(x["what"] == what for x in r)
            try:
                f["shrunk_src"] = c05.shrink_text(f["src"], still)
            except Exception as e:
                f["shrink_error"] = str(e)
        case_text = f["key"] if str(f["key"]).startswith("corpus:") else f.get("shrunk_src", f["src"])
        if ck.impl_violation(case_text, f, tags=f.get("tags", [])):
            reported += 1
    return reported


def run(tier, seed):
    ck = Check("C06", tier, seed)
    ck.disagreements = []
    n_tie = 800 if tier == "quick" else 10000
    n_prog = 1200 if tier == "quick" else 12000
    ck.cov["rule"] = (
        "every input compiled with OutputStyle::Expanded and ::Compressed; both outputs parsed by tools/cssread.py and "
        "canonicalised (rules: " + "; ".join(cc.CANON_RULES) + "), then compared as rule lists; status and error message "
        "must agree too. Inputs: generated model CssStmt trees (also the byte-for-byte tie of both styles against "
        "Grass.Serialize), generated SassScript programs (nesting, &, placeholders/@extend, mixins, control flow, maps, "
        "math, colour and string functions, interpolation in selectors/properties/values/queries; on every tree with the "
        "guard treeReadable the Lean reader readTree run on GRASS's text must return canonTop, and the same tree for both "
        "styles when treeG holds — C05_read_roundtrip / C06_style_equiv_model), the golden corpus "
        "(test cases without random()/unique-id()), and SassScript-visible probes: "
        f"{len(PROBE_VALUES)} values (numbers <1, float noise of both signs below the printing precision, colours, colour-on-the-left "
        f"operators, lists, calculations, selector functions, rgb()/hsl() with var(), meta.calc-args, values ending in an escaped ;) x "
        f"{len(PROBE_CONTEXTS) + 2} observers (str-length/str-index/str-slice of the interpolated text, ==, @if branch, "
        "property/selector/media-query names built from it, and the value itself as last / non-last declaration, in a list, "
        "inside @media); evaluation-order probes (a !global counter advanced from interpolation inside loud/preserved comments, "
        "empty rules and at-rules, placeholders, null declarations, custom properties, unknown at-rules, @import url, @keyframes names, "
        "lazy if()/and/or, observed by a later declaration and @if branch); verbatim-text probes (quoted strings containing `, ` and other "
        "spacing inside custom properties, plain-CSS function arguments, url(), unquote, interpolation). A case is distinct by "
        "its input and non-trivial when both styles compile and the two texts differ.")
    ck.assumptions = ["outputs observed through tools/cssread.py; identification rules of the canonicaliser are listed in `rule`",
                      "Eval has no style parameter in the model (C06_eval_style_free is true by construction)"]
    ck.do_prove(cores=("ser",))
    if not ck.do_build_runner():
        ck.unproved("correspondence-broken", {"why": "runner does not build against /repo", "error": getattr(ck, "build_error", "")})
        return ck.finish()
    pool = RunnerPool()
    import time as _t
    log(f"[C06] proof+build done at {round(_t.time() - ck.t0)}s")
    fails = []
    # past failures first
    fails += compare_styles(ck, pool, [{"key": f"regression:{wid}", "src": src, "syntax": "scss"} for wid, src in CORPUS], "regression")
    # tie
    tcases = c05.gen_tie_cases(ck, n_tie)
    n_clean = len(c05.CORPUS) + int(0.4 * n_tie)
    for i, c in enumerate(tcases):
        c["clean"] = i < n_clean
    tie_both_styles(ck, pool, tcases)
    read_tie(ck, pool, 600 if tier == "quick" else 6000)
    log(f"[C06] tie: {len(tcases)} trees + reader tie, disagreements={ck.cov['model_disagreements']}")
    # direct
    # (only the trees whose unquoted atoms are CSS tokens: the others carry junk such as `;` inside a value, which no
    # reader can attribute to a declaration; they stay in the byte-for-byte tie above)
    fails += compare_styles(ck, pool, [{"key": "tree:" + str(i), "src": c["src"], "syntax": "scss"}
                                       for i, c in enumerate(tcases) if i < n_clean], "gen-tree")
    log(f"[C06] gen-tree done at {round(_t.time() - ck.t0)}s")
    fails += compare_styles(ck, pool, probe_cases(ck.rng, 10 ** 6), "probe")
    fails += compare_styles(ck, pool, side_effect_cases(), "side-effect")
    fails += compare_styles(ck, pool, verbatim_cases(), "verbatim")
    log(f"[C06] probes done at {round(_t.time() - ck.t0)}s")
    fails += compare_styles(ck, pool, [{"key": "prog:" + str(i), "src": cc.gen_program(ck.rng), "syntax": "scss"} for i in range(n_prog)], "gen-prog")
    log(f"[C06] gen-prog done at {round(_t.time() - ck.t0)}s")
    cs = cc.corpus_cases()
    if tier == "quick":
        idx = list(range(len(cs)))
        ck.rng.shuffle(idx)
        cs = [cs[i] for i in sorted(idx[:1500])]
    fails += compare_styles(ck, pool, [{"key": f"corpus:{c['file']}:{c['name']}", "src": c["input"],
                                        "syntax": c["options"].get("syntax")} for c in cs], "corpus")
    log(f"[C06] direct: failures={len(fails)}")
    unknown = [f for f in fails if not f.get("tags")]
    if (not ck.proof["ok"] or ck.cov["model_disagreements"] or getattr(ck, "changed", None)) and not unknown and tier == "quick":
        log("[C06] proof or correspondence broken, or modelled sources changed: enlarging the search")
        more = c05.gen_tie_cases(ck, 3000)
        tie_both_styles(ck, pool, more)
        fails += compare_styles(ck, pool, [{"key": "tree+:" + str(i), "src": c["src"], "syntax": "scss"}
                                           for i, c in enumerate(more) if c.get("clean")], "gen-tree")
        fails += compare_styles(ck, pool, [{"key": "prog+:" + str(i), "src": cc.gen_program(ck.rng), "syntax": "scss"} for i in range(6000)], "gen-prog")
    reported = report(ck, pool, fails)
    if ck.cov["model_disagreements"] and not reported:
        ck.unproved("correspondence-broken", {"correspondence": "Grass.Serialize.serialize vs grass text, both styles",
                                              "cases": ck.disagreements, "notes": ck.notes[:3]})
    return ck.finish()


def replay(path):
    r = json.load(open(path))
    ck = Check("C06", "quick", 0)
    ck.disagreements = []
    ck.do_build_runner()
    pool = RunnerPool(2)
    src = r.get("shrunk_src") or r.get("src")
    if not src:
        print(json.dumps(r, indent=1)[:4000])
        return 0
    fails = compare_styles(ck, pool, [{"key": "replay", "src": src, "syntax": r.get("syntax", "scss")}], "replay")
    print("source:", src)
    print("recorded:", r.get("what"))
    print("style comparison now:", "equivalent" if not fails else json.dumps(fails[0], indent=1, default=str)[:3000])
    return 1 if fails else 0
