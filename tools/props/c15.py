"""C15 — colours keep channels in range and agree across spellings and colour spaces.

(a) PROOF   lake build GrassProofs.C15 (+ translator regenerates Grass/Generated/NamedColors.lean from
            /repo/crates/compiler/src/color/name.rs first; the committed reference table is checked
            to be in sync with tools/data/css_named_colors.json)
(b) TIE     the Lean model (drv_color) and grass on the same Sass expressions, both output styles,
            printed colours byte for byte, numbers exactly (as rationals) up to the 10 printed digits
(c) DIRECT  laws evaluated on grass's own answers: `lhs == rhs` computed by grass, identical compressed
            spelling, channel range (Lean predicate `Color.inRange` through the driver), named colours
            against the independent reference table; the RGB cube through nested @for loops that emit
            only failures.
"""
import json
import os
import re
import threading
import time
from fractions import Fraction as F

import translate_colors
from vlib import Check, RunnerPool, compile_job, driver, log, unhex

REF = json.load(open(translate_colors.REF_JSON))["colors"]
UNIT_SASS = {"": "", "pct": "%", "deg": "deg", "grad": "grad", "rad": "rad", "turn": "turn", "px": "px"}
CH_FN = {"rgb-ch": "rgb", "rgba-ch": "rgba", "hsl-ch": "hsl", "hsla-ch": "hsla", "hwb-ch": "color.hwb"}
SASS_FN = {"hwb": "color.hwb", "whiteness": "color.whiteness", "blackness": "color.blackness",
           "change": "change-color", "adjust": "adjust-color", "scale": "scale-color"}
HEADER = '@use "sass:color";\n@use "sass:math";\n'

# ------------------------------------------------------------------------------------------------
# expressions:  ("name", spelling) | ("hex", digits) | ("num", decimal-or-"p/q" string, unit)
#               | ("special", text)   an unquoted special-function string: var(--x), env(x)
#               | ("call", fn, [args], [(kw, arg)], alias-or-None)
#               fn `rgb-ch`/`rgba-ch`/`hsl-ch`/`hsla-ch`/`hwb-ch`: the one-argument channel syntax
#               `f(a b c)` or, with kw `slash`, `f(a b c / alpha)`
# ------------------------------------------------------------------------------------------------


def name(s):
    return ("name", s)


def hx(s):
    return ("hex", s)


def num(s, unit=""):
    return ("num", str(s), unit)


def special(text):
    return ("special", text)


def call(fn, *args, kw=(), alias=None):
    return ("call", fn, list(args), list(kw), alias)


def frac(s):
    return F(s)


def to_sass(e):
    k = e[0]
    if k == "name":
        return e[1]
    if k == "hex":
        return "#" + e[1]
    if k == "num":
        s = e[1]
        if "/" in s:
            p, q = s.split("/")
            s = f"math.div({p}, {q})"
        return s + UNIT_SASS[e[2]]
    if k == "special":
        return e[1]
    _, fn, args, kw, alias = e
    if fn in CH_FN:
        inner = " ".join(to_sass(a) for a in args)
        if kw:
            inner += " / " + to_sass(kw[0][1])
        return f"{CH_FN[fn]}({inner})"
    if fn == "eq":
        return f"({to_sass(args[0])} == {to_sass(args[1])})"
    parts = [to_sass(a) for a in args] + [f"${k}: {to_sass(v)}" for k, v in kw]
    return f"{alias or SASS_FN.get(fn, fn)}({', '.join(parts)})"


def to_tokens(e):
    k = e[0]
    if k == "name":
        return ["c:" + e[1]]
    if k == "hex":
        return ["h:" + e[1]]
    if k == "num":
        q = frac(e[1])
        return [f"n:{q.numerator}/{q.denominator}:{e[2] or '-'}"]
    if k == "special":
        return ["v:" + e[1].encode().hex()]
    _, fn, args, kw, alias = e
    # rgb/rgba and hsl/hsla are separate tokens: the name is part of the string returned for special arguments
    t = ["(", alias if fn in ("rgb", "hsl") and alias in ("rgba", "hsla") else fn]
    for a in args:
        t += to_tokens(a)
    for k2, v in kw:
        t += ["k:" + k2] + to_tokens(v)
    return t + [")"]


def has_call(e):
    return e[0] == "call"


def features(e, acc):
    """Constructs of the round-3 growth present in an expression (for the evidence histogram)."""
    if e[0] == "num" and e[2] not in ("", "pct", "deg"):
        acc.add("construct:unit " + e[2])
    elif e[0] == "special":
        acc.add("construct:special-function argument")
    elif e[0] == "call":
        _, fn, args, kw, alias = e
        if fn in CH_FN:
            acc.add(f"construct:{CH_FN[fn]}(a b c / alpha)" if kw else f"construct:{CH_FN[fn]}(a b c)")
        if fn in ("rgb", "hsl") and len(args) == 2:
            acc.add(f"construct:{alias or fn}() with two arguments")
        if fn in ("grayscale", "invert", "opacity", "saturate") and args and args[0][0] == "num" and len(args) == 1:
            acc.add("construct:plain-CSS filter " + fn + "(number)")
        for a in args:
            features(a, acc)
        for _, v in kw:
            features(v, acc)
    return acc


# ------------------------------------------------------------------------------------------------
# cases
# ------------------------------------------------------------------------------------------------

class Case:
    """`exprs`: expressions evaluated by grass and by the model (tie).  `law`: when set, exprs[0] and
    exprs[1] must be the same colour (grass's own `==` and identical compressed spelling) — the direct
    oracle; `expect` optionally fixes the expected compressed-output channels from reference data."""

    def __init__(self, exprs, law=None, expect=None, group="", extra=(), skip_if_risky=False):
        self.exprs = list(exprs)
        # the law equates two differently computed f64 values: where the model marks a rounding f64-sensitive
        # (exact channel within 1e-8 of X.5) the direct law is not judged (the tie still is); counted in evidence
        self.skip_if_risky = skip_if_risky
        self.law = law
        self.expect = expect
        self.group = group
        # direct-only observations: (sass source, text grass must print in both styles).  Used for
        # index()/map-get(), which apply grass's `==` to colours inside lists and maps.
        self.extra = list(extra)
        # when set, exprs are red(c), green(c), blue(c), alpha(c) of one colour: the Lean range predicate is
        # evaluated on these four numbers as grass prints them (printing a colour saturates its channels,
        # the accessors do not)
        self.accessor_range = False
        if law:
            self.exprs.append(call("eq", exprs[0], exprs[1]))

    def text(self):
        if self.law:
            return f"{to_sass(self.exprs[0])} == {to_sass(self.exprs[1])}"
        return "; ".join(to_sass(e) for e in self.exprs)


def rgb_of_hex6(h):
    return int(h[0:2], 16), int(h[2:4], 16), int(h[4:6], 16)


def hex6(r, g, b):
    return f"{r:02x}{g:02x}{b:02x}"


def accessors_roundtrip(c, space):
    if space == "hsl":
        return call("hsl", call("hue", c), call("saturation", c), call("lightness", c))
    if space == "hsla":
        return call("hsl", call("hue", c), call("saturation", c), call("lightness", c), call("alpha", c), alias="hsla")
    if space == "hwb":
        return call("hwb", call("hue", c), call("whiteness", c), call("blackness", c))
    if space == "hwba":
        return call("hwb", call("hue", c), call("whiteness", c), call("blackness", c), call("alpha", c))
    if space == "rgb":
        return call("rgb", call("red", c), call("green", c), call("blue", c))
    return call("rgb", call("red", c), call("green", c), call("blue", c), call("alpha", c), alias="rgba")


def randcase(rng, s):
    return "".join(ch.upper() if rng.random() < 0.5 else ch for ch in s)


# minimised past failures: run first on every run
def corpus_cases():
    c1 = hx("123457")
    return [
        # D14 (fixed in /repo 712bbd3): lightness() was rounded to an integer
        Case([accessors_roundtrip(c1, "hsl"), c1], law="rgb_hsl_rgb_accessors", group="corpus"),
        Case([call("lightness", c1)], group="corpus"),
        # D21 (fixed in /repo 391b741): mix() kept fractional channels
        Case([call("mix", hx("000"), hx("020202"), num("25", "pct")), hx("020202")], law="canon", group="corpus"),
        Case([call("red", call("mix", hx("000"), hx("020202"), num("25", "pct")))], group="corpus"),
    ]


def named_cases(rng):
    out = []
    for n, (r, g, b, a) in sorted(REF.items()):
        c = name(n)
        out.append(Case([c, name(randcase(rng, n)), name(n.upper())], group="named", expect=(n, (r, g, b, a))))
        if a == 255:
            h = hex6(r, g, b)
            out.append(Case([c, hx(h)], law="name_eq_hex", group="named"))
            out.append(Case([c, hx(h.upper() + "FF")], law="name_eq_hex8", group="named"))
            out.append(Case([c, call("rgb", num(r), num(g), num(b))], law="name_eq_rgb", group="named"))
            out.append(Case([accessors_roundtrip(c, "hsl"), c], law="rgb_hsl_rgb_accessors", group="named"))
            out.append(Case([accessors_roundtrip(c, "hwb"), c], law="rgb_hwb_rgb_accessors", group="named"))
            if all(x % 17 == 0 for x in (r, g, b)):
                out.append(Case([c, hx(h[0] + h[2] + h[4])], law="name_eq_hex3", group="named"))
        else:
            out.append(Case([c, call("rgb", num(0), num(0), num(0), num(0), alias="rgba")], law="name_eq_rgb", group="named"))
            out.append(Case([c, hx("0000")], law="name_eq_hex", group="named"))
    return out


def short_hex_cases(rng, tier):
    out = []
    for i in range(4096):
        s = f"{i:03x}"
        l = s[0] * 2 + s[1] * 2 + s[2] * 2
        c3, c6 = hx(s), hx(l)
        out.append(Case([c3, c6], law="hex3_eq_hex6", group="shorthex"))
        out.append(Case([accessors_roundtrip(c3, "hsl"), c3], law="rgb_hsl_rgb_accessors", group="shorthex"))
        out.append(Case([accessors_roundtrip(c6, "hwb"), c6], law="rgb_hwb_rgb_accessors", group="shorthex"))
        if tier == "thorough" or i % 8 == rng.randrange(8):
            out.append(Case([hx(s + "f"), hx(l + "ff")], law="hex4_eq_hex8", group="shorthex"))
            out.append(Case([hx(s.upper() + "F"), c3], law="hex4_eq_hex3", group="shorthex"))
            a = rng.randrange(16)
            a4 = f"{a:x}"
            r, g, b = rgb_of_hex6(l)
            out.append(Case([hx(s + a4), hx(l + a4 * 2)], law="hex4_eq_hex8", group="shorthex"))
            out.append(Case([hx(s + a4), call("rgb", num(r), num(g), num(b), num(f"{a * 17}/255"), alias="rgba")],
                            law="hex4_eq_rgba", group="shorthex"))
    return out


LAT = [0, 1, 2, 51, 127, 128, 129, 254, 255]
ALPHAS = ["1", "0", "0.5", "0.25", "0.999", "0.001", "0.3333333333"]
AMOUNTS = ["0", "0.001", "10", "25", "33.3333", "50", "99.999", "100", "100.001", "-0.001", "-5", "150"]
UNIT_AMOUNTS = ["0", "0.001", "0.25", "0.5", "0.999", "1", "1.001", "-0.001", "-0.5", "2"]
DEGREES = ["0", "0.5", "30", "60", "120", "179.999", "180", "240", "359.5", "360", "390", "720.25", "-30", "-360", "-400.5"]


def rand_rgb(rng):
    if rng.random() < 0.6:
        return rng.choice(LAT), rng.choice(LAT), rng.choice(LAT)
    return rng.randrange(256), rng.randrange(256), rng.randrange(256)


def rand_color(rng, allow_alpha=True, rgb_only=False):
    """A colour written in one of the spellings / colour spaces (`rgb_only`: no stored HSL)."""
    r, g, b = rand_rgb(rng)
    k = rng.random() * (0.8 if rgb_only else 1)
    if k < 0.35:
        return hx(hex6(r, g, b))
    if k < 0.45:
        return name(rng.choice(sorted(REF)))
    if k < 0.60 or not allow_alpha:
        return call("rgb", num(r), num(g), num(b))
    if k < 0.75:
        return call("rgb", num(r), num(g), num(b), num(rng.choice(ALPHAS)), alias="rgba")
    if k < 0.80:
        return hx(hex6(r, g, b) + f"{rng.randrange(256):02x}")
    if k < 0.92:
        args = [num(rng.choice(DEGREES), rng.choice(["", "deg"])), num(rng.choice(AMOUNTS[:8]), "pct"),
                num(rng.choice(AMOUNTS[:8]), "pct")]
        if rng.random() < 0.4:
            args.append(num(rng.choice(ALPHAS)))
        return call("hsl", *args, alias=rng.choice(["hsl", "hsla"]))
    w = rng.choice(["0", "10", "25", "50", "75", "100"])
    bl = rng.choice(["0", "10", "25", "50", "75", "100"])
    args = [num(rng.choice(DEGREES), rng.choice(["", "deg"])), num(w, "pct"), num(bl, "pct")]
    if rng.random() < 0.4:
        args.append(num(rng.choice(ALPHAS)))
    return call("hwb", *args)


def function_cases(rng, n_each):
    out = []

    def add(e, canon=True):
        out.append(Case([e], group="fn:" + e[1]))
        if canon:
            # integrality of the stored channels / canonical re-spelling, judged by grass's own `==`
            out.append(Case([accessors_roundtrip(e, "rgba"), e], law="canon", group="canon"))
            if rng.random() < 0.4:
                k = Case([call(a, e) for a in ("red", "green", "blue", "alpha")], group="accessor-range")
                k.accessor_range = True
                out.append(k)

    for _ in range(n_each):
        c = rand_color(rng)
        c2 = rand_color(rng)
        legal = lambda xs, lo, hi: [x for x in xs if lo <= frac(x) <= hi]
        # constructors, arguments in and outside their ranges
        ch = lambda: num(rng.choice(["0", "1", "127", "127.5", "127.49999999999", "128", "254.5", "255", "256", "300", "-1", "-0.4"]))
        pc = lambda: num(rng.choice(["0", "50", "33.3333", "99.8", "100", "100.2", "120", "-5"]), "pct")
        args = [rng.choice([ch, ch, pc])() for _ in range(3)]
        if rng.random() < 0.5:
            args.append(rng.choice([num(rng.choice(UNIT_AMOUNTS)), pc()]))
        add(call("rgb", *args, alias=rng.choice(["rgb", "rgba"])))
        args = [num(rng.choice(DEGREES), rng.choice(["", "deg"])), num(rng.choice(AMOUNTS), "pct"), num(rng.choice(AMOUNTS), "pct")]
        if rng.random() < 0.5:
            args.append(rng.choice([num(rng.choice(UNIT_AMOUNTS)), pc()]))
        add(call("hsl", *args, alias=rng.choice(["hsl", "hsla"])))
        args = [num(rng.choice(DEGREES), rng.choice(["", "deg"])), num(rng.choice(AMOUNTS), "pct"), num(rng.choice(AMOUNTS), "pct")]
        if rng.random() < 0.5:
            args.append(rng.choice([num(rng.choice(UNIT_AMOUNTS)), pc()]))
        add(call("hwb", *args))
        add(call("rgb", c, num(rng.choice(UNIT_AMOUNTS)), alias="rgba"))
        # accessors
        for acc in ("red", "green", "blue", "alpha", "hue", "saturation", "lightness", "whiteness", "blackness"):
            if rng.random() < 0.35:
                add(call(acc, c), canon=False)
        # functions
        add(call("mix", c, c2, num(rng.choice(AMOUNTS), rng.choice(["", "pct"]))))
        if rng.random() < 0.3:
            add(call("mix", c, c2))
        add(call("invert", c, num(rng.choice(AMOUNTS), rng.choice(["", "pct"]))))
        add(call("invert", c))
        add(call("complement", c))
        add(call("grayscale", c))
        add(call("adjust-hue", c, num(rng.choice(DEGREES), rng.choice(["", "deg"]))))
        for f in ("lighten", "darken", "saturate", "desaturate"):
            add(call(f, c, num(rng.choice(AMOUNTS), rng.choice(["", "pct"]))))
        add(call("opacify", c, num(rng.choice(UNIT_AMOUNTS)), alias=rng.choice(["opacify", "fade-in"])))
        add(call("transparentize", c, num(rng.choice(UNIT_AMOUNTS)), alias=rng.choice(["transparentize", "fade-out"])))
        add(call("ie-hex-str", c), canon=False)
        # change / adjust / scale
        upd = rng.choice(["change", "adjust", "scale"])
        space = rng.choice(["rgb", "hsl", "hwb", "alpha", "mixed"])
        kw = []
        signed = lambda xs: xs if upd == "change" else xs + ["-" + x for x in xs if frac(x) > 0]
        if upd == "scale":
            val = lambda: num(rng.choice(signed(["0", "10", "50", "100", "100.5"])), "pct")
            names = {"rgb": ["red", "green", "blue", "alpha"], "hsl": ["saturation", "lightness", "alpha"],
                     "hwb": ["whiteness", "blackness", "alpha"], "alpha": ["alpha"], "mixed": ["red", "lightness", "whiteness"]}[space]
            for k in names:
                if rng.random() < 0.6:
                    kw.append((k, val()))
        else:
            if space in ("rgb", "mixed"):
                for k in ("red", "green", "blue"):
                    if rng.random() < 0.5:
                        kw.append((k, num(rng.choice(signed(["0", "1", "100", "127.5", "255", "255.5"])))))
            if space in ("hsl", "mixed"):
                if rng.random() < 0.5:
                    kw.append(("hue", num(rng.choice(DEGREES), rng.choice(["", "deg"]))))
                for k in ("saturation", "lightness"):
                    if rng.random() < 0.5:
                        kw.append((k, num(rng.choice(signed(["0", "10", "50", "100", "100.5"])), "pct")))
            if space == "hwb":
                if rng.random() < 0.5:
                    kw.append(("hue", num(rng.choice(DEGREES), rng.choice(["", "deg"]))))
                for k in ("whiteness", "blackness"):
                    if rng.random() < 0.6:
                        kw.append((k, num(rng.choice(signed(["0", "10", "50", "100", "100.5"])), "pct")))
        if upd != "scale" and (space == "alpha" or rng.random() < 0.3):
            kw.append(("alpha", num(rng.choice(signed(["0", "0.25", "0.5", "1", "1.001"])))))
        if kw:
            order = ["red", "green", "blue", "alpha", "hue", "saturation", "lightness", "whiteness", "blackness"]
            kw.sort(key=lambda p: order.index(p[0]))
            add(call(upd, c, kw=kw))
    return out


REF_BY_RGB = {}
for _n, (_r, _g, _b, _a) in sorted(REF.items()):
    if _a == 255:
        REF_BY_RGB.setdefault((_r, _g, _b), []).append(_n)

FRACTIONAL = ["127.6", "127.4", "127.5", "127.49999999999", "127.50000000001", "0.4", "0.6", "254.6", "200.25", "33.3", "1.5"]
PERCENTS = ["50", "50.2", "33.3", "0.1", "0.3", "99.9", "25.1", "66.6667", "12.5", "100", "0"]


def fractional_constructor(rng):
    """A constructor call whose channels are (mostly) not integers before grass rounds them."""
    k = rng.random()
    if k < 0.55:
        ch = lambda: (num(rng.choice(PERCENTS), "pct") if rng.random() < 0.55 else num(rng.choice(FRACTIONAL)))
        args = [ch(), ch(), ch()]
        if rng.random() < 0.3:
            args.append(num(rng.choice(["1", "0.5", "0.25", "100%"]).rstrip("%"), "pct" if rng.random() < 0 else ""))
        return call("rgb", *args, alias=rng.choice(["rgb", "rgba"]))
    dec = lambda lo, hi: f"{rng.uniform(lo, hi):.3f}"
    if k < 0.8:
        args = [num(dec(0, 360), rng.choice(["", "deg"])), num(dec(0, 100), "pct"), num(dec(0, 100), "pct")]
        if rng.random() < 0.3:
            args.append(num(rng.choice(["1", "0.5", "0.25"])))
        return call("hsl", *args, alias=rng.choice(["hsl", "hsla"]))
    w = rng.uniform(0, 100)
    args = [num(dec(0, 360), rng.choice(["", "deg"])), num(f"{w:.3f}", "pct"), num(dec(0, 100 - w), "pct")]
    if rng.random() < 0.3:
        args.append(num(rng.choice(["1", "0.5", "0.25"])))
    return call("hwb", *args)


SPELLING_CORPUS = [
    # seeded C15-m2: rgb() stored unrounded channels, so these compared unequal although they print alike
    call("rgb", num("50", "pct"), num("0", "pct"), num("0", "pct")),
    call("rgb", num("127.6"), num("0"), num("0")),
    call("rgb", num("50.2", "pct"), num("33.3", "pct"), num("0.1", "pct"), num("0.5"), alias="rgba"),
    call("hsl", num("0"), num("100", "pct"), num("25.1", "pct")),
]


def spelling_cases(rng, n):
    """Every constructed colour must be the same colour as each other spelling of its rounded channels:
    `==` in both operand orders, index() in a list, map-get() as key and as lookup value — all computed
    by grass.  The other spellings are built from grass-independent data: the channels the model
    computes (hex, integer rgb(), CSS name from the reference table) — skipped when the model marks
    the rounding f64-sensitive — and always `rgb(red(c), green(c), blue(c), alpha(c))`."""
    ctors = list(SPELLING_CORPUS) + [fractional_constructor(rng) for _ in range(n)]
    model = driver_par(["color eval " + " ".join(to_tokens(e)) for e in ctors])
    out = []
    far = hx("010203")
    for c, m in zip(ctors, model):
        if not m.startswith("ok color"):
            continue
        p = m.split(" ")
        r, g, b, a = (F(x) for x in p[2:6])
        risky = m.endswith(" risky")
        if risky and c[1] == "rgb" and all(x[0] == "num" for x in c[2]):
            # rgb() with literal channels: an exact X.5 (50% = 127.5) is exact in f64 as well and rounds up on
            # both sides; only values *near* X.5 without being it are f64-sensitive
            def safe(arg):
                v = frac(arg[1]) * (F(255, 100) if arg[2] == "pct" else 1)
                d = abs(v - (v.numerator // v.denominator) - F(1, 2))
                return d == 0 or d > F(1, 10 ** 6)
            risky = not all(safe(x) for x in c[2][:3])
        others = [("accessors", accessors_roundtrip(c, "rgba")), ("accessors3", accessors_roundtrip(c, "rgb") if a == 1 else None)]
        if not risky and all(x.denominator == 1 for x in (r, g, b)):
            ri, gi, bi = int(r), int(g), int(b)
            if a == 1:
                others.append(("hex", hx(hex6(ri, gi, bi))))
                others.append(("int_rgb", call("rgb", num(ri), num(gi), num(bi))))
                for nm in REF_BY_RGB.get((ri, gi, bi), [])[:1]:
                    others.append(("name", name(nm)))
            else:
                others.append(("int_rgba", call("rgb", num(ri), num(gi), num(bi), num(f"{a.numerator}/{a.denominator}"), alias="rgba")))
        for tag, o in others:
            if o is None:
                continue
            cs, os_ = to_sass(c), to_sass(o)
            extra = [(f"inspect(index(({to_sass(far)}, {os_}), {cs}))", "2"),
                     (f"inspect(index(({cs}, {to_sass(far)}), {os_}))", "1"),
                     (f"inspect(map-get(({os_}: 1), {cs}))", "1"),
                     (f"inspect(map-get(({cs}: 1), {os_}))", "1")]
            out.append(Case([c, o], law="constructed_eq_" + tag, group="spelling", extra=extra))
            out.append(Case([o, c], law="constructed_eq_" + tag + "_swapped", group="spelling"))
    return out


ANGLES = {  # unit -> (values, factor to degrees as a decimal string the law can use; None = irrational)
    "grad": (["0", "10", "50", "100", "133.3", "400", "410", "-30", "-450.5"], F(9, 10)),
    "turn": (["0", "0.25", "0.5", "1", "1.125", "-0.25", "2.75", "0.001"], F(360)),
    "rad": (["0", "1", "3.14159", "0.5", "6.5", "-1", "-7.25", "0.0001"], None),
    "px": (["0", "30", "400", "-30.5"], F(1)),
    "pct": (["0", "30", "400", "-30.5"], F(1)),
}
RAD_TO_DEG = F(180.0 / __import__("math").pi)   # the f64 grass multiplies with (unit/conversion.rs:83)
SPECIALS = ["var(--x)", "var(--long-name)", "env(x)", "env(safe-area-inset-left)", "var(--a, 1)"]


def dec(q):
    """A Fraction as a finite decimal literal (the callers only pass values with a finite expansion)."""
    q = F(q)
    s = f"{q.numerator * 10 ** 12 // q.denominator}" if q >= 0 else "-" + f"{-q.numerator * 10 ** 12 // q.denominator}"
    neg, digits = s.startswith("-"), s.lstrip("-").rjust(13, "0")
    out = (digits[:-12] + "." + digits[-12:]).rstrip("0").rstrip(".")
    return ("-" if neg else "") + out


def syntax_cases(rng, n):
    """Round-3 growth: angle units, the one-argument space/slash channel syntax, special-function (var/env)
    arguments returned as plain-CSS function strings, CSS filter pass-through, rgba($color, $alpha)."""
    out = []
    # laws between two spellings of the same f64 computation are always judged; a unit conversion multiplies
    # by a factor first, so those are not judged where the model marks the rounding f64-sensitive
    L = lambda lhs, rhs, law: out.append(Case([lhs, rhs], law=law, group="syntax", skip_if_risky="_is_deg" in law))
    T = lambda *es: out.append(Case(list(es), group="syntax"))
    pcs = ["0", "12.5", "50", "33.3333", "100", "120", "-5"]
    for _ in range(n):
        # --- angle units: every place angle_value is used
        unit = rng.choice(list(ANGLES))
        v = rng.choice(ANGLES[unit][0])
        fac = ANGLES[unit][1]
        deg = F(v) * (fac if fac is not None else RAD_TO_DEG)
        s_, l_ = num(rng.choice(pcs), "pct"), num(rng.choice(pcs), "pct")
        a = num(v, unit)
        d = num(dec(deg), "deg")     # rad: 12 decimals of the f64 product (colours compare by channel)
        c = rand_color(rng)
        c8 = rand_color(rng, rgb_only=True)
        T(call("hue", call("hsl", a, s_, l_)))
        L(call("hsl", a, s_, l_), call("hsl", d, s_, l_), f"hsl_hue_{unit}_is_deg")
        w_, b_ = num(rng.choice(["0", "10", "40", "80", "100"]), "pct"), num(rng.choice(["0", "10", "40", "80", "100"]), "pct")
        L(call("hwb", a, w_, b_), call("hwb", d, w_, b_), f"hwb_hue_{unit}_is_deg")
        L(call("adjust-hue", c, a), call("adjust-hue", c, d), f"adjust_hue_{unit}_is_deg")
        L(call("adjust", c, kw=[("hue", a)]), call("adjust-hue", c, d), f"adjust_color_hue_{unit}_is_deg")
        L(call("change", c, kw=[("hue", a)]), call("change", c, kw=[("hue", d)]), f"change_color_hue_{unit}_is_deg")
        # --- one-argument channel syntax
        chv = lambda: rng.choice([num(rng.choice(["0", "1", "127.5", "200", "255", "300", "-1"])), num(rng.choice(pcs), "pct")])
        r_, g_, b2 = chv(), chv(), chv()
        al = rng.choice([num(rng.choice(UNIT_AMOUNTS[:6])), num(rng.choice(["0", "25", "50", "100", "120"]), "pct")])
        nm = rng.choice(["rgb", "rgba"])
        L(call(nm + "-ch", r_, g_, b2), call("rgb", r_, g_, b2, alias=nm), "rgb_space_is_comma")
        L(call(nm + "-ch", r_, g_, b2, kw=[("slash", al)]), call("rgb", r_, g_, b2, al, alias=nm), "rgb_slash_is_comma")
        hn = rng.choice(["hsl", "hsla"])
        hh = rng.choice([a, num(rng.choice(DEGREES), rng.choice(["", "deg"]))])
        L(call(hn + "-ch", hh, s_, l_), call("hsl", hh, s_, l_, alias=hn), "hsl_space_is_comma")
        L(call(hn + "-ch", hh, s_, l_, kw=[("slash", al)]), call("hsl", hh, s_, l_, al, alias=hn), "hsl_slash_is_comma")
        L(call("hwb-ch", hh, w_, b_), call("hwb", hh, w_, b_), "hwb_space_is_comma")
        L(call("hwb-ch", hh, w_, b_, kw=[("slash", al)]), call("hwb", hh, w_, b_, al), "hwb_slash_is_comma")
        # wrong element counts (errors by class), a unit that is neither none nor %
        T(call(nm + "-ch", r_, g_))
        T(call(hn + "-ch", hh, s_, l_, al))
        T(call("rgb", r_, num("3", "px"), b2, alias=nm))
        T(call("rgb", r_, g_, b2, num("1", "px"), alias=nm))
        # --- special-function arguments: the call is returned as an unquoted plain-CSS function string
        sp = lambda: special(rng.choice(SPECIALS))
        args = [r_, g_, b2] + ([al] if rng.random() < 0.5 else [])
        args[rng.randrange(len(args))] = sp()
        T(call("rgb", *args, alias=nm))
        T(call(nm + "-ch", *args[:3]))
        if len(args) == 4 and args[2][0] == "num" and args[3][0] == "num":
            T(call(nm + "-ch", *args[:3], kw=[("slash", args[3])]))
        args = [hh, s_, l_] + ([al] if rng.random() < 0.5 else [])
        args[rng.randrange(len(args))] = sp()
        T(call("hsl", *args, alias=hn))
        T(call(hn + "-ch", *args[:3]))
        T(call("rgb", c, sp(), alias="rgba"))
        T(call("rgb", special(rng.choice(["var(--x)", "var(--long-name)", "var(--a, 1)"])), al, alias=nm))
        T(call(nm + "-ch", special(rng.choice(["var(--x)", "var(--long-name)"]))))
        T(call(nm + "-ch", r_, special(rng.choice(["var(--x)", "var(--long-name)"]))))
        T(call("hsl", special(rng.choice(["var(--x)", "var(--long-name)"])), s_, alias=hn))
        # --- plain-CSS filter functions pass through; opacity($color) is alpha($color)
        fv = num(rng.choice(["0", "0.5", "1", "1.5", "50", "0.123456789012", "-2"]), rng.choice(["", "pct", "px"]))
        T(call(rng.choice(["grayscale", "invert", "opacity", "saturate"]), fv))
        T(call("opacity", c), call("alpha", c))
        # --- rgba($color, $alpha): alpha replaced, channels kept
        L(call("rgb", c, al, alias=nm), call("rgb", call("red", c), call("green", c), call("blue", c), al, alias="rgba"), "rgba_color_alpha")
    return out


def law_cases(rng, n):
    """The laws of the property statement on random colours in every spelling (direct oracle + tie)."""
    out = []
    z = num("0")
    for _ in range(n):
        c = rand_color(rng)
        c2 = rand_color(rng)
        r, g, b = rand_rgb(rng)
        o = hx(hex6(r, g, b))                       # an opaque 8-bit colour
        L = lambda lhs, rhs, law: out.append(Case([lhs, rhs], law=law, group="law"))
        L(call("rgb", num(r), num(g), num(b)), o, "rgb_eq_hex")
        L(accessors_roundtrip(o, "hsl"), o, "rgb_hsl_rgb_accessors")
        L(accessors_roundtrip(o, "hwb"), o, "rgb_hwb_rgb_accessors")
        L(accessors_roundtrip(c, "hsla"), c, "rgb_hsl_rgb_accessors")
        # hue() of a colour built by hsl() is the stored hue, whiteness()/blackness() come from the rounded
        # channels: the HWB round trip is a law of 8-bit RGB colours only (as the property says)
        c8 = rand_color(rng, rgb_only=True)
        L(accessors_roundtrip(c8, "hwba"), c8, "rgb_hwb_rgb_accessors")
        L(accessors_roundtrip(c, "rgba"), c, "canon")
        L(call("invert", call("invert", c)), c, "invert_invert")
        L(call("complement", call("complement", c)), c, "complement_complement")
        L(call("mix", c, c2, num("100", "pct")), call("rgb", c, call("alpha", c), alias="rgba"), "mix_weight_100")
        L(call("mix", c, c2, num("0", "pct")), call("rgb", c2, call("alpha", c2), alias="rgba"), "mix_weight_0")
        L(call("lighten", c, z), c, "lighten_0")
        L(call("darken", c, z), c, "darken_0")
        L(call("saturate", c, z), c, "saturate_0")
        L(call("desaturate", c, z), c, "desaturate_0")
        L(call("adjust-hue", c, z), c, "adjust_hue_0")
        L(call("adjust-hue", c, num("360")), c, "adjust_hue_360")
        L(call("invert", c, z), c, "invert_weight_0")
        L(call("opacify", c, z), c, "opacify_0")
        L(call("transparentize", c, z), c, "transparentize_0")
        L(call("opacify", c, num("1")), call("rgb", c, num("1"), alias="rgba"), "opacify_clamps")
        L(call("transparentize", c, num("1")), call("rgb", c, num("0"), alias="rgba"), "transparentize_clamps")
        x = rng.choice(["0.1", "0.5", "0.75"])
        L(call("opacify", call("opacify", c, num(x)), num("1")), call("rgb", c, num("1"), alias="rgba"), "opacify_clamps")
        # change / adjust / scale compose as documented
        v = rng.choice(["0", "17", "128", "255"])
        L(call("change", c, kw=[("red", num(v))]), call("rgb", num(v), call("green", c), call("blue", c), call("alpha", c)), "change_red")
        d = rng.choice(DEGREES)
        L(call("adjust", c, kw=[("hue", num(d))]), call("adjust-hue", c, num(d)), "adjust_hue_is_adjust_hue")
        p = rng.choice(["0", "10", "50", "100"])
        L(call("adjust", c, kw=[("lightness", num(p, "pct"))]), call("lighten", c, num(p, "pct")), "adjust_lightness_is_lighten")
        L(call("adjust", c, kw=[("lightness", num("-" + p, "pct"))]), call("darken", c, num(p, "pct")), "adjust_lightness_is_darken")
        L(call("adjust", c, kw=[("saturation", num(p, "pct"))]), call("saturate", c, num(p, "pct")), "adjust_saturation_is_saturate")
        a = rng.choice(["0", "0.25", "1"])
        L(call("adjust", c, kw=[("alpha", num(a))]), call("opacify", c, num(a)), "adjust_alpha_is_opacify")
        L(call("change", c, kw=[("alpha", num(a))]), call("rgb", c, num(a), alias="rgba"), "change_alpha_is_rgba")
        L(call("scale", c, kw=[("lightness", num("0", "pct"))]), c, "scale_0")
        L(call("scale", c, kw=[("red", num("0", "pct"))]), c, "scale_0")
        L(call("scale", c, kw=[("lightness", num("100", "pct"))]), call("rgb", name("white"), call("alpha", c), alias="rgba"), "scale_lightness_100_is_white")
        L(call("scale", c, kw=[("alpha", num("-100", "pct"))]), call("rgb", c, num("0"), alias="rgba"), "scale_alpha")
        L(call("change", c, kw=[("lightness", num(p, "pct"))]),
          call("hsl", call("hue", c), call("saturation", c), num(p, "pct"), call("alpha", c), alias="hsla"), "change_lightness")
        # --- change / adjust / scale compose as documented (theorems C15_change_color_sets_exactly,
        #     C15_adjust_color_adds_and_clamps, C15_adjust_color_twice_adds, C15_scale_color_interpolates, …)
        L(call("change", c), c, "change_no_argument")
        L(call("adjust", c), c, "adjust_no_argument")
        L(call("scale", c), c, "scale_no_argument")
        L(call("change", c, kw=[("saturation", num(p, "pct"))]),
          call("hsl", call("hue", c), num(p, "pct"), call("lightness", c), call("alpha", c), alias="hsla"), "change_saturation")
        L(call("change", c, kw=[("hue", num(d))]),
          call("hsl", num(d), call("saturation", c), call("lightness", c), call("alpha", c), alias="hsla"), "change_hue")
        L(call("change", c8, kw=[("whiteness", num(p, "pct"))]),
          call("hwb", call("hue", c8), num(p, "pct"), call("blackness", c8), call("alpha", c8)), "change_whiteness")
        L(call("change", c, kw=[("green", num(v)), ("blue", num(v))]),
          call("rgb", call("red", c), num(v), num(v), call("alpha", c)), "change_green_blue")
        for k in ("red", "green", "blue"):
            L(call("adjust", c, kw=[(k, z)]), c, "adjust_0")
        for k in ("saturation", "lightness"):
            L(call("adjust", c, kw=[(k, num("0", "pct"))]), c, "adjust_0")
        for k in ("whiteness", "blackness"):
            L(call("adjust", c8, kw=[(k, num("0", "pct"))]), c8, "adjust_0_hwb")
            L(call("scale", c8, kw=[(k, num("0", "pct"))]), c8, "scale_0_hwb")
        L(call("scale", c, kw=[("saturation", num("0", "pct"))]), c, "scale_0")
        L(call("scale", c, kw=[("alpha", num("0", "pct"))]), c, "scale_0")
        # two adjusts of one channel add up when the first neither rounds nor clamps
        ch, cur = rng.choice([("red", r), ("green", g), ("blue", b)])
        a1 = rng.randint(-cur, 255 - cur)
        b1 = rng.choice(["-300", "-20.5", "-3", "0", "7", "19.75", "300"])
        L(call("adjust", call("adjust", o, kw=[(ch, num(a1))]), kw=[(ch, num(b1))]),
          call("adjust", o, kw=[(ch, num(str(F(a1) + F(b1))))]), "adjust_twice_adds")
        L(call("adjust", call("adjust", o, kw=[("alpha", num("-0.25"))]), kw=[("alpha", num("-0.5"))]),
          call("adjust", o, kw=[("alpha", num("-0.75"))]), "adjust_twice_adds_alpha")
        # scale moves the channel p% of the way to 255 (p > 0) or to 0 (p < 0)
        sp = rng.choice([10, 25, 50, 100, -10, -25, -50, -100])
        tgt = F(cur) + (F(255 - cur) if sp > 0 else F(cur)) * F(sp, 100)
        chans = {"red": num(r), "green": num(g), "blue": num(b)}
        chans[ch] = num(str(tgt.numerator) if tgt.denominator == 1 else f"{float(tgt):.4f}".rstrip("0"))
        L(call("scale", o, kw=[(ch, num(sp, "pct"))]), call("rgb", chans["red"], chans["green"], chans["blue"]), "scale_interpolates")
        L(call("scale", c, kw=[("alpha", num("100", "pct"))]), call("rgb", c, num("1"), alias="rgba"), "scale_alpha_100")
        # lighten… are adjust-color calls (C15_functions_are_adjust_color), grayscale, weighted invert
        L(call("adjust", c, kw=[("saturation", num("-" + p, "pct"))]), call("desaturate", c, num(p, "pct")), "adjust_saturation_is_desaturate")
        L(call("adjust", c, kw=[("alpha", num("-" + a))]), call("transparentize", c, num(a)), "adjust_alpha_is_transparentize")
        L(call("grayscale", c), call("desaturate", c, num("100", "pct")), "grayscale_is_desaturate_100")
        gry = call("grayscale", c)
        L(gry, call("rgb", call("red", gry), call("red", gry), call("red", gry), call("alpha", gry), alias="rgba"), "grayscale_is_grey")
        wv = rng.choice(["10", "25", "50", "75", "100"])
        L(call("invert", c, num(wv, "pct")), call("mix", call("invert", c), c, num(wv, "pct")), "invert_weight_is_mix")
        # Round 3 (seeded C15-r3m2): $alpha composes with every colour-space group in ONE call exactly as in two
        # calls — f(c, X…, $alpha: a) == f(f(c, X…), $alpha: a) for change/adjust/scale and X in rgb / hsl / hwb
        for fn, av, grp in (("change", rng.choice(["0", "0.25", "0.5", "1"]), "set"),
                            ("adjust", rng.choice(["-0.3", "-0.1", "0.2", "0.6"]), "add"),
                            ("scale", rng.choice(["-50", "-10", "10", "50"]), "pct")):
            aarg = ("alpha", num(av, "pct") if grp == "pct" else num(av))
            pv = rng.choice(["10", "20", "50"])
            pa = num(pv, "pct") if fn != "adjust" else num(rng.choice(["-", ""]) + pv, "pct")
            groups = {
                "rgb": [(rng.choice(["red", "green", "blue"]), num(rng.choice(["10", "40", "90"]), "pct") if fn == "scale" else num(rng.choice(["0", "17", "128"])))],
                "hsl": [(rng.choice(["saturation", "lightness"]), pa)],
                "hwb": [(rng.choice(["whiteness", "blackness"]), pa)],
            }
            for gname, xs in groups.items():
                base = c8 if gname == "hwb" else c
                L(call(fn, base, kw=xs + [aarg]), call(fn, call(fn, base, kw=xs), kw=[aarg]), f"{fn}_alpha_with_{gname}_composes")
                L(call("alpha", call(fn, base, kw=[aarg] + xs)), call("alpha", call(fn, base, kw=[aarg])), f"{fn}_alpha_independent_of_{gname}")
    return out


# ------------------------------------------------------------------------------------------------
# running
# ------------------------------------------------------------------------------------------------

def driver_par(lines, n=12):
    if len(lines) < 2000:
        return driver(lines)
    size = (len(lines) + n - 1) // n
    chunks = [lines[i:i + size] for i in range(0, len(lines), size)]
    res = [None] * len(chunks)
    errs = []

    def work(i):
        try:
            res[i] = driver(chunks[i])
        except Exception as e:  # noqa: BLE001 — reported below
            errs.append(e)
    ts = [threading.Thread(target=work, args=(i,)) for i in range(len(chunks))]
    for t in ts:
        t.start()
    for t in ts:
        t.join()
    if errs:
        raise errs[0]
    return [x for c in res for x in c]


_comp = re.compile(r"v(\d+):([^;}]*)")
_exp = re.compile(r"^\s*v(\d+): (.*);$", re.M)


def stylesheet(items):
    return HEADER + "a {\n" + "\n".join(f"  v{i}: {src};" for i, src in items) + "\n}\n"


def err_class(ans):
    if ans.get("status") != "err":
        return "status:" + str(ans.get("status"))
    msg = (ans.get("err") or {}).get("message", "")
    if "to be within" in msg or "to have unit" in msg or "to have no units" in msg:
        return "err bounds"
    if "may not be passed along with" in msg:
        return "err mixed"
    if "elements allowed, but" in msg or msg.startswith("Missing element $"):
        return "err channels"
    return "err other: " + msg[:80]


_numre = re.compile(r"^(-?)(\d*)(?:\.(\d+))?(%|deg)?$")


def parse_number(t):
    m = _numre.match(t)
    if not m or (m.group(2) == "" and m.group(3) is None):
        return None
    q = F(int(m.group(2) or "0")) + (F(int(m.group(3)), 10 ** len(m.group(3))) if m.group(3) else 0)
    return (-q if m.group(1) else q), {"%": "pct", "deg": "deg", None: ""}[m.group(4)]


def parse_printed_color(t):
    """Printed colour (either style) -> (r, g, b, a) as Fractions, using the *reference* name table."""
    t = t.strip()
    if t.lower() in REF:
        r, g, b, a = REF[t.lower()]
        return F(r), F(g), F(b), F(a, 255)
    m = re.fullmatch(r"#([0-9a-fA-F]+)", t)
    if m:
        h = m.group(1)
        if len(h) in (3, 4):
            h = "".join(ch * 2 for ch in h)
        if len(h) == 6:
            h += "ff"
        if len(h) != 8:
            return None
        return tuple(F(int(h[i:i + 2], 16)) for i in (0, 2, 4)) + (F(int(h[6:8], 16), 255),)
    m = re.fullmatch(r"rgba?\((.*)\)", t)
    if m:
        parts = [parse_number(p.strip()) for p in m.group(1).split(",")]
        if any(p is None or p[1] != "" for p in parts) or len(parts) not in (3, 4):
            return None
        vals = [p[0] for p in parts]
        return tuple(vals[:3]) + ((vals[3],) if len(vals) == 4 else (F(1),))
    return None


def run_impl(pool, slots, model):
    """slots: list of sass source texts; model: the model's answers (to predict errors).
    Returns per slot: ("val", compressed_text, expanded_text) | ("err", class) | ("missing", why)."""
    res = [None] * len(slots)
    batched = [i for i, m in enumerate(model) if m.startswith("ok ")]
    single = [i for i, m in enumerate(model) if m.startswith("err ")]
    B = 400
    jobs, meta = [], []
    for off in range(0, len(batched), B):
        idx = batched[off:off + B]
        src = stylesheet([(i, slots[i]) for i in idx])
        for style in ("compressed", "expanded"):
            jobs.append(compile_job(src, style=style if style == "compressed" else None, syntax="scss"))
            meta.append((idx, style))
    answers = pool.map(jobs, timeout=60)
    got = {}
    retry = set()
    for (idx, style), ans in zip(meta, answers):
        if ans.get("status") != "ok":
            retry.update(idx)
            continue
        found = dict((int(a), b) for a, b in (_comp if style == "compressed" else _exp).findall(ans["css"]))
        for i in idx:
            got[(i, style)] = found.get(i)
    single = sorted(set(single) | retry)
    jobs = []
    for i in single:
        src = stylesheet([(i, slots[i])])
        jobs.append(compile_job(src, style="compressed", syntax="scss"))
        jobs.append(compile_job(src, syntax="scss"))
    answers = pool.map(jobs, timeout=20)
    for k, i in enumerate(single):
        ac, ae = answers[2 * k], answers[2 * k + 1]
        if ac.get("status") == "ok" and ae.get("status") == "ok":
            fc = dict((int(a), b) for a, b in _comp.findall(ac["css"]))
            fe = dict((int(a), b) for a, b in _exp.findall(ae["css"]))
            got[(i, "compressed")], got[(i, "expanded")] = fc.get(i), fe.get(i)
        else:
            res[i] = ("err", err_class(ac) if ac.get("status") != "ok" else err_class(ae),
                      (ac.get("err") or ae.get("err") or {}).get("message") or ac.get("panic") or ae.get("panic"))
    for i in range(len(slots)):
        if res[i] is None:
            if (i, "compressed") in got:
                c, e = got[(i, "compressed")], got.get((i, "expanded"))
                res[i] = ("val", c, e) if c is not None and e is not None else ("missing", "declaration not found in output")
            else:
                res[i] = ("skipped",)
    return res


NUM_TOL = F(1, 10 ** 10)


def printed_shape(t):
    """A printed colour as (form, [numbers]) so that two spellings can be compared number by number."""
    m = re.fullmatch(r"(rgba?|hsla?)\((.*)\)", t)
    if not m:
        return None
    nums = [parse_number(x.strip()) for x in m.group(2).split(",")]
    if any(n is None for n in nums):
        return None
    return m.group(1), nums


def close_print(a, b):
    """Same functional form, same units, every number within 1e-10 (last printed digit)."""
    sa, sb = printed_shape(a), printed_shape(b)
    if sa is None or sb is None or sa[0] != sb[0] or len(sa[1]) != len(sb[1]):
        return False
    return all(x[1] == y[1] and abs(x[0] - y[0]) <= NUM_TOL for x, y in zip(sa[1], sb[1]))


def compare_slot(m, ob, notes=None):
    """Tie: model answer line vs implementation observation.  Returns None if they agree, else a reason.
    `notes` collects the names of the documented tolerances that were needed."""
    notes = notes if notes is not None else []
    risky = m.endswith(" risky")
    if risky:
        m = m[:-6]
    if m.startswith("err "):
        if ob[0] == "err" and ob[1] == m:
            return None
        return f"model {m!r} vs impl {ob[:2]!r}"
    if ob[0] != "val":
        return f"model {m!r} vs impl {ob!r}"
    _, comp, exp = ob
    p = m.split(" ")
    if p[1] == "color":
        mc, me = unhex(p[7]), unhex(p[9])
        if comp == mc and exp == me:
            return None
        if (comp == mc or close_print(comp, mc)) and (exp == me or close_print(exp, me)):
            notes.append("last printed digit of a number inside rgba()/hsl() (decimal tie: exact value vs f64)")
            return None
        if risky:
            # the exact value of some channel is within 1e-8 of a rounding threshold: grass (f64) and the
            # model (exact) may round it differently; compare the channels with a tolerance of one unit
            a, b = parse_printed_color(comp), parse_printed_color(mc)
            if a and b and all(abs(x - y) <= 1 for x, y in zip(a[:3], b[:3])) and abs(a[3] - b[3]) <= NUM_TOL:
                notes.append("channel at a rounding threshold (exact X.5): compared within one unit")
                return None
        return f"printed colour differs: model {mc!r} / {me!r} vs impl {comp!r} / {exp!r}"
    if p[1] == "num":
        q = F(p[2])
        unit = "" if p[3] == "-" else p[3]
        for t in (comp, exp):
            pn = parse_number(t)
            if pn is None or pn[1] != unit:
                return f"number differs: model {float(q)!r}{unit} ({p[2]}) vs impl {t!r}"
            if abs(pn[0] - q) > NUM_TOL:
                if risky:
                    notes.append("accessor of a colour at a rounding threshold: not compared")
                    return None
                return f"number differs: model {float(q)!r}{unit} ({p[2]}) vs impl {t!r}"
        return None
    if p[1] == "bool":
        want = "true" if p[2] == "1" else "false"
        if comp == want and exp == want:
            return None
        if risky and comp == exp:
            notes.append("comparison involving a colour at a rounding threshold: not compared")
            return None
        return f"bool differs: model {want} vs impl {comp!r}"
    if p[1] == "str":
        want = unhex(p[2])
        if comp == want and exp == want:
            return None
        if risky and comp == exp:
            notes.append("string of a colour at a rounding threshold: not compared")
            return None
        return f"string differs: model {want!r} vs impl {comp!r}"
    return f"unreadable model answer {m!r}"


def evaluate(ck, cases, pool, direct_only=False):
    """Runs model and implementation on all slots of `cases`.  Returns the list of direct failures."""
    slots, owner = [], []
    for ci, c in enumerate(cases):
        for k, e in enumerate(c.exprs):
            slots.append(e)
            owner.append((ci, k))
    t0 = time.time()
    model = driver_par(["color eval " + " ".join(to_tokens(e)) for e in slots])
    t1 = time.time()
    impl = run_impl(pool, [to_sass(e) for e in slots], model)
    log(f"[C15] {len(cases)} cases / {len(slots)} expressions: model {t1 - t0:.1f}s, grass {time.time() - t1:.1f}s")
    # (c) range predicate, evaluated by the Lean driver on what grass printed
    range_req, range_idx = [], []
    for i, ob in enumerate(impl):
        if ob[0] == "val" and model[i].startswith("ok color"):
            pc = parse_printed_color(ob[1])
            if pc is None:
                range_req.append("ping")
            else:
                range_req.append("color inrange " + " ".join(f"{x.numerator}/{x.denominator}" for x in pc))
            range_idx.append(i)
    range_ans = dict(zip(range_idx, driver_par(range_req))) if range_req else {}
    # (c) `sameColor` (Lean: grass's `==` as modelled + identical compressed print) on the two colours grass printed
    first_slot = {}
    for i, (ci, k) in enumerate(owner):
        first_slot.setdefault(ci, i)
    same_req, same_idx = [], []
    for ci, c in enumerate(cases):
        if not c.law:
            continue
        b = first_slot[ci]
        if impl[b][0] == "val" and impl[b + 1][0] == "val":
            p1, p2 = parse_printed_color(impl[b][1]), parse_printed_color(impl[b + 1][1])
            if p1 and p2:
                same_req.append("color same " + " ".join(f"{x.numerator}/{x.denominator}" for x in p1 + p2))
                same_idx.append(ci)
    same_ans = dict(zip(same_idx, driver_par(same_req))) if same_req else {}
    extras = [(ci, src, want) for ci, c in enumerate(cases) for src, want in c.extra]
    extra_res = {}
    if extras:
        got = run_impl(pool, [e[1] for e in extras], ["ok direct"] * len(extras))
        for (ci, src, want), ob in zip(extras, got):
            extra_res.setdefault(ci, []).append((src, want, ob))
    failing = []
    acc_req = []
    first = {}
    for i, (ci, k) in enumerate(owner):
        first.setdefault(ci, i)
    for ci, c in enumerate(cases):
        base = first[ci]
        obs = [impl[base + k] for k in range(len(c.exprs))]
        mods = [model[base + k] for k in range(len(c.exprs))]
        if any(m == "unsupported" or m == "bad-op" for m in mods):
            ck.cov["unsupported_dropped"] += 1
            ck.hist("unsupported:" + c.group)
            continue
        nontrivial = bool(c.law) or any(has_call(e) for e in c.exprs) or len(c.exprs) > 1
        ck.count(("c15", c.text()), nontrivial)
        ck.hist("group:" + c.group)
        if c.law:
            ck.hist("law:" + c.law)
        feats = set()
        for e in c.exprs:
            if e[0] == "call":
                ck.hist("fn:" + e[1])
            features(e, feats)
        for ft in feats:
            ck.hist(ft)
        for m in mods:
            ck.hist("model:" + " ".join(m.split(" ")[:2]))
        if ci % 1499 == 0:
            ck.sample({"source": c.text(), "model": mods[0][:100], "impl": [str(x)[:60] for x in obs[0][:3]]})
        # (b) tie
        if not direct_only:
            for k, (m, ob) in enumerate(zip(mods, obs)):
                notes = []
                why = compare_slot(m, ob, notes)
                for n in notes:
                    ck.hist("tolerance:" + n)
                if m.endswith(" risky"):
                    ck.hist("model:risky (some exact channel within 1e-8 of X.5)")
                if why:
                    ck.cov["model_disagreements"] += 1
                    if len(ck.disagreements) < 12:
                        ck.disagreements.append({"source": to_sass(c.exprs[k]), "model": m[:200], "impl": [str(x)[:120] for x in ob], "why": why})
        # (c) direct oracle on grass's own answers
        problems = []
        for k, (m, ob) in enumerate(zip(mods, obs)):
            i = base + k
            if ob[0] == "err" and ob[1].startswith("status:"):
                problems.append(f"{to_sass(c.exprs[k])}: {ob[1]} {ob[2]}")
            if i in range_ans and range_ans[i] != "ok 1":
                problems.append(f"{to_sass(c.exprs[k])} printed {ob[1]!r}: not a colour with integer channels in [0,255] and alpha in [0,1] ({range_ans[i]})")
        if c.law and c.skip_if_risky and any(m.endswith(" risky") for m in mods):
            ck.hist("law-not-judged (f64-sensitive rounding):" + c.law)
        elif c.law and obs[0][0] == "val" and obs[1][0] == "val" and obs[2][0] == "val":
            if obs[2][1] != "true":
                problems.append(f"grass says {c.text()} is {obs[2][1]} (lhs prints {obs[0][1]}, rhs prints {obs[1][1]})")
            elif obs[0][1] != obs[1][1]:
                problems.append(f"equal colours print differently in compressed mode: {obs[0][1]} vs {obs[1][1]}")
            elif same_ans.get(ci) != "ok 1":
                problems.append(f"Lean sameColor on grass's printed colours {obs[0][1]} / {obs[1][1]}: {same_ans.get(ci)}")
        elif c.law and not any(m.startswith("err") for m in mods):
            problems.append(f"law {c.law} could not be evaluated on grass: {[str(o)[:80] for o in obs]}")
        if c.accessor_range and all(o[0] == "val" for o in obs):
            nums = [parse_number(o[1]) for o in obs]
            if any(n is None or n[1] != "" for n in nums):
                problems.append(f"accessors of {to_sass(c.exprs[0][2][0])} print {[o[1] for o in obs]}: not plain numbers")
            else:
                acc_req.append((ci, "color inrange " + " ".join(f"{n[0].numerator}/{n[0].denominator}" for n in nums)))
        for src, want, ob in extra_res.get(ci, []):
            ck.cov["evaluations"] += 1
            ck.hist("direct:index/map-get")
            if ob[0] != "val" or ob[1] != want or ob[2] != want:
                problems.append(f"grass evaluates {src} to {ob[1:3] if ob[0] == 'val' else ob} (expected {want}: the two colours are the same colour)")
        if c.expect:
            n, (r, g, b, a) = c.expect
            for ob in obs:
                pc = parse_printed_color(ob[1]) if ob[0] == "val" else None
                if pc != (F(r), F(g), F(b), F(a, 255)):
                    problems.append(f"named colour {n} prints {ob[1:2]}, CSS reference says {(r, g, b, a)}")
        if problems:
            failing.append({"source": c.text(), "law": c.law, "group": c.group, "problems": problems[:4],
                            "impl_observation": [str(o)[:100] for o in obs], "tags": []})
    if acc_req:
        for (ci, req), ans in zip(acc_req, driver_par([r for _, r in acc_req])):
            ck.hist("direct:accessor-range")
            if ans != "ok 1":
                c = cases[ci]
                failing.append({"source": c.text(), "law": "accessor_range", "group": c.group, "tags": [],
                                "problems": [f"red/green/blue/alpha accessors of {to_sass(c.exprs[0][2][0])} are "
                                             f"{req.split(' ', 2)[2]}: not integer channels in [0,255] with alpha in [0,1] ({ans})"],
                                "impl_observation": []})
    return failing


def cube_program(r0, r1, step=1):
    return HEADER + f"""a {{ @for $r from {r0} through {r1} {{ @for $g from 0 through 255 {{ @for $b from 0 through 255 {{
 $c: rgb($r, $g, $b);
 @if hsl(hue($c), saturation($c), lightness($c)) != $c {{ f: $r $g $b hsl; }}
 @if lighten($c, 0%) != $c {{ f: $r $g $b lighten0; }}
 @if color.hwb(hue($c), color.whiteness($c), color.blackness($c)) != $c {{ f: $r $g $b hwb; }}
 @if invert(invert($c)) != $c {{ f: $r $g $b invert; }}
 @if complement(complement($c)) != $c {{ f: $r $g $b complement; }}
 @if mix($c, invert($c), 100%) != $c {{ f: $r $g $b mix100; }}
 @if red($c) != $r or green($c) != $g or blue($c) != $b {{ f: $r $g $b channels; }}
}} }} }} done: {r0} {r1}; }}
"""


def run_cube(ck, pool, planes, per_job):
    """Direct oracle over whole red-planes of the RGB cube: grass evaluates the laws itself and prints
    only failures."""
    jobs, meta = [], []
    planes = sorted(planes)
    runs = []
    for r in planes:
        if runs and runs[-1][1] == r - 1 and runs[-1][1] - runs[-1][0] + 1 < per_job:
            runs[-1][1] = r
        else:
            runs.append([r, r])
    for r0, r1 in runs:
        jobs.append(compile_job(cube_program(r0, r1), style="compressed", syntax="scss"))
        meta.append((r0, r1))
    answers = pool.map(jobs, timeout=120 * per_job)
    failing = []
    for (r0, r1), ans in zip(meta, answers):
        n = (r1 - r0 + 1) * 65536
        if ans.get("status") != "ok" or f"done:{r0} {r1}" not in ans.get("css", ""):
            failing.append({"source": f"cube planes r={r0}..{r1}", "law": "cube", "group": "cube",
                            "problems": [f"cube program did not complete: {ans.get('status')} {ans.get('err') or ans.get('panic')}"],
                            "tags": []})
            continue
        ck.cov["evaluations"] += n * 7
        ck.hist("cube:colours", n)
        for m in re.finditer(r"f:(\d+) (\d+) (\d+) (\w+)", ans["css"]):
            r, g, b, law = int(m.group(1)), int(m.group(2)), int(m.group(3)), m.group(4)
            failing.append({"source": f"#{hex6(r, g, b)} {law}", "law": "cube_" + law, "group": "cube",
                            "problems": [f"law {law} fails on #{hex6(r, g, b)} (evaluated by grass itself)"], "tags": []})
    ck._distinct.add(f"cube:{runs}")
    return failing


def translator_step(ck):
    ok, info = translate_colors.regenerate()
    sync, n = translate_colors.reference_in_sync()
    ck.cov["translator_ok"] = bool(ok and sync)
    ck.cov["translator"] = {"named_colors": {k: v for k, v in info.items() if k in ("names", "reverse", "changed", "error")},
                            "reference_in_sync_with_json": sync, "reference_names": n}
    return ok and sync, info


def run(tier, seed):
    ck = Check("C15", tier, seed)
    ck.disagreements = []
    ck.cov["rule"] = (
        "every CSS named colour (reference table) in 3 spellings and 5-6 laws each; all 4096 short-hex colours x {#rgb==#rrggbb, "
        "rgb->hsl->rgb and rgb->hwb->rgb through grass's accessors} (+ 4/8-digit forms); random colours drawn from a 9-point "
        "lattice per channel and uniformly, written as hex/name/rgb()/rgba()/hsl()/hwb(), through every colour function with "
        "arguments in, on and slightly outside their legal ranges; ~35 laws of the property per random colour; constructor calls "
        "with non-integer channel results (percent / decimal rgb(), random hsl()/hwb()) compared by grass's `==` in both "
        "operand orders, index() and map-get() against hex / name / integer-rgb() / accessor re-spellings; whole red-planes "
        "of the 2^24 cube evaluated by grass itself (thorough: all 256). A case is distinct by its Sass text and non-trivial "
        "when it applies a function/conversion or compares two spellings.")
    ck.assumptions = [
        "model arithmetic is exact (Rat) where grass uses f64; printed numbers are compared as exact rationals within 1e-10",
        "where the exact value of a channel lies within 1e-8 of a rounding threshold (X.5) the driver marks the case `risky` "
        "and model and grass are compared channel by channel within one unit instead of byte for byte (f64 error of "
        "as_hsla's `+360, *60` reaches ~1e-11, the width of fuzzy_round's tolerance)",
        "printed colours are read back with the committed CSS reference table, not with grass's table",
    ]
    ok_tr, info = translator_step(ck)
    ck.do_prove(cores=("color",))
    log(f"[C15] proof step {ck.proof.get('wall_s', 0):.1f}s ok={ck.proof['ok']}")
    if not ok_tr:
        ck.unproved("correspondence-broken", {"why": "translator failed or reference table out of sync", "detail": ck.cov["translator"]})
        return ck.finish()
    if not ck.do_build_runner():
        ck.unproved("correspondence-broken", {"why": "runner does not build against /repo", "error": getattr(ck, "build_error", "")})
        return ck.finish()
    pool = RunnerPool()
    rng = ck.rng
    quick = tier == "quick"
    cases = corpus_cases() + named_cases(rng) + short_hex_cases(rng, tier)
    cases += function_cases(rng, 120 if quick else 2500)
    cases += law_cases(rng, 150 if quick else 3000)
    cases += spelling_cases(rng, 250 if quick else 4000)
    cases += syntax_cases(rng, 60 if quick else 1200)
    enlarge = quick and bool(getattr(ck, "changed", None))
    if enlarge:
        # the modelled Rust files differ from the snapshot the model was validated against: search wider
        log(f"[C15] modelled sources changed ({ck.changed}): enlarging the search")
        cases += law_cases(rng, 450) + function_cases(rng, 250) + spelling_cases(rng, 800)
    failing = evaluate(ck, cases, pool)
    planes = rng.sample(range(256), 40 if enlarge else 6) + [0, 255] if quick else range(256)
    failing += run_cube(ck, pool, set(planes), 1 if quick else 4)
    if (not ck.proof["ok"] or ck.cov["model_disagreements"]) and not failing and quick:
        log("[C15] proof or correspondence broken: enlarging the search")
        extra = law_cases(rng, 1500) + function_cases(rng, 600) + spelling_cases(rng, 1500)
        failing += evaluate(ck, extra, pool, direct_only=True)
        failing += run_cube(ck, pool, set(rng.sample(range(256), 48)), 4)
    failing.sort(key=lambda f: len(f["source"]))
    reported = 0
    for f in failing:
        if ck.impl_violation(f["source"], f, tags=f["tags"]):
            reported += 1
    if ck.cov["model_disagreements"] and not reported:
        ck.unproved("correspondence-broken", {"correspondence": "Grass.Color (drv_color eval) vs grass, both output styles",
                                              "cases": ck.disagreements})
    ck.cov["disagreement_samples"] = ck.disagreements[:5]
    return ck.finish()


def replay(path):
    r = json.load(open(path))
    ck = Check("C15", "quick", 0)
    ck.disagreements = []
    ck.do_build_runner()
    pool = RunnerPool(2)
    srcs = [r["source"]] if r.get("source") else [c["source"] for c in r.get("cases", [])]
    for src in srcs:
        if src.startswith("cube") or re.match(r"#[0-9a-f]{6} \w+$", src):
            print("recorded:", json.dumps(r, indent=1)[:2000])
            continue
        body = "; ".join(f"v{i}: {s}" for i, s in enumerate(src.split("; ")))
        for style in ("compressed", None):
            ans = pool.map([compile_job(HEADER + "a { " + body + " }", style=style, syntax="scss")])[0]
            print(f"source: {src}\n  grass[{style or 'expanded'}]:", ans.get("status"), (ans.get("css") or ans.get("err") or "").__repr__()[:400])
    print("recorded problems:", r.get("problems"), r.get("why"))
    return 0
