"""C04 — nesting, `&`, @at-root and bubbling at-rules flatten to equivalent flat CSS.

Tree form (what is generated, shrunk, sent to the Lean driver and printed as SCSS):
  ["D", name, value|None, [decl…]]        declaration / nested property
  ["R", sel, [stmt…]]                      style rule; sel = [complex…], complex = [comp…],
                                           comp = ">" | "+" | "~" | ["c", par, [simple…]]
                                           par = None (no `&`) | "" (`&`) | "-s" (`&-s`)
  ["M", [[n…]…], [stmt…]]                  @media (f0) and (f1), (f2) {…}
  ["S", cond, [stmt…]]                     @supports cond {…}
  ["U", name, params, [stmt…]]             @name params {…}
  ["A", None | [incl, [name…]], [stmt…]]   @at-root (with|without: …) {…}

Observation = ordered list of blocks (at-rule context, selector, [declarations]) read from
grass's CSS by tools/cssread.py (`parse` + `flat_rules`), blocks without declarations dropped.
Adjacent blocks with equal context and selector are NOT merged before comparison: grass emits one
block per source construct and so do both models.
"""
import json

import cssread
from vlib import Check, RunnerPool, compile_job, driver, hexs, unhex, log

# ---------------------------------------------------------------------------------------------
# printing and encoding
# ---------------------------------------------------------------------------------------------


def comp_text(c):
    if isinstance(c, str):
        return c
    _, par, simples = c
    return ("" if par is None else "&" + par) + "".join(simples)


def sel_text(sel):
    return ", ".join(" ".join(comp_text(c) for c in cx) for cx in sel)


def comp_enc(c):
    if isinstance(c, str):
        return c
    _, par, simples = c
    return ":".join([("_" if par is None else "&" + par)] + list(simples))


def sel_enc(sel):
    return ",".join("/".join(comp_enc(c) for c in cx) for cx in sel)


def q_text(qs):
    return ", ".join(" and ".join(f"(f{n})" for n in q) for q in qs)


def query_text(q):
    if q is None:
        return ""
    incl, names = q
    return f" ({'with' if incl else 'without'}: {' '.join(names)})"


def scss(node, shorthand=True):
    t = node[0]
    if t == "D":
        _, name, value, body = node
        s = f"{name}:"
        if value is not None:
            s += f" {value}"
        if body:
            s += " { " + " ".join(scss(d) for d in body) + " }"
        else:
            s += ";"
        return s
    if t == "R":
        return f"{sel_text(node[1])} {{ {body_text(node[2])} }}"
    if t == "M":
        return f"@media {q_text(node[1])} {{ {body_text(node[2])} }}"
    if t == "S":
        return f"@supports {node[1]} {{ {body_text(node[2])} }}"
    if t == "U":
        return f"@{node[1]}{(' ' + node[2]) if node[2] else ''} {{ {body_text(node[3])} }}"
    if t == "A":
        body = node[2]
        if shorthand and node[1] is None and len(body) == 1 and body[0][0] == "R" and node_hash(node) % 2 == 0:
            return "@at-root " + scss(body[0])          # `@at-root sel {…}` shorthand
        return f"@at-root{query_text(node[1])} {{ {body_text(body)} }}"
    raise ValueError(t)


def body_text(body):
    return " ".join(scss(s) for s in body)


def node_hash(node):
    return int.from_bytes(json.dumps(node, sort_keys=True).encode()[-3:], "big") + len(json.dumps(node))


def enc(node):
    t = node[0]
    if t == "D":
        return enc_decl(node, top=True)
    if t == "R":
        return ["R", sel_enc(node[1]), str(len(node[2]))] + [x for s in node[2] for x in enc(s)]
    if t == "M":
        return ["M", ",".join(".".join(map(str, q)) for q in node[1]), str(len(node[2]))] + [x for s in node[2] for x in enc(s)]
    if t == "S":
        return ["S", hexs(node[1]), str(len(node[2]))] + [x for s in node[2] for x in enc(s)]
    if t == "U":
        return ["U", node[1], hexs(node[2]), str(len(node[3]))] + [x for s in node[3] for x in enc(s)]
    if t == "A":
        q = "_" if node[1] is None else ("w:" if node[1][0] else "o:") + ".".join(node[1][1])
        return ["A", q, str(len(node[2]))] + [x for s in node[2] for x in enc(s)]
    raise ValueError(t)


def enc_decl(node, top=False):
    _, name, value, body = node
    r = (["D"] if top else []) + [name, "_" if value is None else value, str(len(body))]
    for d in body:
        r += enc_decl(d)
    return r


def enc_tree(tree):
    return " ".join([str(len(tree))] + [x for s in tree for x in enc(s)])


def enc_obs(obs):
    if obs == "E":
        return "E"
    toks = ["B", str(len(obs))]
    for ctx, sel, decls in obs:
        toks += [str(len(ctx))] + [hexs(c) for c in ctx] + ["_" if sel is None else hexs(sel), str(len(decls))]
        for n, v in decls:
            toks += [hexs(n), hexs(v)]
    return " ".join(toks)


def dec_res(s):
    """`E class` | `B n blocks` → "E:class" | [(ctx tuple, sel, [(n, v)…])…]"""
    toks = s.split()
    if toks[0] == "E":
        return "E:" + toks[1]
    assert toks[0] == "B", s
    n, i, out = int(toks[1]), 2, []
    for _ in range(n):
        k = int(toks[i]); i += 1
        ctx = tuple(unhex(x) for x in toks[i:i + k]); i += k
        sel = None if toks[i] == "_" else unhex(toks[i]); i += 1
        nd = int(toks[i]); i += 1
        decls = [(unhex(toks[i + 2 * j]), unhex(toks[i + 2 * j + 1])) for j in range(nd)]
        i += 2 * nd
        out.append((ctx, sel, decls))
    return out


def is_err(r):
    return isinstance(r, str)


# ---------------------------------------------------------------------------------------------
# generator
# ---------------------------------------------------------------------------------------------

TYPES = ["a", "b", "c"]
CLASSES = [".x", ".y"]
IDS = ["#i"]
COMBS = [">", "+", "~"]
UNKNOWN = [("foo", ""), ("foo", "p"), ("bar", "q r"), ("Foo", "")]
SUPPORTS = ["(s0: v)", "(s1: v)", "not (s0: v)"]
QUERIES = [None, None, None, (False, ["media"]), (False, ["supports"]), (False, ["rule"]), (False, ["all"]),
           (True, ["rule"]), (True, ["media"]), (True, ["supports"]), (True, ["all"]), (False, ["foo"]),
           (True, ["foo"]), (False, ["media", "supports"]), (True, ["media", "rule"]), (False, ["bar", "rule"]),
           (True, ["foo", "rule"]), (False, ["MEDIA"])]


class Gen:
    def __init__(self, rng, max_depth=4, max_width=3, p_invalid=0.02):
        self.rng, self.max_depth, self.max_width, self.p_invalid = rng, max_depth, max_width, p_invalid
        self.n = 0

    def fresh(self):
        self.n += 1
        return self.n

    def compound(self, par=None):
        r = self.rng
        k = r.random()
        if k < 0.55:
            simples = [r.choice(TYPES)]
        elif k < 0.8:
            simples = [r.choice(CLASSES)]
        elif k < 0.9:
            simples = [r.choice(TYPES), r.choice(CLASSES)]
        else:
            simples = [r.choice(IDS)]
        if par is not None:
            if r.random() < 0.5:
                simples = []
            elif r.random() < 0.5:
                simples = [s for s in simples if not s[0].isalpha()] or [r.choice(CLASSES)]   # `&.x`, never `&a`
            else:
                simples = []
                par = r.choice(["-s", "-t", "_u"])
            if simples and simples[0][0].isalpha():
                simples = [r.choice(CLASSES)]
        return ["c", par, simples]

    def complex(self, amp_ok):
        r = self.rng
        n = r.choice([1, 1, 1, 2, 2, 3])
        comps = []
        amp = amp_ok and r.random() < 0.45
        amp_positions = set()
        if amp:
            amp_positions.add(r.randrange(n))
            if r.random() < 0.25:
                amp_positions.add(r.randrange(n))
        if not amp and r.random() < 0.12:
            comps.append(r.choice(COMBS))                    # leading combinator: `> b`
        for i in range(n):
            if i > 0 and r.random() < 0.35:
                comps.append(r.choice(COMBS))
            comps.append(self.compound("" if i in amp_positions else None))
        return comps

    def selector(self, amp_ok):
        n = self.rng.choice([1, 1, 1, 2, 2, 3])
        return [self.complex(amp_ok) for _ in range(n)]

    def decl(self, depth=0):
        r = self.rng
        name = f"p{r.randrange(4)}"
        if depth < 2 and r.random() < 0.25:
            body = [self.decl(depth + 1) for _ in range(r.choice([1, 1, 2, 3]))]
            value = f"v{self.fresh()}" if r.random() < 0.4 else None
            return ["D", name, value, body]
        return ["D", name, f"v{self.fresh()}", []]

    def body(self, depth, st):
        """st = (decl allowed, `&` allowed)"""
        r = self.rng
        n = r.choice([0, 1, 1, 2, 2, 3]) if depth > 0 else r.choice([1, 2, 2, 3])
        n = min(n, self.max_width)
        return [self.stmt(depth, st) for _ in range(n)]

    def stmt(self, depth, st):
        r = self.rng
        decl_ok, amp_ok = st
        leaf = depth >= self.max_depth
        k = r.random()
        if (decl_ok or r.random() < self.p_invalid) and (k < 0.3 or leaf):
            return self.decl()
        if leaf:
            return ["R", self.selector(amp_ok or r.random() < self.p_invalid), []]
        if k >= 0.3 and r.random() < 0.04:
            return self.vanishing(depth, st)
        if k >= 0.3 and r.random() < 0.015:
            # @at-root directly inside @at-root (the inner one sees the outer one's copies as ancestors)
            q1, q2 = r.choice(QUERIES), r.choice(QUERIES)
            return ["A", q1, [["A", q2, [["R", self.selector(amp_ok), self.body(depth + 1, (True, True))]]]]
                             + ([["R", self.selector(amp_ok), [self.decl()]]] if r.random() < 0.5 else [])]
        if k < 0.62:
            return ["R", self.selector(amp_ok or r.random() < self.p_invalid), self.body(depth + 1, (True, True))]
        if k < 0.74:
            qs = [[r.randrange(4) for _ in range(r.choice([1, 1, 2]))] for _ in range(r.choice([1, 1, 1, 2]))]
            return ["M", qs, self.body(depth + 1, st)]
        if k < 0.82:
            return ["S", r.choice(SUPPORTS), self.body(depth + 1, st)]
        if k < 0.9:
            n, p = r.choice(UNKNOWN)
            return ["U", n, p, self.body(depth + 1, (True, amp_ok))]
        q = r.choice(QUERIES)
        excl_rule = (q is None) or ((("rule" in q[1]) or ("all" in q[1])) != q[0])
        return ["A", q, self.body(depth + 1, (decl_ok and not excl_rule, amp_ok))]

    def vanishing(self, depth, st):
        """A construct without any declaration below it: a rule / @media / @supports that contains only
        empty rules (to depth 2) — nothing of it may be written."""
        r = self.rng
        _, amp_ok = st
        inner = [["R", self.selector(True), []] for _ in range(r.choice([1, 2]))]
        if r.random() < 0.4:
            inner = [["R", self.selector(True), inner]]
        if r.random() < 0.3:
            inner.append(["S", r.choice(SUPPORTS), [["R", self.selector(True), []]]])
        k = r.random()
        if k < 0.6:
            return ["R", self.selector(amp_ok), inner]
        outer = ["R", self.selector(amp_ok), inner]
        if k < 0.8:
            return ["M", [[r.randrange(4)]], [outer]]
        return ["S", r.choice(SUPPORTS), [outer]]

    def tree(self):
        return self.body(0, (False, False))


def enumerate_small():
    """Every tree  outer{ mid{ x:1; inner{ y:2 } z:3 } w:4 }  over the construct alphabet
    (depth 3, width ≤ 3), plus every pair of constructs as siblings inside a rule inside @media."""
    def d(i):
        return ["D", f"p{i}", f"v{i}", []]
    alphabet = [
        lambda b: ["R", [[["c", None, ["a"]]]], b],
        lambda b: ["R", [[["c", "", []], "+", ["c", "", []]], [["c", None, ["b"]]]], b],
        lambda b: ["R", [[["c", "-s", []]], [["c", None, ["c"]], ["c", "", [".x"]]]], b],
        lambda b: ["M", [[0]], b],
        lambda b: ["M", [[1], [2]], b],
        lambda b: ["S", "(s0: v)", b],
        lambda b: ["U", "foo", "p", b],
        lambda b: ["A", None, b],
        lambda b: ["A", (False, ["media"]), b],
        lambda b: ["A", (False, ["supports", "foo"]), b],
        lambda b: ["A", (True, ["rule"]), b],
        lambda b: ["A", (True, ["media"]), b],
        lambda b: ["A", (False, ["all"]), b],
    ]
    out = []
    for o in alphabet:
        for m in alphabet:
            for i in alphabet:
                out.append([o([m([d(1), i([d(2)]), d(3)]), d(4)])])
                out.append([["R", [[["c", None, ["b"]]]], [o([m([i([d(2)]), d(3)])]), d(4)]]])
    for x in alphabet:
        for y in alphabet:
            out.append([["M", [[3]], [["R", [[["c", None, ["a"]]], [["c", None, ["b"]]]],
                                       [d(0), x([d(1)]), y([d(2)]), d(3)]]]]])
            out.append([["U", "foo", "", [["M", [[3]], [["R", [[["c", None, [".x"]]]], [x([y([d(1)])]), d(2)]]]]]]])
    return out


# minimised past failures and the witnesses of the known findings: run first on every run
CORPUS = [
    # C04-D1 (fixed c501619; kept as regression case): declaration directly in @at-root landed in the outermost copied ancestor
    [["M", [[0]], [["S", "(s0: v)", [["R", [[["c", None, ["a"]]]],
                                      [["A", (False, ["supports"]), [["D", "p0", "v1", []]]]]]]]]]],
    # C04-D2 (fixed ea0c00a; kept as regression case): IN_UNKNOWN_AT_RULE survived an @at-root that leaves the unknown at-rule
    [["U", "foo", "", [["A", (False, ["foo"]), [["D", "p0", "v1", []]]]]]],
    # C04-D3: a rule after an @at-root that leaves two levels is written before the @at-root's output
    [["M", [[0]], [["S", "(s0: v)", [["R", [[["c", None, ["a"]]]],
                                      [["A", (False, ["media", "supports"]), [["R", [[["c", "", []]]], [["D", "p0", "v1", []]]]]],
                                       ["R", [[["c", "", []]]], [["D", "p0", "v2", []]]]]]]]]]],
    # seeded C04-m1: the re-created @media must stay inside its enclosing at-rule
    [["S", "(s0: v)", [["M", [[0]], [["R", [[["c", None, ["a"]]]], [["M", [[1]], [["D", "p0", "v1", []]]]]],
                                      ["R", [[["c", None, ["b"]]]], [["D", "p1", "v2", []]]]]]]]],
    # seeded C04-m2: the nested-property namespace is restored after an inner block
    [["R", [[["c", None, ["a"]]]], [["D", "p0", None, [["D", "p1", None, [["D", "p2", "v1", []]]], ["D", "p3", "v2", []]]]]]],
    # seeded C04-m3: @at-root excluding only a middle ancestor (rule inside)
    [["M", [[0]], [["S", "(s0: v)", [["R", [[["c", None, ["a"]]]],
                                      [["A", (False, ["supports"]), [["R", [[["c", None, ["b"]]]], [["D", "p0", "v1", []]]]]]]]]]]]],
    # copy-when-following-sibling (DESIGN §8 example)
    [["M", [[0]], [["R", [[["c", None, ["a"]]]], [["M", [[1]], [["D", "p0", "v1", []]]],
                                                   ["R", [[["c", None, ["b"]]]], [["D", "p1", "v2", []]]]]]]]],
    # declaration after a nested rule joins the rule's own block
    [["R", [[["c", None, ["a"]]]], [["D", "p0", "v1", []], ["R", [[["c", None, ["b"]]]], [["D", "p1", "v2", []]]],
                                    ["D", "p2", "v3", []]]]],
    # flatten_vertically with `& + &`
    [["R", [[["c", None, ["a"]]], [["c", None, ["b"]]]],
      [["R", [[["c", None, ["c"]]], [["c", None, ["d"]]], [["c", "", []], "+", ["c", "", []]]], [["D", "p0", "v1", []]]]]]],
]

WITNESS_TAGS = {0: "C04-D1", 1: "C04-D2", 2: "C04-D3"}
TAGS = ["C04-D1", "C04-D2", "C04-D3"]

# ---------------------------------------------------------------------------------------------
# evaluation
# ---------------------------------------------------------------------------------------------

SEP = "zzsep"


def observe_css(css):
    """grass CSS → list of per-tree observations, split at the separator rules."""
    tree = cssread.parse(css)
    flat = [(ctx, sel, decls) for ctx, sel, decls in cssread.flat_rules(tree) if decls]
    # declarations at the very top level are not rules; report them as a block of their own
    top = [(c["name"], c["value"]) for c in tree if c["type"] == "decl"]
    parts, cur = {}, []
    for ctx, sel, decls in flat:
        if ctx == () and sel == SEP:
            parts[int(decls[0][1])] = cur
            cur = []
        else:
            cur.append((tuple(ctx), sel, [(n, v) for n, v in decls]))
    return parts, top


def empty_blocks(css):
    """Preludes of written style rules / @media / @supports that have no child at all — the
    predicate of C04_emitted_blocks_nonempty (`noEmptyBlock`) on grass's own output.  Unknown
    at-rules may be written with an empty body (`@foo {}`, serializer.rs:1155)."""
    out = []

    def walk(nodes):
        for nd in nodes:
            if nd["type"] != "rule":
                continue
            p = nd["prelude"]
            needs_body = (not p.startswith("@")) or p.startswith("@media") or p.startswith("@supports")
            if needs_body and not [c for c in nd["children"] if c["type"] in ("rule", "decl", "stmt")]:
                out.append(p)
            walk(nd["children"])
    walk(cssread.parse(css))
    return out


EMPTY_CHECKED = [0]


def source_batch(trees, idxs):
    return "\n".join(body_text(trees[i]) + f"\n{SEP} {{ i: {i} }}" for i in idxs)


def compile_all(pool, trees, model_code):
    """Real grass on every tree: batched where the model of the code expects success."""
    n = len(trees)
    obs = [None] * n
    ok_idx = [i for i in range(n) if not is_err(model_code[i])]
    err_idx = [i for i in range(n) if is_err(model_code[i])]
    B = 60
    batches = [ok_idx[o:o + B] for o in range(0, len(ok_idx), B)]
    answers = pool.map([compile_job(source_batch(trees, b), syntax="scss") for b in batches], timeout=30)
    retry = list(err_idx)
    for b, ans in zip(batches, answers):
        if ans.get("status") != "ok":
            retry += b
            continue
        try:
            parts, top = observe_css(ans["css"])
        except cssread.IllFormed:
            retry += b
            continue
        if top or any(i not in parts for i in b) or empty_blocks(ans["css"]):
            retry += b
            continue
        EMPTY_CHECKED[0] += len(b)
        for i in b:
            obs[i] = parts[i]
    retry.sort()
    answers = pool.map([compile_job(source_batch(trees, [i]), syntax="scss") for i in retry], timeout=20)
    for i, ans in zip(retry, answers):
        st = ans.get("status")
        if st == "err":
            obs[i] = "E"
        elif st != "ok":
            obs[i] = ("status", st, ans.get("panic") or ans.get("why"))
        else:
            try:
                parts, top = observe_css(ans["css"])
                o = parts.get(i, [])
                if top:
                    o = [((), None, top)] + o
                obs[i] = o
                EMPTY_CHECKED[0] += 1
                e = empty_blocks(ans["css"])
                if e:
                    obs[i] = ("status", "empty-block-written", e)
            except cssread.IllFormed as e:
                obs[i] = ("status", "ill-formed-css", str(e))
    return obs


def run_model(trees):
    outs = driver(["csstree run " + enc_tree(t) for t in trees])
    res = []
    for o in outs:
        if not o.startswith("ok "):
            res.append(None)
            continue
        res.append([dec_res(p.strip()) for p in o[3:].split(" | ")])
    return res


def norm(r):
    """model result / observation → comparable value (errors compared as a class)"""
    if isinstance(r, str):
        return "E"
    if isinstance(r, tuple):
        return r
    return [(tuple(c), s, [tuple(d) for d in ds]) for c, s, ds in r]


def has_decl(body):
    return any(s[0] == "D" or has_decl(s[-1]) for s in body)


def nprop_value(d):
    return (d[2] is not None and bool(d[3])) or any(nprop_value(x) for x in d[3])


def constructs(tree, acc=None, depth=1, path=()):
    """Histogram keys of one tree; `path` = constructor letters of the enclosing statements."""
    acc = acc if acc is not None else {"depth": 0}

    def bump(key):
        acc[key] = acc.get(key, 0) + 1
    for s in tree:
        acc["depth"] = max(acc["depth"], depth)
        t = s[0]
        if t == "D":
            bump("nprop" if s[3] else "decl")
            if nprop_value(s):
                bump("nprop-with-value-and-block")          # `font: 12px { family: x }`
            if path and path[-1] in "MSU" and "R" in path:
                bump("decl-in-at-rule-in-rule")             # a { @media … { x: 1 } }: the rule is re-created inside
            if path and path[-1] in "MSU" and "R" not in path:
                bump("decl-directly-in-at-rule")
            if "A" in path and path[-1] != "A" and "R" in path[path.index("A"):]:
                bump("decl-in-rule-in-at-root")
            continue
        if t in "RMSU" and s[-1] and not has_decl(s[-1]):
            bump("vanishing:" + t)                          # non-empty body, but no declaration anywhere below
        if t in "MSU" and not s[-1]:
            bump("empty-at-rule:" + t)
        if t == "A":
            if "A" in path:
                bump("A-in-A")
            if path and path[-1] == "A":
                bump("A-directly-in-A")
            if s[1] is not None:
                bump("A:" + ("with" if s[1][0] else "without") + ":" + "+".join(sorted(n.lower() for n in s[1][1])))
            if path and "R" in path and any(p in "MSU" for p in path):
                bump("A-in-rule-in-at-rule")
        if t in "MSU" and "A" in path:
            bump("at-rule-in-at-root")
        acc[t] = acc.get(t, 0) + 1
        if t == "R":
            for cx in s[1]:
                amps = [c for c in cx if not isinstance(c, str) and c[1] is not None]
                for c in amps:
                    key = "&" if (c[1] == "" and not c[2]) else ("&-suffix" if c[1] else "&.x")
                    if key == "&" and len(cx) > 1:
                        key = "a &/& a"
                    acc[key] = acc.get(key, 0) + 1
                if len(amps) > 1:
                    acc["& + &"] = acc.get("& + &", 0) + 1
            if len(s[1]) > 1:
                acc["sel-list"] = acc.get("sel-list", 0) + 1
            if not s[2]:
                acc["empty-rule"] = acc.get("empty-rule", 0) + 1
        if t == "A" and s[1] is not None:
            acc["A-query"] = acc.get("A-query", 0) + 1
        constructs(s[-1], acc, depth + 1, path + (t,))
    return acc


MASK = 3     # (C04-D1 and C04-D2 are fixed in /repo) which of the three known deviations grass no longer shows (bit i = TAGS[i] repaired); see detect_mask


def detect_mask(pool):
    """The correspondence runs against the model of the code *as it stands*.  Each known deviation has
    a switch in the model and a witness that isolates it; a witness on which grass now satisfies the
    property means that deviation has been repaired in /repo, so its switch is flipped (and the
    known-findings entry reported stale) instead of letting the tie break on every @at-root case."""
    mask = 0
    idxs = sorted(WITNESS_TAGS)
    trees = [CORPUS[i] for i in idxs]
    model = run_model(trees)
    obs = compile_all(pool, trees, ["E"] * len(trees))
    verdicts = driver([f"csstree check {enc_tree(t)} {enc_obs(o) if not isinstance(o, tuple) else 'E'}"
                       for t, o in zip(trees, obs)])
    for i, v, o in zip(idxs, verdicts, obs):
        if v == "ok holds" and not isinstance(o, tuple):
            mask |= 1 << TAGS.index(WITNESS_TAGS[i])
    return mask


def evaluate(ck, pool, trees, record=True):
    """Returns list of failure dicts (direct oracle) for `trees`; counts tie disagreements."""
    model = run_model(trees)
    keep = [i for i in range(len(trees)) if model[i] is not None]
    ck.cov["unsupported_dropped"] += len(trees) - len(keep)
    trees = [trees[i] for i in keep]
    model = [model[i] for i in keep]
    obs = compile_all(pool, trees, [m[1 + MASK] for m in model])
    verdicts = driver([f"csstree check {enc_tree(t)} {enc_obs(o) if not isinstance(o, tuple) else 'E'}"
                       for t, o in zip(trees, obs)])
    failing = []
    for t, m, o, v in zip(trees, model, obs, verdicts):
        spec, variants_ = norm(m[0]), [norm(x) for x in m[1:]]
        code, specified = variants_[MASK], variants_[7]
        on = norm(o)
        src = body_text(t)
        if record:
            cs = constructs(t)
            nontrivial = cs["depth"] >= 2 and any(k in cs for k in ("R", "M", "S", "U", "A"))
            ck.count(t, nontrivial)
            ck.hist(f"depth={cs['depth']}")
            for k in cs:
                if k != "depth":
                    ck.hist("has:" + k)
            ck.hist("outcome:" + ("error" if on == "E" else "status" if isinstance(on, tuple) else f"blocks={min(len(on), 6)}{'+' if len(on) > 6 else ''}"))
            if cs["depth"] >= 3:
                ck.sample({"source": src, "impl_blocks": on if on == "E" else [list(b) for b in on][:6]}, cap=6)
        if specified != spec:
            ck.cov["specified_model_ne_spec"] = ck.cov.get("specified_model_ne_spec", 0) + 1
            if len(ck.notes) < 3:
                ck.notes.append({"specified treeBuild differs from flattenSpec": src})
        tie_ok = on == code
        if not tie_ok:
            ck.cov["model_disagreements"] += 1
            if len(ck.disagreements) < 5:
                ck.disagreements.append({"source": src, "tree": t, "model_treeBuild": code, "impl_observation": on,
                                         "flattenSpec": spec, "model_specified": specified,
                                         "localised": "splicing (treeBuild ≠ grass)" if spec == on else "both models differ from grass"})
        direct_ok = (v == "ok holds") and not isinstance(on, tuple)
        if not direct_ok:
            tags = []
            if tie_ok and specified == spec:
                # smallest sets of repaired deviations under which the model yields what the property expects
                for size in (1, 2, 3):
                    hit = [mk for mk in range(8) if mk & MASK == MASK and bin(mk ^ MASK).count("1") == size
                           and variants_[mk] == spec]
                    if hit:
                        for mk in hit:
                            tags += [TAGS[b] for b in range(3) if (mk ^ MASK) >> b & 1 and TAGS[b] not in tags]
                        break
            failing.append({"source": src, "tree": t, "impl_observation": on, "expected_by_property": spec,
                            "model_treeBuild_as_found": code, "model_treeBuild_specified": specified,
                            "verdict": v, "tags": tags})
    return failing


# ---------------------------------------------------------------------------------------------
# shrinking (on the tree form)
# ---------------------------------------------------------------------------------------------

def variants(tree):
    """Smaller trees: drop a statement, hoist a body, simplify a selector / query."""
    def walk(body, rebuild):
        for i, s in enumerate(body):
            yield rebuild(body[:i] + body[i + 1:])
            t = s[0]
            if t == "D":
                if s[3]:
                    yield rebuild(body[:i] + s[3] + body[i + 1:])
                    yield rebuild(body[:i] + [["D", s[1], s[2] or "v0", []]] + body[i + 1:])
                continue
            sub = s[-1]
            yield rebuild(body[:i] + sub + body[i + 1:])
            if t == "R":
                sel = s[1]
                if len(sel) > 1:
                    for j in range(len(sel)):
                        yield rebuild(body[:i] + [["R", sel[:j] + sel[j + 1:], sub]] + body[i + 1:])
                for j, cx in enumerate(sel):
                    if len(cx) > 1:
                        for k in range(len(cx)):
                            cx2 = cx[:k] + cx[k + 1:]
                            if cx2 and not isinstance(cx2[-1], str):
                                yield rebuild(body[:i] + [["R", sel[:j] + [cx2] + sel[j + 1:], sub]] + body[i + 1:])
            if t == "M" and (len(s[1]) > 1 or len(s[1][0]) > 1):
                yield rebuild(body[:i] + [["M", [s[1][0][:1]], sub]] + body[i + 1:])
            if t == "A" and s[1] is not None and len(s[1][1]) > 1:
                for j in range(len(s[1][1])):
                    yield rebuild(body[:i] + [["A", (s[1][0], s[1][1][:j] + s[1][1][j + 1:]), sub]] + body[i + 1:])
            yield from walk(sub, lambda nb, i=i, s=s: rebuild(body[:i] + [s[:-1] + [nb]] + body[i + 1:]))
    yield from walk(tree, lambda b: b)


def shrink(ck, pool, fail, same):
    """Greedy delta-debugging: keep any smaller tree on which `same(failure)` still holds."""
    cur = fail
    for _ in range(40):
        cands = []
        seen = set()
        for v in variants(cur["tree"]):
            key = json.dumps(v)
            if v and key not in seen:
                seen.add(key)
                cands.append(v)
        if not cands:
            break
        cands.sort(key=lambda v: len(json.dumps(v)))
        cands = cands[:150]
        fs = evaluate(ck, pool, cands, record=False)
        fs = [f for f in fs if same(f)]
        if not fs:
            break
        cur = min(fs, key=lambda f: len(json.dumps(f["tree"])))
    return cur


# ---------------------------------------------------------------------------------------------
# entry points
# ---------------------------------------------------------------------------------------------

def gen_trees(ck, tier):
    n_rand = 3000 if tier == "quick" else 60000
    trees = [t for t in CORPUS]
    g = Gen(ck.rng)
    for _ in range(n_rand):
        trees.append(g.tree())
    small = enumerate_small()
    if tier == "quick":
        ck.rng.shuffle(small)
        small = small[:900]
    trees += small
    if tier == "thorough":
        g2 = Gen(ck.rng, max_depth=5, max_width=3, p_invalid=0.05)
        for _ in range(8000):
            trees.append(g2.tree())
    return trees


def run(tier, seed):
    ck = Check("C04", tier, seed)
    ck.disagreements = []
    ck.cov["specified_model_ne_spec"] = 0
    ck.cov["rule"] = ("random rule trees (depth <= 4, width <= 3; thorough also depth 5) over style rules with selector lists "
                      "(`&` alone, `&-suffix`, `&.x`, `a &`, `& + &`, leading combinators), declarations, nested properties, "
                      "@media (feature-only queries and query lists), @supports, unknown at-rules, @at-root with/without queries, "
                      "empty rules; plus the enumeration outer{mid{decl inner{decl} decl} decl} over 13 constructs and all "
                      "sibling pairs inside @media{rule{…}}. ~60 trees per compile, separated by marker rules. A tree is distinct "
                      "by its tree form and non-trivial when it nests at least two levels with a rule or at-rule.")
    ck.assumptions = ["grass output observed through tools/cssread.py parse + flat_rules (declarations directly inside an "
                      "at-rule are read as one block placed before the rules nested in it)",
                      "blocks without declarations are not part of the observation; adjacent equal blocks are not merged",
                      "every output is additionally scanned for written style rules/@media/@supports without children "
                      "(predicate of C04_emitted_blocks_nonempty on grass's own CSS); one found = a direct failure",
                      "media queries are feature-only, so nested queries merge by conjunction (general merge: C17)"]
    ck.do_prove(cores=("csstree",))
    if not ck.do_build_runner():
        ck.unproved("correspondence-broken", {"why": "runner does not build against /repo", "error": getattr(ck, "build_error", "")})
        return ck.finish()
    pool = RunnerPool()
    global MASK
    MASK = detect_mask(pool)
    ck.cov["deviations_modelled_as_found"] = [TAGS[b] for b in range(3) if not MASK >> b & 1]
    trees = gen_trees(ck, tier)
    failing = evaluate(ck, pool, trees)
    ck.cov["outputs_checked_for_empty_blocks"] = EMPTY_CHECKED[0]
    if (not ck.proof["ok"] or ck.cov["model_disagreements"]) and not [f for f in failing if not f["tags"]] and tier == "quick":
        log("[C04] proof or correspondence broken: enlarging the search")
        g = Gen(ck.rng, max_depth=5, max_width=3, p_invalid=0.05)
        extra = [g.tree() for _ in range(12000)] + enumerate_small()
        failing += evaluate(ck, pool, extra)
    # known-finding witnesses must still fail (else the entry is stale)
    from vlib import known_findings
    known = {k["id"]: k for k in known_findings("C04")}
    for idx, tag in WITNESS_TAGS.items():
        src = body_text(CORPUS[idx])
        if tag in known and not any(f["source"] == src and tag in f["tags"] for f in failing):
            ck.notes.append(f"known finding {tag}: witness `{src}` no longer fails — entry is stale; "
                            "the model switch for it is taken as repaired in this run")
    failing.sort(key=lambda f: len(f["source"]))
    untagged = [f for f in failing if not f["tags"]]
    tagged = [f for f in failing if f["tags"]]
    ck.cov["known_class_failures"] = len(tagged)
    reported = 0
    for f in tagged:
        if ck.impl_violation(f["source"], f, tags=f["tags"][:1]):      # not (any longer) a known entry
            reported += 1
        for tag in f["tags"][1:]:
            if tag in known:
                ck.known_line(known[tag])
    for f in untagged[:3]:
        small = shrink(ck, pool, f, lambda g: not g["tags"])
        small["shrunk_from"] = f["source"]
        if ck.impl_violation(small["source"], small, tags=small["tags"]):
            reported += 1
    if len(untagged) > 3:
        ck.cov["impl_property_failures"] += len(untagged) - 3
    if ck.cov["model_disagreements"] and not reported:
        ck.unproved("correspondence-broken", {"correspondence": "treeBuild (code as it stands) vs grass, blocks by cssread",
                                              "cases": ck.disagreements})
    return ck.finish()


def replay(path):
    r = json.load(open(path))
    ck = Check("C04", "quick", 0)
    ck.disagreements = []
    ck.do_build_runner()
    pool = RunnerPool(2)
    global MASK
    MASK = detect_mask(pool)
    trees = [r["tree"]] if "tree" in r else [c["tree"] for c in r.get("cases", []) if "tree" in c]
    if not trees:
        print(json.dumps(r, indent=1))
        return 0
    rc = 0
    for t in trees:
        fs = evaluate(ck, pool, [t], record=False)
        model = run_model([t])[0]
        obs = compile_all(pool, [t], [model[1 + MASK]])[0]
        print("source      :", body_text(t))
        print("grass       :", norm(obs))
        print("flattenSpec :", norm(model[0]))
        print("treeBuild   :", norm(model[1 + MASK]))
        print("verdicts    : proof=(see ./check C04) tie=%s direct=%s" % (norm(obs) == norm(model[1 + MASK]), "holds" if not fs else "FAILS " + str(fs[0]["tags"])))
        if fs and not fs[0]["tags"]:
            rc = 1
    return rc
