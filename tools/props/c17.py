"""C17 — nested @media queries merge to their logical intersection."""
import itertools
import json
import re

import cssread
from vlib import Check, RunnerPool, compile_job, driver, log, hexs, unhex

FEATS = 3
TYPES = [None, "all", "screen", "print"]
MODS = [None, "not", "only"]


def cond_sets():
    out = [()]
    for r in (1, 2, 3):
        out += list(itertools.combinations(range(FEATS), r))
    return out


def singles():
    qs = []
    for t in TYPES:
        for m in MODS:
            if m and t in (None, "all"):
                continue            # excluded by the property: modifiers applied to `all`
            for cs in cond_sets():
                if t is None and not cs:
                    continue
                qs.append((m, t, cs, True))
    for cs in cond_sets():
        if len(cs) >= 2:
            qs.append((None, None, cs, False))
    qs.append((None, None, (1, 0), True))      # an out-of-order condition list
    return qs


def q_text(q, rng=None):
    m, t, cs, conj = q
    parts = []
    if m:
        parts.append(m)
    if t:
        parts.append(t)
    head = " ".join(parts)
    conds = (" and " if conj else " or ").join(f"(f{c})" for c in cs)
    if head and conds:
        return head + " and " + conds
    return head or conds


def q_enc(q):
    m, t, cs, conj = q
    return f"{m or '_'}:{t or '_'}:{'.'.join(map(str, cs)) or '_'}:{1 if conj else 0}"


def l_text(l):
    return ", ".join(q_text(q) for q in l)


def spell(text, rng):
    """A different spelling of the same query list: random letter case of the keywords (the code
    compares types and modifiers case-insensitively) and interpolation of types / features
    (`Query text, including interpolated parts, is otherwise preserved`)."""
    mode = rng.random()
    if mode < 0.5:
        return text
    def word(m):
        w = m.group(0)
        r = rng.random()
        if r < 0.3:
            return w.upper()
        if r < 0.5:
            return w.capitalize()
        if r < 0.7 and w in ("screen", "print", "all"):
            return '#{"%s"}' % w
        return w
    out = re.sub(r"\b(screen|print|all|not|only|and|or)\b", word, text)
    out = re.sub(r"\(f(\d)\)", lambda m: ('(#{"f%s"})' % m.group(1)) if rng.random() < 0.3 else m.group(0), out)
    return out


def l_enc(l):
    return ";".join(q_enc(q) for q in l) if l else "-"


_tok = re.compile(r"\(\s*f(\d+)\s*\)|([A-Za-z-]+)|(.)")


def parse_query(s):
    toks = []
    for m in _tok.finditer(s.strip()):
        if m.group(1) is not None:
            toks.append(("c", int(m.group(1))))
        elif m.group(2) is not None:
            toks.append(("w", m.group(2).lower()))
        elif m.group(3).strip():
            return None
    if not toks:
        return None
    mod = typ = None
    i = 0
    if toks[0][0] == "w":
        words = []
        while i < len(toks) and toks[i][0] == "w" and toks[i][1] not in ("and", "or"):
            words.append(toks[i][1])
            i += 1
        if len(words) == 1:
            typ = words[0]
        elif len(words) == 2:
            mod, typ = words
        else:
            return None
        if mod not in (None, "not", "only") or typ not in ("all", "screen", "print"):
            return None
        if i < len(toks):
            if toks[i] != ("w", "and"):
                return None
            i += 1
    conds, conj, seen_op = [], True, None
    expect_cond = True
    while i < len(toks):
        k, v = toks[i]
        if expect_cond:
            if k != "c":
                return None
            conds.append(v)
        else:
            if k != "w" or v not in ("and", "or"):
                return None
            if seen_op and seen_op != v:
                return None
            seen_op = v
        expect_cond = not expect_cond
        i += 1
    if expect_cond and (conds or typ is None):
        return None
    if seen_op == "or":
        conj = False
    return (mod, typ, tuple(conds), conj)


def parse_prelude(p):
    assert p.startswith("@media")
    body = p[len("@media"):].strip()
    out = []
    for part in body.split(","):
        q = parse_query(part)
        if q is None:
            return None
        out.append(q)
    return out


def find_cases(nodes, ctx, found):
    for nd in nodes:
        if nd["type"] != "rule":
            continue
        if nd["prelude"].startswith("@media"):
            find_cases(nd["children"], ctx + [nd["prelude"]], found)
        else:
            for c in nd["children"]:
                if c["type"] == "decl" and c["name"] == "i":
                    found[int(c["value"])] = ctx
            find_cases(nd["children"], ctx, found)


def source_for(idx, levels, inside_rule, rng=None):
    """Source of one case.  With `rng`, queries are written in a random spelling (keyword case,
    interpolation) — but ONE spelling per distinct query within the case: grass decides which
    enclosing @media rules a merged rule may pass through by comparing query TEXT, so two
    spellings of one query would be two different queries for that purpose while the model
    compares the parsed (case-normalised) queries."""
    inner = f"i: {idx}" if inside_rule else f"x {{ i: {idx} }}"
    s = inner
    spelled = {}

    def qs(q):
        if q not in spelled:
            spelled[q] = spell(q_text(q), rng) if rng else q_text(q)
        return spelled[q]

    for l in reversed(levels):
        s = f"@media {', '.join(qs(q) for q in l)} {{ {s} }}"
    return f"x {{ {s} }}" if inside_rule else s


# minimised past failures: run first on every run
CORPUS = [
    # D11 (fixed): `not screen` ∩ `screen` emitted `screen`
    ([[("not", "screen", (), True)], [(None, "screen", (), True)]], False),
    ([[(None, "print", (0,), True)], [("not", "print", (), True)]], True),
    # D22 (known): through-by-equality loses an enclosing rule
    ([[(None, "screen", (), True)], [(None, "screen", (), True), ("not", "screen", (0,), True)],
      [(None, "print", (), True)]], False),
    ([[("only", "print", (1,), True)], [("only", "print", (1,), True), ("not", "print", (2,), True)],
      [(None, "screen", (0,), True)]], True),
]


def gen_cases(ck, tier):
    S = singles()
    cases = list(CORPUS)
    for a in S:
        for b in S:
            cases.append(([[a], [b]], False))
    rng = ck.rng
    n_rand = 1500 if tier == "quick" else 20000
    for _ in range(n_rand):
        levels = [[rng.choice(S) for _ in range(rng.choice([1, 1, 2, 2, 3]))] for _ in range(2)]
        cases.append((levels, rng.random() < 0.5))
    for _ in range(n_rand * 2):
        levels = [[rng.choice(S) for _ in range(rng.choice([1, 1, 2]))] for _ in range(3)]
        cases.append((levels, rng.random() < 0.3))
    if tier == "thorough":
        small = [q for q in S if len(q[2]) <= 1]
        for a in small:
            for b in small:
                for c in small:
                    cases.append(([[a], [b], [c]], False))
    return cases


N_PLAIN = 0   # cases below this index are printed verbatim; the rest get random keyword case / interpolation


def evaluate(ck, cases, pool, direct_only=False):
    """Runs implementation and model on `cases`; returns list of failing cases (direct oracle)."""
    B = 100
    jobs, spans = [], []
    for off in range(0, len(cases), B):
        chunk = cases[off:off + B]
        srng = __import__("random").Random(ck.seed * 1000003 + off)
        src = "\n".join(source_for(off + k, lv, ins, srng if (off + k) >= N_PLAIN else None)
                        for k, (lv, ins) in enumerate(chunk))
        jobs.append(compile_job(src, syntax="scss"))
        spans.append((off, len(chunk)))
    answers = pool.map(jobs, timeout=20)
    impl = {}
    for (off, n), ans, job in zip(spans, answers, jobs):
        if ans.get("status") != "ok":
            # a whole batch failed: attribute by re-running its cases one by one
            singles_jobs = [compile_job(source_for(off + k, *cases[off + k]), syntax="scss") for k in range(n)]
            for k, a1 in enumerate(pool.map(singles_jobs, timeout=10)):
                impl[off + k] = ("status", a1.get("status"), a1.get("err", {}).get("message") or a1.get("panic"))
            continue
        try:
            tree = cssread.parse(ans["css"])
        except cssread.IllFormed as e:
            for k in range(n):
                impl[off + k] = ("status", "ill-formed-css", str(e))
            continue
        found = {}
        find_cases(tree, [], found)
        for k in range(n):
            if off + k in found:
                lv = [parse_prelude(p) for p in found[off + k]]
                impl[off + k] = ("unparsed", found[off + k]) if any(x is None for x in lv) else ("levels", lv)
            else:
                impl[off + k] = ("dropped",)
    # model + P̂ on the implementation's output
    lines = []
    for i, (lv, _) in enumerate(cases):
        lines.append("media chain " + " ".join(l_enc(l) for l in lv))
        ob = impl[i]
        if ob[0] == "dropped":
            lines.append(f"media checkn {FEATS} {len(lv)} " + " ".join(l_enc(l) for l in lv) + " dropped")
        elif ob[0] == "levels":
            lines.append(f"media checkn {FEATS} {len(lv)} " + " ".join(l_enc(l) for l in lv) + " levels "
                         + " ".join(l_enc(l) for l in ob[1]))
        else:
            lines.append("ping")
        lines.append("media nop " + " ".join(l_enc(l) for l in lv))
    outs = driver(lines)
    failing = []
    for i, (lv, ins) in enumerate(cases):
        model, verdict, nop = outs[3 * i], outs[3 * i + 1], outs[3 * i + 2]
        ob = impl[i]
        src = source_for(0, lv, ins)
        m = re.match(r"ok (\d) (.*) \| (.*)$", model)
        if not m:
            ck.cov["unsupported_dropped"] += 1
            continue
        inscope, asfound, spec = m.group(1) == "1", m.group(2), m.group(3)
        ck.hist("D22-class(noOverPop=false)" if nop == "ok 0" else "outside-D22-class")
        if nop != "ok 0" and asfound != spec and not direct_only:
            # theorem chainRun_asFound_eq says this cannot happen; a model/driver inconsistency
            ck.cov["model_disagreements"] += 1
        nontrivial = any(q[0] or q[1] for l in lv for q in l)
        ck.count(("c17", [l_enc(l) for l in lv], ins), nontrivial)
        ck.hist(f"levels={len(lv)}")
        ck.hist("inscope" if inscope else "out-of-scope(excluded pair)")
        if ob[0] == "dropped":
            obs = "dropped"
        elif ob[0] == "levels":
            obs = "levels " + " ".join(l_enc(l) for l in ob[1])
        else:
            obs = f"{ob}"
        ck.hist("impl:" + ob[0] + (str(len(ob[1])) if ob[0] == "levels" else ""))
        if i % 997 == 0:
            ck.sample({"source": src, "impl": obs, "model": asfound, "in_scope": inscope})
        if not direct_only and obs != asfound:
            ck.cov["model_disagreements"] += 1
            if ck.cov["model_disagreements"] <= 3:
                ck.disagreements.append({"source": src, "model_observation": asfound, "impl_observation": obs})
        if not inscope:
            continue
        if ob[0] in ("status", "unparsed") or verdict != "ok holds":
            # D22 only inside its class: some merge step finds the next enclosing level covered by the
            # merged sources (`noOverPop` false); outside it C17_asFound_chain_sound holds
            tags = ["D22"] if (asfound != spec and obs == asfound and nop == "ok 0") else []
            failing.append({"source": src, "levels": [l_text(l) for l in lv], "impl_observation": obs,
                            "verdict": verdict, "expected_by_property":
                            "body reached by exactly the environments satisfying every level", "tags": tags})
    return failing


# ------------------------------------------------------------------------------------------------
# Text level (round 3): the parser/printer of media queries, level-4 syntax, wrappers.
# A text case is a list of items: ("m", source, resolved) — an @media rule written `source` whose
# text after interpolation is `resolved` (what MediaQueryParser sees) — ("s", k) a style rule /
# `@at-root` that keeps the media context, ("b",) `@supports`, ("e", k) `@at-root (without: media|all)`.
# Mode W writes the whole list as ONE interpolation `#{"<text>"}`: resolved == text, byte for byte
# (odd spacing, keyword case, commas, nested brackets, malformed texts).  Mode S writes source syntax
# (parts interpolated, odd spacing); its resolved text is the normal form the stylesheet parser
# (parse/stylesheet.rs:2890-3086) leaves: identifiers as spelled, ` and `/` or `/`not ` lower-case,
# `name: value`, `a <= b`.

T_TYPES = ["screen", "print", "all", "tv", "SCREEN", "Print", "ALL", "Screen", "aLL"]
T_MODS = ["not", "only", "NOT", "Only", "ONLY", "Not"]
# (source spellings, resolved normal form, raw W-mode spellings)
T_CONDS = [
    (["(f0)", "( f0 )", "(f0 )", '(#{"f0"})', "(#{f0})"], "(f0)", ["(f0)", "( f0 )", "(f0  )", "(F0)"]),
    (["(f1)", "(  f1)", '(#{"f1"})'], "(f1)", ["(f1)", "(\tf1)", "(f1 )"]),
    (["(f2)", "(f2  )"], "(f2)", ["(f2)", "( f2)"]),
    (["(min-width: 100px)", "(min-width:100px)", "( min-width : 100px )", '(min-width: #{"100px"})'],
     "(min-width: 100px)", ["(min-width: 100px)", "(min-width:100px)", "(min-width :  100px)"]),
    (["(width >= 600px)", "(width>=600px)", "( width >=600px )"], "(width >= 600px)",
     ["(width >= 600px)", "(width>=600px)", "(width  >=   600px)"]),
    (["(400px <= width <= 700px)", "(400px<=width<=700px)"], "(400px <= width <= 700px)",
     ["(400px <= width <= 700px)", "(400px<=width<=700px)"]),
    (["((f0) and (f1))", "( (f0)   and (f1) )", "((f0) AND (f1))"], "((f0) and (f1))",
     ["((f0) and (f1))", "((f0)  AND (f1))", "(a (b [c] d) e)", "(a [b, c] d)"]),
    (["(not (f2))"], "(not (f2))", ["(not (f2))", "(not  (f2))", "(NOT (f2))"]),
]
T_BAD_W = ["(a) and (b) or (c)", "screen and(f0)", "screen(f0)", "not", "(a [b) c])", "()", "screen,", "",
           "screen and (f0) and not (f1)", "(f0) and not (f1)", "only screen and not(f0)", "screen and", "(f0",
           "f0)", "screen print tv", "not screen and", "(f0) or(f1)", ", screen", "5px", "(f0) (f1)", "not(f0)"]
T_BAD_S = ["(f0) and (f1) or (f2)", "screen and(f0)", "screen (f0)", "(f0) or (f1) and (f2)", "not", "()"]


def _case(w, rng):
    r = rng.random()
    return w.upper() if r < 0.25 else (w.capitalize() if r < 0.4 else w)


def _sp(rng, need=True):
    r = rng.random()
    if need:
        return " " if r < 0.6 else ("  " if r < 0.8 else ("\t" if r < 0.9 else "   "))
    return "" if r < 0.4 else (" " if r < 0.8 else "  ")


def t_query(rng, mode):
    """One query: (source text, resolved text, shape tag)."""
    W = mode == "W"
    shape = rng.choice(["type", "type", "type+conds", "type+conds", "mod+type", "mod+type+conds", "conds",
                        "conds", "or", "not-cond", "type+not-cond"])
    src, res = [], []      # parallel token lists; entries (text, kind) kind in id|kw|cond

    def ident(w):
        src.append((w, "id")); res.append((w, "id"))

    def kwd(w):
        src.append((_case(w, rng), "kw")); res.append((w, "kw"))

    def cond():
        c = rng.choice(T_CONDS)
        if W:
            t = rng.choice(c[2]); src.append((t, "cond")); res.append((t, "cond"))
        else:
            src.append((rng.choice(c[0]), "cond")); res.append((c[1], "cond"))

    def conds(op, n):
        for k in range(n):
            if k:
                kwd(op)
            cond()

    n = rng.choice([1, 1, 2, 3])
    if shape == "type":
        ident(rng.choice(T_TYPES))
    elif shape == "type+conds":
        ident(rng.choice(T_TYPES)); kwd("and"); conds("and", n)
    elif shape == "mod+type":
        ident(rng.choice(T_MODS)); ident(rng.choice(T_TYPES))
    elif shape == "mod+type+conds":
        ident(rng.choice(T_MODS)); ident(rng.choice(T_TYPES)); kwd("and"); conds("and", n)
    elif shape == "conds":
        conds("and", n)
    elif shape == "or":
        conds("or", max(2, n))
    elif shape == "not-cond":
        kwd("not"); cond()
    else:
        ident(rng.choice(T_TYPES)); kwd("and"); kwd("not"); cond()
    # spacing: white space is required after a keyword and between identifiers, optional before a keyword
    # that follows `)`
    def join(toks, odd):
        out = ""
        for k, (t, kind) in enumerate(toks):
            if k:
                prev = toks[k - 1][1]
                need = not (prev == "cond" and kind == "kw")
                out += _sp(rng, need) if odd else " "
            out += t
        return out
    if W:
        text = join(src, True)
        return text, text, shape
    if rng.random() < 0.25:
        # interpolate a part: an identifier, or a whole `and` sequence of conditions
        k = rng.randrange(len(src))
        if src[k][1] == "id":
            src[k] = ('#{"%s"}' % src[k][0], "id")
        elif src[k][1] == "cond" and '"' not in src[k][0] and (k == 0 or src[k - 1][1] == "kw") and k > 0:
            src[k] = ('#{"%s"}' % res[k][0], "cond")
    return join(src, True), join(res, False), shape


def t_list(rng):
    """One @media prelude: (source, resolved, tags)."""
    r = rng.random()
    if r < 0.025:
        t = rng.choice(T_BAD_W)
        return '#{"%s"}' % t, t, ["W", "malformed"]
    if r < 0.04:
        t = rng.choice(T_BAD_S)
        return t, t, ["S", "stylesheet-syntax-error"]
    mode = "W" if r < 0.5 else "S"
    n = rng.choice([1, 1, 1, 2, 2, 3])
    qs = [t_query(rng, mode) for _ in range(n)]
    tags = [mode, f"queries={n}"] + sorted({"shape:" + q[2] for q in qs})
    if mode == "W":
        sep = lambda: _sp(rng, False) + "," + _sp(rng, False)
        text = _sp(rng, False) + "".join((sep() if k else "") + q[0] for k, q in enumerate(qs)) + _sp(rng, False)
        return '#{"%s"}' % text, text, tags
    if n > 1 and rng.random() < 0.2:
        # a comma list produced by one interpolation, after a first query written in source syntax
        tail = ", ".join(q[1] for q in qs[1:])
        if '"' not in tail:
            return qs[0][0] + ' , #{"%s"}' % tail, qs[0][1] + ", " + tail, tags + ["interp-list"]
    src = "".join((_sp(rng, False) + "," + _sp(rng, False) if k else "") + q[0] for k, q in enumerate(qs))
    return src, ", ".join(q[1] for q in qs), tags


def t_case(rng):
    depth = rng.choice([1, 1, 2, 2, 2, 3, 3, 4])
    items = []
    for d in range(depth):
        if d and rng.random() < 0.3:
            k = rng.random()
            if k < 0.35:
                items.append(rng.choice([("s", "rule"), ("s", "atroot"), ("o",)]))
            elif k < 0.75:
                items.append(("b",))
            else:
                items.append(("e", rng.choice(["media", "all"])))
        items.append(("m",) + t_list(rng))
    return items


def t_source(idx, items):
    s = f"x {{ i: {idx} }}"
    for n, it in enumerate(reversed(items)):
        if it[0] == "m":
            s = f"@media {it[1]} {{ {s} }}"
        elif it[0] == "s":
            s = {"rule": f"y{n} {{ {s} }}", "atroot": f"@at-root {{ {s} }}"}[it[1]]
        elif it[0] == "o":
            s = f"@at-root (with: media) {{ {s} }}"
        elif it[0] == "b":
            s = f"@supports (a: b) {{ {s} }}"
        else:
            s = f"@at-root (without: {it[1]}) {{ {s} }}"
    return s


def raw_find(css):
    """`i: N` declarations of expanded-style output with the byte-exact texts of the enclosing @media
    preludes (tools/cssread.py collapses white space inside preludes; generated texts have no newline,
    brace, quote or semicolon, so every rule head is one line ending in ` {`)."""
    found, stack = {}, []
    for line in css.split("\n"):
        t = line.lstrip(" ")
        if t.endswith(" {"):
            stack.append(t[:-2])
        elif t == "}":
            stack.pop()
        else:
            m = re.match(r"i: (\d+);$", t)
            if m:
                found[int(m.group(1))] = [h[len("@media "):] for h in stack if h.startswith("@media ")]
    return found


def t_enc(items):
    return " ".join(("m:" + hexs(it[2])) if it[0] == "m" else it[0] for it in items)


# minimised text cases that run first on every run
T_CORPUS = [
    [("m", "(f0)", "(f0)", []), ("m", "not (f1)", "not (f1)", [])],
    [("m", "ONLY screen", "ONLY screen", []), ("m", "Screen and (f1)", "Screen and (f1)", [])],
    [("m", "ALL", "ALL", []), ("b",), ("m", "all and (f1)", "all and (f1)", [])],
    [("m", "screen", "screen", []), ("e", "media"), ("m", "print", "print", [])],
    [("m", "screen", "screen", []), ("m", "print", "print", []), ("m", '#{"bad("}', "bad(", [])],
    [("m", '#{"(not (f0))"}', "(not (f0))", [])],
    [("m", '#{"ONLY  Screen   and ( f0  x )and (f1)"}', "ONLY  Screen   and ( f0  x )and (f1)", [])],
    [("m", "(f0) or (f1)", "(f0) or (f1)", []), ("m", "(f2)", "(f2)", [])],
    [("m", "screen", "screen", []), ("b",), ("m", "(f0)", "(f0)", []), ("m", "(f1)", "(f1)", [])],
    # same query in two spellings: `through` compares the spelled queries
    [("m", "screen", "screen", []), ("m", "SCREEN, not screen and (f0)", "SCREEN, not screen and (f0)", []),
     ("m", "print", "print", [])],
]


def gen_text_cases(ck, tier):
    rng = ck.rng
    n = 2500 if tier == "quick" else 30000
    return list(T_CORPUS) + [t_case(rng) for _ in range(n)]


def evaluate_text(ck, tcases, pool):
    """Text-level tie (byte-exact preludes, error class) and P̂ (truth tables + text clause) on grass's output."""
    model = driver(["media tchain " + t_enc(items) for items in tcases])
    parsed = []
    for items, out in zip(tcases, model):
        m = re.match(r"ok (\d) (.*) \| (.*)$", out)
        if m and any(it[0] == "m" and "stylesheet-syntax-error" in it[3] for it in items):
            # rejected by the stylesheet parser (parse/stylesheet.rs:2890 ff.) before anything is evaluated,
            # reachable or not; the model covers the parser that runs after interpolation
            parsed.append((False, "error", "error"))
        else:
            parsed.append(None if not m else (m.group(1) == "1", m.group(2), m.group(3)))
    # batches: cases the model expects to fail go alone (an error aborts a whole stylesheet)
    idx_batch = [i for i, p in enumerate(parsed) if p and p[1] != "error"]
    idx_single = [i for i, p in enumerate(parsed) if p and p[1] == "error"]
    impl = {}
    B = 100
    jobs, spans = [], []
    for off in range(0, len(idx_batch), B):
        chunk = idx_batch[off:off + B]
        jobs.append(compile_job("\n".join(t_source(i, tcases[i]) for i in chunk), syntax="scss"))
        spans.append(chunk)
    for i in idx_single:
        jobs.append(compile_job(t_source(i, tcases[i]), syntax="scss"))
        spans.append([i])
    answers = pool.map(jobs, timeout=20)
    retry = []
    for chunk, ans in zip(spans, answers):
        if ans.get("status") != "ok":
            if len(chunk) == 1:
                impl[chunk[0]] = ("error",) if ans.get("status") == "err" else ("status", ans.get("status"))
            else:
                retry += chunk
            continue
        try:
            cssread.parse(ans["css"])
            found = raw_find(ans["css"])
        except (cssread.IllFormed, IndexError) as e:
            for i in chunk:
                impl[i] = ("status", "ill-formed-css", str(e))
            continue
        for i in chunk:
            impl[i] = ("levels", found[i]) if i in found else ("dropped",)
    if retry:
        for i, ans in zip(retry, pool.map([compile_job(t_source(i, tcases[i]), syntax="scss") for i in retry], timeout=10)):
            if ans.get("status") != "ok":
                impl[i] = ("error",) if ans.get("status") == "err" else ("status", ans.get("status"))
                continue
            found = raw_find(ans["css"])
            impl[i] = ("levels", found[i]) if i in found else ("dropped",)
    # P̂ on the implementation's own output
    # (an `@at-root (without: media)` splits the chain into segments; the body is reached through the last
    # segment only, and it is rightly dropped when ANY segment has an empty intersection: the rule that
    # would have contained the @at-root was itself dropped)
    lines, where = [], []
    for i, items in enumerate(tcases):
        ob = impl.get(i)
        segs = [[]]
        for it in items:
            if it[0] == "e":
                segs.append([])
            elif it[0] == "m":
                segs[-1].append(it[2])
        head = lambda ins: f"media tcheck {len(ins)} " + " ".join(hexs(t) for t in ins)
        first = len(lines)
        if ob and ob[0] == "dropped":
            # every prefix: a malformed text below the point where the chain became empty is never parsed
            lines += [head(sg[:k]) + " dropped" for sg in segs for k in range(1, len(sg) + 1)]
        elif ob and ob[0] == "levels":
            lines.append(head(segs[-1]) + " levels " + " ".join(hexs(t) for t in ob[1]))
        where.append((first, len(lines)))
    vout = driver(lines) if lines else []
    verdicts = []
    for a, b in where:
        vs = vout[a:b]
        verdicts.append("none" if not vs else ("ok holds" if "ok holds" in vs else
                                              ("unsupported" if "unsupported" in vs else vs[0])))
    failing = []
    for i, items in enumerate(tcases):
        src = t_source(0, items)
        if parsed[i] is None:
            ck.cov["unsupported_dropped"] += 1
            ck.hist("text:unsupported")
            continue
        inscope, asfound, spec = parsed[i]
        ob = impl[i]
        ck.count(("c17t", t_enc(items), [it[1] for it in items if len(it) > 1]), True)
        ck.hist(f"text:media-levels={sum(1 for it in items if it[0] == 'm')}")
        for it in items:
            if it[0] == "m":
                for tg in it[3]:
                    ck.hist("text:" + tg)
            else:
                ck.hist("text:wrapper:" + {"s": "style/", "b": "supports", "e": "at-root-without-", "o": "at-root-with-media"}[it[0]] + (it[1] if len(it) > 1 else ""))
        if ob[0] == "levels":
            obs = "levels" + "".join(" " + hexs(t) for t in ob[1])
        else:
            obs = ob[0] if ob[0] in ("dropped", "error") else f"{ob}"
        ck.hist("text:impl:" + ob[0] + (str(len(ob[1])) if ob[0] == "levels" else ""))
        ck.hist("text:inscope" if inscope else "text:out-of-scope")
        show = lambda o: " ".join(repr(unhex(w)) if k else w for k, w in enumerate(o.split())) if o.startswith("levels") else o
        if i % 499 == 0:
            ck.sample({"source": src, "impl": show(obs), "model": show(asfound), "in_scope": inscope})
        if obs != asfound:
            ck.cov["model_disagreements"] += 1
            if len(ck.disagreements) < 6:
                ck.disagreements.append({"source": src, "model_observation": show(asfound), "impl_observation": show(obs)})
        if not inscope or ob[0] == "error":
            continue
        if verdicts[i] == "unsupported":
            ck.hist("text:P-hat-skipped(too many distinct conditions)")
            continue
        if ob[0] == "status" or verdicts[i] != "ok holds":
            tags = ["D22"] if (asfound != spec and obs == asfound) else []
            failing.append({"source": src, "levels": [it[2] for it in items if it[0] == "m"], "impl_observation": show(obs),
                            "verdict": verdicts[i], "expected_by_property":
                            "body reached by exactly the environments satisfying every enclosing, not escaped level; "
                            "condition texts and type/modifier spellings taken from the sources", "tags": tags})
    return failing


def run(tier, seed):
    ck = Check("C17", tier, seed)
    ck.disagreements = []
    ck.cov["rule"] = ("all ordered pairs of single queries over {no type, all, screen, print} x {none, not, only} x "
                      "subsets of 3 opaque features (+ `or` lists), random pairs of lists (1-3 queries), random triples "
                      "(thorough: all triples over queries with <=1 condition); half of the random cases nested inside a "
                      "style rule. A case is distinct by its encoded levels and non-trivial when some query has a type or modifier.")
    ck.assumptions = ["media environments = device type in {screen, print, other} x truth assignment to 3 opaque features",
                      "grass output observed through tools/cssread.py and the prelude parser in tools/props/c17.py"]
    ck.do_prove(cores=("media",))
    if not ck.do_build_runner():
        ck.unproved("correspondence-broken", {"why": "runner does not build against /repo", "error": getattr(ck, "build_error", "")})
        return ck.finish()
    pool = RunnerPool()
    cases = gen_cases(ck, tier)
    failing = evaluate(ck, cases, pool)
    failing += evaluate_text(ck, gen_text_cases(ck, tier), pool)
    if (not ck.proof["ok"] or ck.cov["model_disagreements"] or ck.changed) and not [f for f in failing if not f["tags"]] and tier == "quick":
        log("[C17] proof/correspondence broken or modelled sources changed: enlarging the search")
        extra = gen_cases(ck, "thorough")[len(cases):]
        failing += evaluate(ck, extra, pool, direct_only=True)
    for d in ck.disagreements[:8]:
        log("[C17] model/impl disagreement: " + json.dumps(d))
    failing.sort(key=lambda f: len(f["source"]))
    reported = 0
    for f in failing:
        if ck.impl_violation(f["source"], f, tags=f["tags"]):
            reported += 1
    if ck.cov["model_disagreements"] and not reported:
        ck.unproved("correspondence-broken", {"correspondence": "media chain (model Grass.Media.chain true true) vs grass",
                                              "cases": ck.disagreements})
    return ck.finish()


def replay(path):
    r = json.load(open(path))
    ck = Check("C17", "quick", 0)
    ck.disagreements = []
    ck.do_build_runner()
    pool = RunnerPool(1)
    src = r.get("source")
    if not src:
        print(json.dumps(r, indent=1))
        return 0
    ans = pool.map([compile_job(src, syntax="scss")])[0]
    print("source:", src)
    print("grass :", ans.get("status"), ans.get("css") or ans.get("err"))
    print("recorded impl observation:", r.get("impl_observation"), "verdict:", r.get("verdict"))
    return 0
