"""C17 — nested @media queries merge to their logical intersection."""
import itertools
import json
import re

import cssread
from vlib import Check, RunnerPool, compile_job, driver, log

FEATS = 3
TYPES = [None, "all", "screen", "print"]
MODS = [None, "not", "only"]


def cond_sets():
    out = [()]
    for r in (1, 2, 3):
        out += list(itertools.combinations(range(FEATS), r))
    return out


def singles():
    qs = []
    for t in TYPES:
        for m in MODS:
            if m and t in (None, "all"):
                continue            # excluded by the property: modifiers applied to `all`
            for cs in cond_sets():
                if t is None and not cs:
                    continue
                qs.append((m, t, cs, True))
    for cs in cond_sets():
        if len(cs) >= 2:
            qs.append((None, None, cs, False))
    qs.append((None, None, (1, 0), True))      # an out-of-order condition list
    return qs


def q_text(q, rng=None):
    m, t, cs, conj = q
    parts = []
    if m:
        parts.append(m)
    if t:
        parts.append(t)
    head = " ".join(parts)
    conds = (" and " if conj else " or ").join(f"(f{c})" for c in cs)
    if head and conds:
        return head + " and " + conds
    return head or conds


def q_enc(q):
    m, t, cs, conj = q
    return f"{m or '_'}:{t or '_'}:{'.'.join(map(str, cs)) or '_'}:{1 if conj else 0}"


def l_text(l):
    return ", ".join(q_text(q) for q in l)


def spell(text, rng):
    """A different spelling of the same query list: random letter case of the keywords (the code
    compares types and modifiers case-insensitively) and interpolation of types / features
    (`Query text, including interpolated parts, is otherwise preserved`)."""
    mode = rng.random()
    if mode < 0.5:
        return text
    def word(m):
        w = m.group(0)
        r = rng.random()
        if r < 0.3:
            return w.upper()
        if r < 0.5:
            return w.capitalize()
        if r < 0.7 and w in ("screen", "print", "all"):
            return '#{"%s"}' % w
        return w
    out = re.sub(r"\b(screen|print|all|not|only|and|or)\b", word, text)
    out = re.sub(r"\(f(\d)\)", lambda m: ('(#{"f%s"})' % m.group(1)) if rng.random() < 0.3 else m.group(0), out)
    return out


def l_enc(l):
    return ";".join(q_enc(q) for q in l) if l else "-"


_tok = re.compile(r"\(\s*f(\d+)\s*\)|([A-Za-z-]+)|(.)")


def parse_query(s):
    toks = []
    for m in _tok.finditer(s.strip()):
        if m.group(1) is not None:
            toks.append(("c", int(m.group(1))))
        elif m.group(2) is not None:
            toks.append(("w", m.group(2).lower()))
        elif m.group(3).strip():
            return None
    if not toks:
        return None
    mod = typ = None
    i = 0
    if toks[0][0] == "w":
        words = []
        while i < len(toks) and toks[i][0] == "w" and toks[i][1] not in ("and", "or"):
            words.append(toks[i][1])
            i += 1
        if len(words) == 1:
            typ = words[0]
        elif len(words) == 2:
            mod, typ = words
        else:
            return None
        if mod not in (None, "not", "only") or typ not in ("all", "screen", "print"):
            return None
        if i < len(toks):
            if toks[i] != ("w", "and"):
                return None
            i += 1
    conds, conj, seen_op = [], True, None
    expect_cond = True
    while i < len(toks):
        k, v = toks[i]
        if expect_cond:
            if k != "c":
                return None
            conds.append(v)
        else:
            if k != "w" or v not in ("and", "or"):
                return None
            if seen_op and seen_op != v:
                return None
            seen_op = v
        expect_cond = not expect_cond
        i += 1
    if expect_cond and (conds or typ is None):
        return None
    if seen_op == "or":
        conj = False
    return (mod, typ, tuple(conds), conj)


def parse_prelude(p):
    assert p.startswith("@media")
    body = p[len("@media"):].strip()
    out = []
    for part in body.split(","):
        q = parse_query(part)
        if q is None:
            return None
        out.append(q)
    return out


def find_cases(nodes, ctx, found):
    for nd in nodes:
        if nd["type"] != "rule":
            continue
        if nd["prelude"].startswith("@media"):
            find_cases(nd["children"], ctx + [nd["prelude"]], found)
        else:
            for c in nd["children"]:
                if c["type"] == "decl" and c["name"] == "i":
                    found[int(c["value"])] = ctx
            find_cases(nd["children"], ctx, found)


def source_for(idx, levels, inside_rule, rng=None):
    """Source of one case.  With `rng`, queries are written in a random spelling (keyword case,
    interpolation) — but ONE spelling per distinct query within the case: grass decides which
    enclosing @media rules a merged rule may pass through by comparing query TEXT, so two
    spellings of one query would be two different queries for that purpose while the model
    compares the parsed (case-normalised) queries."""
    inner = f"i: {idx}" if inside_rule else f"x {{ i: {idx} }}"
    s = inner
    spelled = {}

    def qs(q):
        if q not in spelled:
            spelled[q] = spell(q_text(q), rng) if rng else q_text(q)
        return spelled[q]

    for l in reversed(levels):
        s = f"@media {', '.join(qs(q) for q in l)} {{ {s} }}"
    return f"x {{ {s} }}" if inside_rule else s


# minimised past failures: run first on every run
CORPUS = [
    # D11 (fixed): `not screen` ∩ `screen` emitted `screen`
    ([[("not", "screen", (), True)], [(None, "screen", (), True)]], False),
    ([[(None, "print", (0,), True)], [("not", "print", (), True)]], True),
    # D22 (known): through-by-equality loses an enclosing rule
    ([[(None, "screen", (), True)], [(None, "screen", (), True), ("not", "screen", (0,), True)],
      [(None, "print", (), True)]], False),
    ([[("only", "print", (1,), True)], [("only", "print", (1,), True), ("not", "print", (2,), True)],
      [(None, "screen", (0,), True)]], True),
]


def gen_cases(ck, tier):
    S = singles()
    cases = list(CORPUS)
    for a in S:
        for b in S:
            cases.append(([[a], [b]], False))
    rng = ck.rng
    n_rand = 1500 if tier == "quick" else 20000
    for _ in range(n_rand):
        levels = [[rng.choice(S) for _ in range(rng.choice([1, 1, 2, 2, 3]))] for _ in range(2)]
        cases.append((levels, rng.random() < 0.5))
    for _ in range(n_rand * 2):
        levels = [[rng.choice(S) for _ in range(rng.choice([1, 1, 2]))] for _ in range(3)]
        cases.append((levels, rng.random() < 0.3))
    if tier == "thorough":
        small = [q for q in S if len(q[2]) <= 1]
        for a in small:
            for b in small:
                for c in small:
                    cases.append(([[a], [b], [c]], False))
    return cases


N_PLAIN = 0   # cases below this index are printed verbatim; the rest get random keyword case / interpolation


def evaluate(ck, cases, pool, direct_only=False):
    """Runs implementation and model on `cases`; returns list of failing cases (direct oracle)."""
    B = 100
    jobs, spans = [], []
    for off in range(0, len(cases), B):
        chunk = cases[off:off + B]
        srng = __import__("random").Random(ck.seed * 1000003 + off)
        src = "\n".join(source_for(off + k, lv, ins, srng if (off + k) >= N_PLAIN else None)
                        for k, (lv, ins) in enumerate(chunk))
        jobs.append(compile_job(src, syntax="scss"))
        spans.append((off, len(chunk)))
    answers = pool.map(jobs, timeout=20)
    impl = {}
    for (off, n), ans, job in zip(spans, answers, jobs):
        if ans.get("status") != "ok":
            # a whole batch failed: attribute by re-running its cases one by one
            singles_jobs = [compile_job(source_for(off + k, *cases[off + k]), syntax="scss") for k in range(n)]
            for k, a1 in enumerate(pool.map(singles_jobs, timeout=10)):
                impl[off + k] = ("status", a1.get("status"), a1.get("err", {}).get("message") or a1.get("panic"))
            continue
        try:
            tree = cssread.parse(ans["css"])
        except cssread.IllFormed as e:
            for k in range(n):
                impl[off + k] = ("status", "ill-formed-css", str(e))
            continue
        found = {}
        find_cases(tree, [], found)
        for k in range(n):
            if off + k in found:
                lv = [parse_prelude(p) for p in found[off + k]]
                impl[off + k] = ("unparsed", found[off + k]) if any(x is None for x in lv) else ("levels", lv)
            else:
                impl[off + k] = ("dropped",)
    # model + P̂ on the implementation's output
    lines = []
    for i, (lv, _) in enumerate(cases):
        lines.append("media chain " + " ".join(l_enc(l) for l in lv))
        ob = impl[i]
        if ob[0] == "dropped":
            lines.append(f"media checkn {FEATS} {len(lv)} " + " ".join(l_enc(l) for l in lv) + " dropped")
        elif ob[0] == "levels":
            lines.append(f"media checkn {FEATS} {len(lv)} " + " ".join(l_enc(l) for l in lv) + " levels "
                         + " ".join(l_enc(l) for l in ob[1]))
        else:
            lines.append("ping")
    outs = driver(lines)
    failing = []
    for i, (lv, ins) in enumerate(cases):
        model, verdict = outs[2 * i], outs[2 * i + 1]
        ob = impl[i]
        src = source_for(0, lv, ins)
        m = re.match(r"ok (\d) (.*) \| (.*)$", model)
        if not m:
            ck.cov["unsupported_dropped"] += 1
            continue
        inscope, asfound, spec = m.group(1) == "1", m.group(2), m.group(3)
        nontrivial = any(q[0] or q[1] for l in lv for q in l)
        ck.count(("c17", [l_enc(l) for l in lv], ins), nontrivial)
        ck.hist(f"levels={len(lv)}")
        ck.hist("inscope" if inscope else "out-of-scope(excluded pair)")
        if ob[0] == "dropped":
            obs = "dropped"
        elif ob[0] == "levels":
            obs = "levels " + " ".join(l_enc(l) for l in ob[1])
        else:
            obs = f"{ob}"
        ck.hist("impl:" + ob[0] + (str(len(ob[1])) if ob[0] == "levels" else ""))
        if i % 997 == 0:
            ck.sample({"source": src, "impl": obs, "model": asfound, "in_scope": inscope})
        if not direct_only and obs != asfound:
            ck.cov["model_disagreements"] += 1
            if ck.cov["model_disagreements"] <= 3:
                ck.disagreements.append({"source": src, "model_observation": asfound, "impl_observation": obs})
        if not inscope:
            continue
        if ob[0] in ("status", "unparsed") or verdict != "ok holds":
            tags = ["D22"] if (asfound != spec and obs == asfound) else []
            failing.append({"source": src, "levels": [l_text(l) for l in lv], "impl_observation": obs,
                            "verdict": verdict, "expected_by_property":
                            "body reached by exactly the environments satisfying every level", "tags": tags})
    return failing


def run(tier, seed):
    ck = Check("C17", tier, seed)
    ck.disagreements = []
    ck.cov["rule"] = ("all ordered pairs of single queries over {no type, all, screen, print} x {none, not, only} x "
                      "subsets of 3 opaque features (+ `or` lists), random pairs of lists (1-3 queries), random triples "
                      "(thorough: all triples over queries with <=1 condition); half of the random cases nested inside a "
                      "style rule. A case is distinct by its encoded levels and non-trivial when some query has a type or modifier.")
    ck.assumptions = ["media environments = device type in {screen, print, other} x truth assignment to 3 opaque features",
                      "grass output observed through tools/cssread.py and the prelude parser in tools/props/c17.py"]
    ck.do_prove(cores=("media",))
    if not ck.do_build_runner():
        ck.unproved("correspondence-broken", {"why": "runner does not build against /repo", "error": getattr(ck, "build_error", "")})
        return ck.finish()
    pool = RunnerPool()
    cases = gen_cases(ck, tier)
    failing = evaluate(ck, cases, pool)
    if (not ck.proof["ok"] or ck.cov["model_disagreements"] or ck.changed) and not [f for f in failing if not f["tags"]] and tier == "quick":
        log("[C17] proof/correspondence broken or modelled sources changed: enlarging the search")
        extra = gen_cases(ck, "thorough")[len(cases):]
        failing += evaluate(ck, extra, pool, direct_only=True)
    failing.sort(key=lambda f: len(f["source"]))
    reported = 0
    for f in failing:
        if ck.impl_violation(f["source"], f, tags=f["tags"]):
            reported += 1
    if ck.cov["model_disagreements"] and not reported:
        ck.unproved("correspondence-broken", {"correspondence": "media chain (model Grass.Media.chain true true) vs grass",
                                              "cases": ck.disagreements})
    return ck.finish()


def replay(path):
    r = json.load(open(path))
    ck = Check("C17", "quick", 0)
    ck.disagreements = []
    ck.do_build_runner()
    pool = RunnerPool(1)
    src = r.get("source")
    if not src:
        print(json.dumps(r, indent=1))
        return 0
    ans = pool.map([compile_job(src, syntax="scss")])[0]
    print("source:", src)
    print("grass :", ans.get("status"), ans.get("css") or ans.get("err"))
    print("recorded impl observation:", r.get("impl_observation"), "verdict:", r.get("verdict"))
    return 0
