"""C16 — calc()/min()/max()/clamp() simplification preserves the computed value.

(a) proof: GrassProofs.C16 (+ axiom audit);  (b) tie: grass's printed value, lexed here and parsed by
the proved Lean reader (`parseToks`), compared structurally with the model's simplification
(`Grass.Calc.compile Cfg.now`);  (c) direct: source expression and grass's output evaluated by the Lean
`evalCalc` under random unit environments (exact rationals, error bound for the 10-digit printing), plus a
model-independent oracle here: an expression over numbers with mutually convertible units must come out as
the plain number exact arithmetic gives.
"""
import json
import os
import re
import time
from fractions import Fraction as F

from vlib import Check, RunnerPool, compile_job, driver, log, REPO

# ---------------------------------------------------------------------------------------------
# units (independent re-statement of the CSS ratios, used by the python-side oracle only)
# ---------------------------------------------------------------------------------------------
# std::f64::consts::PI, exactly (the constant grass's table is built from; the Lean model's `piF`)
PI_F = F(884279719003555, 2 ** 48)
LEN_ABS = {"px": F(1), "in": F(96), "cm": F(9600, 254), "mm": F(960, 254), "pt": F(4, 3), "q": F(240, 254), "pc": F(16)}
ANG = {"deg": F(1), "turn": F(360), "grad": F(9, 10), "rad": F(180) / PI_F}
TIME = {"s": F(1), "ms": F(1, 1000)}
FREQ = {"hz": F(1), "khz": F(1000)}
RES = {"dppx": F(1), "dpi": F(1, 96), "dpcm": F(254, 9600)}
REL = ["em", "rem", "vw", "%"]
UNITS = list(LEN_ABS) + list(ANG) + list(TIME) + list(FREQ) + list(RES) + REL
FAMILY = {"len": list(LEN_ABS) + REL, "ang": list(ANG), "time": list(TIME), "freq": list(FREQ), "res": list(RES),
          "num": [""]}
NEW_UNITS = {"q", "pc", "grad", "rad", "hz", "khz", "dpi", "dpcm", "dppx"}     # added in round 3


def group(u):
    """convertibility class of a plain unit (None for unitless)."""
    if u == "":
        return None
    if u in LEN_ABS:
        return "abs"
    if u in ANG:
        return "ang"
    if u in TIME:
        return "time"
    if u in FREQ:
        return "freq"
    if u in RES:
        return "res"
    return u


def canon(u):
    return LEN_ABS.get(u) or ANG.get(u) or TIME.get(u) or FREQ.get(u) or RES.get(u) or F(1)


# ---------------------------------------------------------------------------------------------
# expression trees:  ('n', Fraction, unit) | ('o', op, l, r) | ('c', name, [args]) | ('s', id, paren)
#                    | ('i', id) | ('p', tree) redundant parens | ('v', tree) held in a Sass variable
#                    | ('m', num, num) a Sass variable holding `math.div(num, num)` (= `calc(num / num)`:
#                      both are `impl Div for SassNumber`, sass_number.rs:341)
# ---------------------------------------------------------------------------------------------
OPS = "+-*/"
PREC = {"+": 5, "-": 5, "*": 6, "/": 6}


def dec(fr):
    """shortest plain decimal of a Fraction with a power-of-ten denominator."""
    neg = fr < 0
    fr = abs(fr)
    s = str(fr.numerator // fr.denominator)
    r = fr - fr.numerator // fr.denominator
    digs = ""
    while r and len(digs) < 12:
        r *= 10
        digs += str(r.numerator // r.denominator)
        r -= r.numerator // r.denominator
    assert r == 0, fr
    return ("-" if neg else "") + s + ("." + digs if digs else "")


class Src:
    """renders a tree as SCSS (variables hoisted into declarations) and as the driver's tree."""

    def __init__(self):
        self.decls = []
        self.var_trees = []      # calculations held in variables, in declaration (= evaluation) order

    def text(self, t):
        k = t[0]
        if k == "n":
            return dec(t[1]) + t[2]
        if k == "s":
            return f"(var(--a{t[1]}))" if t[2] else f"var(--a{t[1]})"
        if k == "i":
            return '(#{"var(--a%d)"})' % t[1]
        if k == "p":
            return "(" + self.text(t[1]) + ")"
        if k == "v":
            inner = t[1]
            body = self.text(inner) if inner[0] != "s" else f"var(--a{inner[1]})"
            name = f"$v{len(self.decls)}"
            self.decls.append(f"{name}: {body};")
            if inner[0] == "c":
                self.var_trees.append(inner)
            return name
        if k == "m":
            name = f"$v{len(self.decls)}"
            self.decls.append(f"{name}: math.div({self.text(t[1])}, {self.text(t[2])});")
            self.var_trees.append(("c", "calc", [("o", "/", t[1], t[2])]))
            return name
        if k == "c":
            return t[1] + "(" + ", ".join(self.text(a) for a in t[2]) + ")"
        if k == "o":
            _, op, l, r = t
            ls, rs = self.text(l), self.text(r)
            if l[0] == "o" and PREC[l[1]] < PREC[op]:
                ls = "(" + ls + ")"
            if r[0] == "o" and PREC[r[1]] <= PREC[op]:
                rs = "(" + rs + ")"
            return f"{ls} {op} {rs}"
        raise ValueError(t)


def strip(t):
    while t[0] in ("p", "v"):
        t = t[1]
    if t[0] == "m":
        return ("o", "/", t[1], t[2])
    return t


def unit_enc(u):
    return u if u else "-"


def tree_enc(t):
    k = t[0]
    if k == "n":
        return f"n {t[1].numerator}/{t[1].denominator} {unit_enc(t[2])}"
    if k == "s":
        return f"s {t[1]} {1 if t[2] else 0}"
    if k == "i":
        return f"i {t[1]}"
    if k == "p":
        inner = t[1]
        # `(var(--x))` is special-cased by the visitor (visitor.rs:2592): the text keeps its parentheses
        if inner[0] == "s" and not inner[2]:
            return f"s {inner[1]} 1"
        return tree_enc(inner)
    if k == "v":
        return tree_enc(t[1])
    if k == "m":
        return f"o / {tree_enc(t[1])} {tree_enc(t[2])}"
    if k == "c":
        return f"c {t[1]} {len(t[2])} " + " ".join(tree_enc(a) for a in t[2])
    if k == "o":
        return f"o {t[1]} {tree_enc(t[2])} {tree_enc(t[3])}"
    raise ValueError(t)


def size(t):
    k = t[0]
    if k in ("n", "s", "i"):
        return 1
    if k in ("p", "v"):
        return size(t[1])
    if k == "m":
        return 3
    if k == "c":
        return 1 + sum(size(a) for a in t[2])
    return 1 + size(t[2]) + size(t[3])


def units_of(t, acc=None):
    """the set of plain units written in the source tree"""
    acc = set() if acc is None else acc
    k = t[0]
    if k == "n":
        acc.add(t[2])
    elif k in ("p", "v"):
        units_of(t[1], acc)
    elif k == "c":
        for a in t[2]:
            units_of(a, acc)
    elif k == "o":
        units_of(t[2], acc)
        units_of(t[3], acc)
    elif k == "m":
        units_of(t[1], acc)
        units_of(t[2], acc)
    return acc


def has_kind(t, kind):
    k = t[0]
    if k == kind:
        return True
    if k in ("p", "v"):
        return has_kind(t[1], kind)
    if k == "c":
        return any(has_kind(a, kind) for a in t[2])
    if k == "o":
        return has_kind(t[2], kind) or has_kind(t[3], kind)
    return False


NATOMS = 4


class Gen:
    def __init__(self, rng):
        self.rng = rng

    def number(self, fam):
        r = self.rng
        u = r.choice(FAMILY[fam])
        x = r.random()
        if x < 0.45:
            v = F(r.randint(-12, 30))
        elif x < 0.8:
            v = F(r.randint(-400, 900), 10 ** r.choice([1, 1, 2, 3]))
        elif x < 0.9:
            v = F(r.choice([0, 1, -1, 96, 100, 360, 1000, 254, 72]))
        else:
            v = F(r.randint(1, 99999), 10 ** r.randint(3, 6))
        return ("n", v, u)

    def leaf(self, fam):
        r = self.rng
        x = r.random()
        if x < 0.80:
            n = self.number(fam)
            if r.random() < 0.04:
                # math.div of two literal numbers flowing into the calculation through a variable
                d = ("n", F(0), "") if r.random() < 0.2 else self.number("num")
                return ("m", n, d)
            return ("v", n) if r.random() < 0.08 else n
        if x < 0.88:
            return ("s", r.randrange(NATOMS), False)
        if x < 0.92:
            return ("p", ("s", r.randrange(NATOMS), False))
        if x < 0.96:
            return ("i", r.randrange(NATOMS))
        return ("v", ("s", r.randrange(NATOMS), False))

    def other(self, fam):
        fams = [f for f in FAMILY if f != fam and (f != "num" or self.rng.random() < 0.3)]
        return self.rng.choice(fams or ["num"])

    def expr(self, fam, depth):
        """an operand of family `fam` (what + - min max clamp need to agree on)."""
        r = self.rng
        if depth <= 0 or r.random() < 0.3:
            return self.leaf(fam if r.random() > 0.03 else self.other(fam))
        x = r.random()
        if x < 0.40:
            op = r.choice("+-")
            t = ("o", op, self.expr(fam, depth - 1), self.expr(fam if r.random() > 0.04 else self.other(fam), depth - 1))
        elif x < 0.58:
            if r.random() < 0.5:
                t = ("o", "*", self.expr(fam, depth - 1), self.expr("num", depth - 1))
            else:
                t = ("o", "*", self.expr("num", depth - 1), self.expr(fam, depth - 1))
            if r.random() < 0.03:
                t = ("o", "*", self.expr(fam, depth - 1), self.expr(fam, depth - 1))
        elif x < 0.74:
            y = r.random()
            if fam == "num" and y < 0.3:
                f2 = r.choice(["len", "ang", "time", "freq", "res"])
                t = ("o", "/", self.expr(f2, depth - 1), self.expr(f2, depth - 1))
            elif y < 0.05:
                t = ("o", "/", self.expr(fam, depth - 1), ("n", F(0), r.choice(["", "", "", "px", "s"])))   # a literal zero divisor
            elif y < 0.96:
                t = ("o", "/", self.expr(fam, depth - 1), self.expr("num", depth - 1))
            else:
                t = ("o", "/", self.expr("num", depth - 1), self.expr(fam, depth - 1))
        else:
            t = self.call(fam, depth - 1)
        if r.random() < 0.05:
            t = ("p", t)
        if r.random() < 0.05 and t[0] == "c":
            t = ("v", t)
        return t

    def call(self, fam, depth, name=None):
        r = self.rng
        name = name or r.choice(["calc", "min", "max", "clamp", "min", "max"])
        if name == "calc":
            return ("c", "calc", [self.expr(fam, depth)])
        if name == "clamp":
            n = 3 if r.random() < 0.97 else r.choice([1, 2])
            return ("c", "clamp", [self.expr(fam, depth) for _ in range(n)])
        n = r.choice([1, 2, 2, 2, 3, 3, 4])
        return ("c", name, [self.expr(fam, depth) for _ in range(n)])

    def top(self, depth):
        fam = self.rng.choice(["len", "len", "len", "ang", "ang", "time", "freq", "res", "num"])
        if self.rng.random() < 0.03:
            # `calc(L / 0)`: the zero divisor is the outermost operation, so grass prints the non-finite number itself
            return ("c", "calc", [("o", "/", self.expr(fam, depth - 1), ("n", F(0), self.rng.choice(["", "", "px", "s"])))])
        return self.call(fam, depth)


# ---------------------------------------------------------------------------------------------
# reading grass's output
# ---------------------------------------------------------------------------------------------
_LEX = re.compile(r"\s*(?:(calc|min|max|clamp)\(|var\(--a(\d+)\)|(-?(?:\d+\.?\d*|\.\d+)(?:e[+-]?\d+)?)([a-zA-Z%]*)"
                  r"|([-+*/(),]))")


class Unreadable(Exception):
    pass


def lex(value):
    """grass's printed value -> driver tokens.  A `-` directly followed by a digit is a sign (binary
    operators are always printed with spaces around them)."""
    toks, i, n = [], 0, len(value)
    value = value.strip()
    n = len(value)
    while i < n:
        m = _LEX.match(value, i)
        if not m or m.end() == i:
            raise Unreadable(value[i:i + 20])
        i = m.end()
        if m.group(1):
            toks.append("F:" + m.group(1))
        elif m.group(2) is not None:
            toks.append("A:" + m.group(2))
        elif m.group(3) is not None:
            fr = F(m.group(3))
            u = m.group(4).lower()          # grass prints `Hz` / `kHz` (unit/mod.rs:288)
            if u and u not in UNITS:
                raise Unreadable("unit " + u)
            toks.append(f"N:{fr.numerator}/{fr.denominator}:{unit_enc(u)}")
        else:
            toks.append(m.group(5))
    return toks


_RULE = re.compile(r"i: (\d+);\s*v: ([^;]*);")


def err_class(msg):
    msg = msg or ""
    if msg.endswith("are incompatible."):
        return "incompatible"
    if "isn't compatible with CSS calculations" in msg:
        return "complex-in-calc"
    if "arguments required, but only" in msg:
        return "bad-length"
    if "isn't a valid CSS value" in msg:
        return "invalid-css-value"
    return "other:" + msg[:60]


# ---------------------------------------------------------------------------------------------
# python-side oracle: fully-known, mutually convertible units => the plain number
# ---------------------------------------------------------------------------------------------
class NotPlain(Exception):
    pass


def plain_value(t):
    """(canonical value, group) if `t` is built from numbers whose units are all mutually convertible
    (or all unitless) with + - everywhere between equal groups and * / only by unitless numbers;
    raises NotPlain otherwise.  Exact rationals; independent of the Lean model."""
    t = strip(t)
    k = t[0]
    if k == "n":
        return t[1] * canon(t[2]), group(t[2])
    if k in ("s", "i"):
        raise NotPlain()
    if k == "c":
        vals = [plain_value(a) for a in t[2]]
        gs = {g for _, g in vals}
        if len(gs) != 1:
            raise NotPlain()
        xs = [v for v, _ in vals]
        g = vals[0][1]
        if t[1] == "calc":
            if len(xs) != 1:
                raise NotPlain()
            return xs[0], g
        if t[1] == "min":
            return min(xs), g
        if t[1] == "max":
            return max(xs), g
        if len(xs) != 3:
            raise NotPlain()
        return max(xs[0], min(xs[1], xs[2])), g
    _, op, l, r = t
    (x, gx), (y, gy) = plain_value(l), plain_value(r)
    if op in "+-":
        if gx != gy:
            raise NotPlain()
        return (x + y if op == "+" else x - y), gx
    if op == "*":
        if gx is not None and gy is not None:
            raise NotPlain()
        return x * y, gx if gy is None else gy
    if gy is not None or y == 0:
        raise NotPlain()
    return x / y, gx


# ---------------------------------------------------------------------------------------------
# environments
# ---------------------------------------------------------------------------------------------
def make_envs(rng, n):
    envs = [[F(1), F(1), F(1), F(16), F(16), F(23, 10), F(91, 10), F(1), F(1)] + [F(7), F(-3), F(5, 2), F(11)]]
    while len(envs) < n:
        e = [F(rng.randint(1, 4000), rng.randint(1, 60)) for _ in range(9)]
        e += [F(rng.randint(-900, 900) or 1, rng.randint(1, 30)) for _ in range(NATOMS)]
        envs.append(e)
    return " | ".join(" ".join(f"{x.numerator}/{x.denominator}" for x in e) for e in envs)


# ---------------------------------------------------------------------------------------------
# fixed cases: minimised past failures and the witnesses of the known findings (run first)
# ---------------------------------------------------------------------------------------------
def N(v, u=""):
    return ("n", F(v), u)


CORPUS = [
    # D1 (fixed in /repo, 0ad6ed0): clamp(1, 2px, 3em) panicked converting px<->em
    ("c", "clamp", [N(1), N(2, "px"), N(3, "em")]),
    ("c", "clamp", [N(1), N(2, "em"), N(3, "px")]),
    # D40 (fixed in /repo, 26a5ec6): clamp with MAX < MIN < VAL returned MAX; CSS max(MIN, min(VAL, MAX)) is MIN
    ("c", "clamp", [N(5, "px"), N(10, "px"), N(3, "px")]),
    ("c", "calc", [("o", "+", N(1, "em"), ("c", "clamp", [N(1, "in"), N(200, "px"), N(1, "cm")]))]),
    # D41 (fixed in /repo, b057818): a unitless number next to a length in + / - was accepted; now an error
    ("c", "calc", [("o", "+", N(1), N(2, "px"))]),
    ("c", "min", [("o", "-", N(3, "%"), N(2)), N(1, "em")]),
    # sign flip, parenthesisation, nesting
    ("c", "calc", [("o", "-", N(1, "px"), ("o", "-", N(2, "em"), N(-3, "vw")))]),
    ("c", "calc", [("o", "+", N(1, "px"), ("o", "-", N(2, "em"), N(3, "vw")))]),
    ("c", "calc", [("o", "/", N(1, "px"), ("o", "*", ("s", 0, False), N(3)))]),
    ("c", "calc", [("o", "*", ("o", "+", N(1, "px"), N(2, "em")), ("o", "-", N(3), ("i", 1)))]),
    ("c", "calc", [("o", "+", N(1, "px"), ("c", "calc", [("o", "+", N(2, "em"), N(3, "vw"))]))]),
    ("c", "calc", [("o", "*", N(2), ("p", ("s", 2, False)))]),
    ("c", "max", [N(1, "em"), N(2), N(3, "px")]),
    ("c", "min", [N(1), N(2, "px"), N(3, "em")]),
    ("c", "calc", [("o", "/", N(1, "px"), N(0))]),
    ("c", "calc", [("o", "+", N(1, "in"), N(1, "cm"))]),
    ("c", "calc", [("o", "/", ("o", "*", N(1, "px"), N(1, "px")), N(1, "in"))]),
    ("c", "min", [N(1, "in"), N(96, "px"), N("2.54", "cm")]),
    # a variable may hold a number with a compound unit (never serialized); the use site reports it
    ("c", "min", [("v", ("c", "calc", [("o", "*", N(10, "turn"), N(-12, "px"))])), N(1, "px")]),
    ("c", "calc", [("o", "/", ("v", ("c", "calc", [("o", "*", N(10, "px"), N(2, "px"))])), N(4, "px"))]),
    # round 3: the whole conversion table
    ("c", "calc", [("o", "+", N(1, "rad"), N(1, "deg"))]),
    ("c", "calc", [("o", "+", N(1, "q"), N(1, "pc"))]),
    ("c", "calc", [("o", "+", N(1, "khz"), N(1, "hz"))]),
    ("c", "calc", [("o", "+", ("o", "+", N(1, "dpi"), N(1, "dppx")), N(1, "dpcm"))]),
    ("c", "max", [N(1, "turn"), N(399, "grad"), N("6.3", "rad")]),
    ("c", "calc", [("o", "+", N(1, "dpi"), N(1, "px"))]),
    ("c", "calc", [("o", "*", N(1, "hz"), N(1, "s"))]),
    # round 3: zero divisors (grass goes on with IEEE Infinity / NaN)
    ("c", "calc", [("o", "/", N(-1, "px"), N(0))]),
    ("c", "calc", [("o", "/", N(0, "px"), N(0))]),
    ("c", "calc", [("o", "/", ("o", "-", N(1, "in"), N(100, "px")), N(0))]),
    ("c", "calc", [("o", "+", ("o", "/", N(1, "em"), N(0)), N(1, "px"))]),
    ("c", "min", [("o", "/", N(1, "px"), N(0)), ("o", "/", N(0, "px"), N(0))]),
    ("c", "clamp", [("o", "/", N(0, "px"), N(0)), ("o", "/", N(1, "px"), N(0)), N(3, "px")]),
    ("c", "calc", [("o", "+", ("m", N(1, "px"), N(0)), N(1, "em"))]),
    ("c", "calc", [("o", "+", ("m", N(1, "px"), N(4)), N(1, "px"))]),
]


# ---------------------------------------------------------------------------------------------
# the run
# ---------------------------------------------------------------------------------------------
def stylesheet(cases):
    """[(index, tree)] -> scss text"""
    out = []
    for idx, t in cases:
        s = Src()
        body = s.text(t)
        out.append("x{i:%d; %s v: %s}" % (idx, " ".join(s.decls), body))
    return '@use "sass:math";\n' + "\n".join(out)


def observe(pool, cases, batch=150):
    """compile every case; returns {index: ('ok', value text) | ('err', class, message) | ('panic', msg) | (status,)}"""
    res = {}
    chunks = [cases[i:i + batch] for i in range(0, len(cases), batch)]
    answers = pool.map([compile_job(stylesheet(c), syntax="scss") for c in chunks], timeout=30)
    retry = []
    for c, a in zip(chunks, answers):
        if a.get("status") == "ok":
            found = {int(m.group(1)): m.group(2) for m in _RULE.finditer(a["css"])}
            for idx, t in c:
                if idx in found:
                    res[idx] = ("ok", found[idx])
                else:
                    retry.append((idx, t))
        else:
            retry += c
    if retry:
        answers = pool.map([compile_job(stylesheet([c]), syntax="scss") for c in retry], timeout=15)
        for (idx, t), a in zip(retry, answers):
            st = a.get("status")
            if st == "ok":
                m = _RULE.search(a["css"])
                res[idx] = ("ok", m.group(2)) if m else ("lost", a["css"][:200])
            elif st == "err":
                msg = (a.get("err") or {}).get("message")
                res[idx] = ("err", err_class(msg), msg)
            elif st == "panic":
                res[idx] = ("panic", str(a.get("panic"))[:300])
            else:
                res[idx] = (st,)
    return res


_CHECK = re.compile(r"ok plain=(\d) tie=(\d) val=(\S+) defined=(\d+) reprint=(\d) specsame=(\d) spec=(\S+) css=(\d) strict=(\S+) model= (.*?) impl= (.*)$")


def source_of(t):
    s = Src()
    body = s.text(t)
    use = '@use "sass:math"; ' if any("math.div" in d for d in s.decls) else ""
    return use + "x{%sv: %s}" % ("".join(d + " " for d in s.decls), body), s.var_trees


def evaluate(ck, pool, trees, envs, label):
    """tie + direct oracle on `trees`; returns list of failure payloads (each with `tags`)."""
    cases = list(enumerate(trees))
    srcs = [source_of(t) for t in trees]
    # The model first.  Calculations held in variables are evaluated by grass at their declaration, i.e.
    # before the main expression: the expected outcome is the first failing declaration, else the main one.
    lines, span = [], []
    for (i, t), (_, vts) in zip(cases, srcs):
        span.append((len(lines), len(vts)))
        lines += ["calc visit now " + tree_enc(v) for v in vts] + ["calc simp now " + tree_enc(t)]
    raw = driver(lines)
    mouts = []
    for off, nv in span:
        bad = [r for r in raw[off:off + nv] if not r.startswith("ok ")]
        mouts.append(bad[0] if bad else raw[off + nv])
    oks = [(i, t) for (i, t), m in zip(cases, mouts) if m.startswith("ok ")]
    errs = [(i, t) for (i, t), m in zip(cases, mouts) if not m.startswith("ok ")]
    obs = observe(pool, oks)
    obs.update(observe(pool, errs, batch=1))
    lines, meta = [], []
    for (i, t), m in zip(cases, mouts):
        o = obs[i]
        if m == "err non-finite":
            lines.append("calc nf now " + tree_enc(t))
            meta.append("nonfinite" if o[0] == "ok" and ("Infinity" in o[1] or "NaN" in o[1]) else "none")
        elif o[0] == "ok" and not ("Infinity" in o[1] or "NaN" in o[1]):
            try:
                toks = lex(o[1])
                lines.append(f"calc check {envs} ; {tree_enc(t)} ; " + " ".join(toks))
                meta.append("check")
            except Unreadable as e:
                lines.append("ping")
                meta.append("unreadable:" + str(e))
        else:
            lines.append("ping")
            meta.append("nonfinite" if o[0] == "ok" else "none")
    douts = driver(lines)
    failures = []
    for (i, t), (src, _), m, how, d in zip(cases, srcs, mouts, meta, douts):
        o = obs[i]
        enc = tree_enc(t)
        if m == "bad-op" or d == "bad-op":
            ck.cov["unsupported_dropped"] += 1
            continue
        ck.count(enc, nontrivial=any(strip(a)[0] in ("o", "c") for a in t[2]))
        ck.hist(f"{label}size:{min(size(t), 16)}")
        ck.hist("top:" + t[1])
        us = units_of(t)
        for u in us & NEW_UNITS:
            ck.hist("unit:" + u)
        fams = {group(u) for u in us if u}
        for fm in fams & {"ang", "time", "freq", "res", "abs"}:
            ck.hist("family:" + fm)
        if has_kind(t, "m"):
            ck.hist("source:math.div-in-variable")
        base = {"source": src, "tree": enc, "model": m, "impl": list(o)[:3]}
        if i % 701 == 0:
            ck.sample({"source": src, "impl": o[1] if len(o) > 1 else o[0], "model": m[:160]})
        # ---- no input may panic / hang ------------------------------------------------------
        if o[0] not in ("ok", "err"):
            ck.hist("impl:" + o[0])
            failures.append(dict(base, why="implementation " + o[0], tags=[]))
            if m != "panic":
                disagree(ck, base)
            continue
        if m == "panic":
            disagree(ck, base)
            continue
        # ---- division by zero: the real code goes on with +-Infinity / NaN (IEEE), the model stops; the
        #      source denotes no finite quantity, so there is nothing to preserve.  Only "no panic" applies.
        if m == "err non-finite":
            ck.hist("model:non-finite(zero divisor):impl:" + ("nonfinite-text" if how == "nonfinite" else o[0]))
            # `calc(L / 0)` with a literal zero: the Lean `nonFiniteTop` gives class and unit of what grass prints
            nf = d.split()
            if nf[0] == "ok" and "*" not in nf[2] and "/" not in nf[2] and not (nf[1] == "NaN" and nf[3] != "1"):
                want = nf[1] + {"-": "", "hz": "Hz", "khz": "kHz"}.get(nf[2], nf[2])
                ck.hist("nonfinite:top:" + nf[1])
                if o[0] != "ok" or o[1].strip() != want:
                    disagree(ck, dict(base, want=want))
            continue
        # ---- error cases by class -------------------------------------------------------------
        if o[0] == "err":
            ck.hist("impl:err:" + o[1].split(":")[0])
            if m != "err " + o[1]:
                disagree(ck, base)
            continue
        # ---- the implementation produced a value -----------------------------------------------
        if how == "nonfinite":
            ck.hist("impl:nonfinite")
            disagree(ck, base)
            failures.append(dict(base, why="non-finite output for an expression without a zero divisor", tags=[]))
            continue
        if how.startswith("unreadable"):
            ck.hist("impl:unreadable")
            disagree(ck, base)
            failures.append(dict(base, why="output not in the calc grammar: " + how, tags=[]))
            continue
        mm = _CHECK.match(d)
        if not mm:
            ck.hist("impl:unparsed")
            disagree(ck, base)
            failures.append(dict(base, why="output not parsed by the calc grammar: " + d[:80], tags=[]))
            continue
        plain, tie, val, defined, reprint, specsame, spec, cssame, strict, model, impl = mm.groups()
        base["driver"] = d[:400]
        ck.hist("impl:ok:" + ("number" if impl.startswith("n ") else "calculation"))
        ck.hist(f"envs-defined:{defined}")
        if tie != "1":
            disagree(ck, base)
        if reprint != "1":
            failures.append(dict(base, why="print/re-parse of the source changed its value", tags=[]))
        if not model.startswith("ok "):
            continue                     # main expression rejected by the model but accepted by grass: tie already counted
        coerced = model.startswith("ok 1")
        ck.hist("coerced(outside CSS semantics)" if coerced else "in-scope")
        # class tags for deviations between the model of the code and a stricter variant (none at present:
        # Cfg.now is the specified behaviour since the fixes for D40/D41, so these never fire)
        tags = []
        if tie == "1":
            if strict == "incompatible":
                tags.append("D41-unitless-accepted")
            if cssame != "1":
                tags.append("D40-clamp-max-below-min")
        # (c) direct: value preserved under every environment (outside Sass's unitless coercion in min/max)
        if not coerced and val != "holds":
            failures.append(dict(base, why="value not preserved: " + val, tags=[x for x in tags if x.startswith("D40")]))
        elif "D41-unitless-accepted" in tags:
            ck.hist("D41-unitless-accepted")
            failures.append(dict(base, why="provably incompatible operands (unitless with a unit) accepted", tags=tags))
        # (c'') the Lean predicate `plain` (hypothesis of C16_known_units_reduce/_value) on the source: grass's
        #       own output must then be a plain number (its value is judged by `val` above)
        if plain == "1":
            ck.hist("lean-plain(known convertible units)")
            if not impl.startswith("n "):
                failures.append(dict(base, why="known, mutually convertible units (Lean `plain`) but the output is not a plain number",
                                     tags=[]))
        # (c') model-independent: known convertible units => the plain number exact arithmetic gives
        try:
            v, g = plain_value(t)
        except NotPlain:
            continue
        ck.hist("plain-number-oracle")
        ok_plain = False
        mnum = re.match(r"n (-?\d+)(?:/(\d+))? (\S+)$", impl)
        if mnum:
            x = F(int(mnum.group(1)), int(mnum.group(2) or 1))
            u = "" if mnum.group(3) == "-" else mnum.group(3)
            if group(u) == g and abs(x * canon(u) - v) <= (F(6, 10 ** 11) + abs(x) / 10 ** 12) * canon(u):
                ok_plain = True
        if not ok_plain:
            failures.append(dict(base, why=f"known units: expected the plain number {float(v)} (canonical unit of {g})",
                                 tags=[x for x in tags if x.startswith("D40")]))
    return failures


def gen_textual(rng):
    """an argument list containing `#{…}` at parenthesis depth 0: grass takes the whole list as one
    interpolated string (parse/value.rs:1442 contains_calculation_interpolation), so the expected output
    is the textual substitution, unsimplified."""
    g = Gen(rng)

    def operand():
        x = rng.random()
        if x < 0.75:
            n = g.number(rng.choice(["len", "len", "num", "ang", "time", "freq", "res"]))
            return dec(n[1]) + n[2]
        return f"var(--a{rng.randrange(NATOMS)})"

    def arg():
        k = rng.choice([1, 2, 2, 3])
        parts = [operand()]
        for _ in range(k - 1):
            parts.append(rng.choice([" + ", " - ", " * ", " / "]))
            parts.append(operand())
        return parts

    name = rng.choice(["calc", "calc", "min", "max", "clamp"])
    nargs = 1 if name == "calc" else (3 if name == "clamp" else rng.choice([1, 2, 3]))
    args = [arg() for _ in range(nargs)]
    ai = rng.randrange(nargs)
    oi = rng.randrange(0, len(args[ai]), 2)
    inner = args[ai][oi]
    how = rng.random()
    decl = ""
    if how < 0.4:
        hole = "#{%s}" % inner
    elif how < 0.7:
        inner = inner + rng.choice([" + ", " * "]) + operand()
        hole = '#{"%s"}' % inner
    else:
        decl = "$iv: %s; " % inner
        hole = "#{$iv}"
    src_args, exp_args = [], []
    for k, a in enumerate(args):
        src_args.append("".join(hole if (k == ai and j == oi) else p for j, p in enumerate(a)))
        exp_args.append("".join(inner if (k == ai and j == oi) else p for j, p in enumerate(a)))
    return decl, f"{name}({', '.join(src_args)})", f"{name}({', '.join(exp_args)})"


def evaluate_textual(ck, pool, n):
    cases = [gen_textual(ck.rng) for _ in range(n)]
    sheet = "\n".join("x{i:%d; %sv: %s}" % (i, d, s) for i, (d, s, _) in enumerate(cases))
    a = pool.map([compile_job(sheet, syntax="scss")], timeout=30)[0]
    failures = []
    if a.get("status") != "ok":
        singles = pool.map([compile_job("x{i:%d; %sv: %s}" % (i, d, s), syntax="scss") for i, (d, s, _) in enumerate(cases)], timeout=15)
        found = {}
        for i, r in enumerate(singles):
            if r.get("status") == "ok":
                m = _RULE.search(r["css"])
                found[i] = m.group(2) if m else None
            else:
                found[i] = ("!", r.get("status"), (r.get("err") or {}).get("message") or r.get("panic"))
    else:
        found = {int(m.group(1)): m.group(2) for m in _RULE.finditer(a["css"])}
    for i, (d, src, exp) in enumerate(cases):
        got = found.get(i)
        ck.count("T " + d + src, nontrivial=True)
        ck.hist("interpolated-argument-list")
        base = {"source": "x{%sv: %s}" % (d, src), "tree": "textual", "model": exp, "impl": [str(got)]}
        if isinstance(got, tuple):
            ck.hist("interpolated:impl:" + str(got[1]))
            if got[1] != "err":
                failures.append(dict(base, why="implementation " + str(got[1]), tags=[]))
            else:
                disagree(ck, base)
            continue
        try:
            same = got is not None and lex(got) == lex(exp)
        except Unreadable:
            same = False
        if not same:
            disagree(ck, base)
            failures.append(dict(base, why="interpolated argument list is not the textual substitution", tags=[]))
    return failures


def disagree(ck, base):
    ck.cov["model_disagreements"] += 1
    if len(ck.disagreements) < 5:
        ck.disagreements.append(base)


TABLE_RE = re.compile(r"from_(\w+)\.insert\(Unit::(\w+),\s*([^;]*)\);")
RUST_UNIT = {"In": "in", "Cm": "cm", "Mm": "mm", "Pt": "pt", "Px": "px", "Deg": "deg", "Turn": "turn", "S": "s", "Ms": "ms",
             "Q": "q", "Pc": "pc", "Grad": "grad", "Rad": "rad", "Hz": "hz", "Khz": "khz", "Dpi": "dpi", "Dpcm": "dpcm",
             "Dppx": "dppx"}
TABLE_ROWS = 82          # every `insert` of UNIT_CONVERSION_TABLE (49 lengths, 16 angles, 4 times, 4 frequencies, 9 resolutions)


def table_tie(ck):
    """the Lean `table` against unit/conversion.rs, entry by entry (exact rationals; `PI` is the f64 constant, exactly)."""
    path = os.path.join(REPO, "crates/compiler/src/unit/conversion.rs")
    try:
        text = open(path).read()
    except OSError:
        ck.notes.append("conversion.rs not found: table tie skipped")
        return
    rows = []
    for to, frm, expr in TABLE_RE.findall(text):
        to_u = RUST_UNIT.get(to.capitalize())
        frm_u = RUST_UNIT.get(frm)
        if not to_u or not frm_u:
            continue
        val = eval(re.sub(r"(\d+\.\d+|\d+)", lambda m: f"F('{m.group(1)}')", expr), {"F": F, "PI": PI_F})
        rows.append((to_u, frm_u, val))
    outs = driver([f"calc table {t} {f}" for t, f, _ in rows])
    bad = [(t, f, str(v), o) for (t, f, v), o in zip(rows, outs) if o != "ok " + (str(v.numerator) if v.denominator == 1 else f"{v.numerator}/{v.denominator}")]
    ck.hist("table-entries", len(rows))
    ck.cov["translator_ok"] = not bad and len(rows) >= TABLE_ROWS
    if bad or len(rows) < TABLE_ROWS:
        ck.cov["model_disagreements"] += 1
        ck.disagreements.append({"table": bad[:5], "rows": len(rows)})


def run(tier, seed):
    ck = Check("C16", tier, seed)
    ck.disagreements = []
    ck.cov["rule"] = ("family-directed random calculation expressions (length/angle/time/unitless; ~6% deliberately mixed) of "
                      "depth <= 4 over + - * / with every unit of the conversion table (px in cm mm q pt pc, deg grad rad turn, "
                      "s ms, Hz kHz, dpi dpcm dppx), em rem vw % and unitless numbers, nested calc/min/max/clamp, var(), "
                      "parenthesised interpolation, Sass variables holding numbers/calculations/strings/math.div results, "
                      "literal zero divisors (~4% of divisions, 3% as the outermost operation), redundant parentheses; one `x{i:N; v: <expr>}` rule per case. Distinct by the encoded tree; "
                      "non-trivial when it contains an operation or a nested calculation.")
    ck.assumptions = ["grass observed through its printed value, lexed by tools/props/c16.py and parsed by the Lean reader `parseToks`",
                      "printed numbers carry an absolute error <= 6e-11 + 1e-12*|x| (10 fractional digits, f64 arithmetic)",
                      "unit environments: positive rationals for px, deg, s (scales of the convertible kinds), em, rem, %, vw; "
                      "opaque operands get arbitrary non-zero rationals"]
    t0 = time.time()
    ck.do_prove(cores=("calc",))
    ck.notes.append(f"proof step (lake build incl. lock wait, scan, audit): {time.time() - t0:.1f}s")
    if not ck.do_build_runner():
        ck.unproved("correspondence-broken", {"why": "runner does not build against /repo", "error": getattr(ck, "build_error", "")})
        return ck.finish()
    t1 = time.time()
    pool = RunnerPool()
    table_tie(ck)
    envs = make_envs(ck.rng, 6)
    g = Gen(ck.rng)
    n = 6000 if tier == "quick" else 80000
    if getattr(ck, "changed", None) and tier == "quick":
        n *= 2          # modelled sources differ from the validated snapshot: enlarge the search
    trees = list(CORPUS)
    for k in range(n):
        trees.append(g.top(ck.rng.choice([1, 2, 2, 3, 3, 4])))
    failures = []
    CH = 20000
    for off in range(0, len(trees), CH):
        failures += evaluate(ck, pool, trees[off:off + CH], envs, "")
    failures += evaluate_textual(ck, pool, 200 if tier == "quick" else 3000)
    if (not ck.proof["ok"] or ck.cov["model_disagreements"]) and not [f for f in failures if not f["tags"]] and tier == "quick":
        log("[C16] proof or correspondence broken: enlarging the search")
        more = [g.top(ck.rng.choice([2, 3, 4])) for _ in range(30000)]
        failures += evaluate(ck, pool, more, envs, "x")
    ck.notes.append(f"correspondence (cases, after the runner build): {time.time() - t1:.1f}s")
    failures.sort(key=lambda f: len(f["tree"]))
    reported = 0
    for f in failures:
        if ck.impl_violation(f["source"], f, tags=f["tags"]):
            reported += 1
    if ck.cov["model_disagreements"] and not reported:
        ck.unproved("correspondence-broken", {"correspondence": "Grass.Calc.compile Cfg.now vs grass", "cases": ck.disagreements})
    return ck.finish()


def replay(path):
    r = json.load(open(path))
    ck = Check("C16", "quick", 0)
    ck.disagreements = []
    ck.do_build_runner()
    pool = RunnerPool(1)
    cases = r.get("cases") or [r]
    for c in cases:
        src = c.get("source")
        if not src:
            print(json.dumps(c, indent=1)[:2000])
            continue
        a = pool.map([compile_job(src, syntax="scss")])[0]
        print("source:", src)
        print("grass :", a.get("status"), (a.get("css") or "").replace("\n", " ") or a.get("err") or a.get("panic"))
        if c.get("tree"):
            print("model :", driver(["calc simp now " + c["tree"]])[0])
            print("before 26a5ec6/b057818:", driver(["calc simp old " + c["tree"]])[0])
        print("recorded:", c.get("why"), "|", c.get("impl"))
    return 0
