"""C01 — Compilation is total: every input yields CSS or an error, never a crash or hang.

(a) PROOF   lean/GrassProofs/C01.lean over lean/Grass/Lexer.lean: every modelled character-level scanner
            terminates (accepted without fuel), makes progress, answers at once at end of input; error
            spans lie inside the file on character boundaries; unit conversion is guarded.
(b) TIE     scanner correspondence: inputs `<prefix><subject><suffix>` that put one scanner to work on the
            subject, in the three syntaxes; the model predicts `ok` (whole subject consumed, sentinel rule
            compiled) or the error class AND its byte span; cases the model does not predict
            (`unsupported`, scanner stopped inside the subject) are dropped and counted.
(c) DIRECT  P̂ on grass's own answer: status in {ok, err}; err kind in {parse, io, utf8}; Display rendered;
            the reported span satisfies the Lean predicate `spanInFile` (driver `lex span`).
    SEARCH  TESTING, not proof: the whole compiler under the worker monitor on a malformed stream, the
            golden corpus and near-miss mutations x syntax x style x options, @import/@use/@forward of
            generated files, non-UTF-8 entry bytes, deep nesting.
"""
import collections
import json
import re

import corpus
from props import c01_gen as g
from vlib import Check, RunnerPool, compile_job, driver, hexs, known_findings, log

MESSAGES = {
    "more-input": "expected more input.",
    "comment-end": "expected */.",
    "digit": "Expected digit.",
    "identifier": "Expected identifier.",
    "escape": "Expected escape sequence.",
    "expression": "Expected expression.",
    "code-point": "Invalid Unicode code point.",
    "quote-34": 'Expected ".',
    "quote-39": "Expected '.",
    "token": "Expected token.",
    "string": "Expected string.",
    "silent-css": "Silent comments aren't allowed in plain CSS.",
}

# nesting depth the property is taken to cover (see DESIGN §8 C01 "outside the model": stack
# exhaustion).  Up to this depth every construct must give ok/err; deeper inputs are run and what
# happens is reported in evidence, not judged.
NESTING_BOUND = 200


def message_for(cls):
    if cls.startswith("char-"):
        return 'expected "%s".' % chr(int(cls[5:]))
    return MESSAGES[cls]


# --------------------------------------------------------------------------------------------
# observation helpers
# --------------------------------------------------------------------------------------------

def byte_offset(src, line, col):
    """codemap's (line, column) -> byte offset: lines split on LF only, column counts chars."""
    lines = src.split("\n")
    if line >= len(lines):
        return None
    start = sum(len(l.encode("utf-8")) + 1 for l in lines[:line])
    return start + len(lines[line][:col].encode("utf-8"))


def err_span(src, e):
    lo = byte_offset(src, e.get("begin_line", 0), e.get("begin_col", 0))
    hi = byte_offset(src, e.get("end_line", 0), e.get("end_col", 0))
    return lo, hi


_PANIC_LOC = re.compile(r"@ (\S+?):(\d+)\s*$")


def panic_tag(ans):
    m = _PANIC_LOC.search(ans.get("panic") or "")
    if not m:
        return "panic@?"
    f = m.group(1)
    if "crates/compiler/src/" in f:
        f = f.split("crates/compiler/src/")[-1]
    elif "/registry/src/" in f:
        f = "dep:" + "/".join(f.split("/registry/src/")[-1].split("/")[1:])
    return f"panic@{f}:{m.group(2)}"


_LOOPY = re.compile(r"@\s*(while|for|each|include|mixin|function|import|use|forward)\b|@[^\s{;(]*\\", re.I)


def _wrap_text(src, syn):
    if syn == "sass":
        return "@if false\n" + "".join("  " + l + "\n" for l in src.split("\n"))
    if syn == "scss":
        return "@if false{\n" + src + "\n}"
    return None


def wrap_unevaluated(job):
    """The same text parsed but not evaluated: inside `@if false` (for a job over files: every file
    that has loop constructs of its own)."""
    j = json.loads(json.dumps(job))
    src = j.get("input")
    if src is not None:
        j["input"] = _wrap_text(src, j.get("options", {}).get("syntax", "scss"))
        return j if j["input"] is not None else None
    files = j.get("files") or {}
    done = False
    for name, text in list(files.items()):
        syn = name.rsplit(".", 1)[-1]
        if isinstance(text, str) and syn in ("scss", "sass") and _LOOP_ONLY.search(text):
            body = text
            # module rules must stay first: keep a leading run of @use/@forward lines outside the wrapper
            head = ""
            while True:
                m = re.match(r"\s*@(?:use|forward)[^;\n]*[;\n]", body)
                if not m:
                    break
                head += m.group(0)
                body = body[m.end():]
            if not _LOOP_ONLY.search(body):
                continue
            files[name] = head + (_wrap_text(body, syn) or body)
            done = True
    return j if done else None


# --------------------------------------------------------------------------------------------
# (b) TIE: scanner correspondence
# --------------------------------------------------------------------------------------------

SENT = {"scss": ";z{y:x}", "css": ";z{y:x}", "sass": "\nz\n  y: x\n"}

WS_ALPHA = [" ", "\t", "\n", "\r\n", "\r", "\f", "/", "*", "x", "//", "/*", "*/", "\u00e9", "/**/", "// c\n", "/* c */"]
STR_ALPHA = ['"', "'", "a", "\\", "\\\n", "\n", "\r", "\f", " ", "\\41 ", "\\0", "\\110000", "\\d800 ", "\u00e9", "#", "{",
             "\\\"", "1", "f", "\\'", "\\\r\n", "\U0001f600", "\\g", "\\a"]
ID_ALPHA = ["a", "b", "_", "-", "--", "1", "\\", "\\41 ", "\\41", "\\g", "\\\n", "\\0 ", "\\110000 ", "\u00e9", "\\ ", "\\d800 ",
            "z9", "\\1f600 ", "\\31 ", "\\-", "\\7f", "\\9\t", "A", "\\\r\n"]
NUM_ALPHA = ["0", "1", "9", ".", "e", "E", "+", "-", "%", "p", "x", "--", "_", "\\41 ", "e-", "5e3", ".5", "\u00e9"]
VAL_ALPHA = ["a", " ", "\n", "(", ")", "[", "]", "{", "}", ";", ":", '"', "'", "\\", "\\41 ", "/", "/*", "*/", "//", "#", "u", "url(",
             "url( ", "U", "RL(", ",", "!", "\u00e9", "-", "--", "1", "\t", '"s"', "'t'", "/* c */", "\\\n", "url(x)", "\r\n", "-a", "\\}"]
URL_ALPHA = ["a", " ", "\n", ")", "\\", "\\41 ", "#", "{", '"', "(", "\u00e9", "%", "!", "$", "/*", "*/", "\t", "&", "~", "\\\n", "\\)",
             "\x7f", "*", "\\110000 "]


def rand_subject(rng, alpha, lo=0, hi=9):
    return "".join(rng.choice(alpha) for _ in range(rng.randint(lo, hi)))


def small_subjects(alpha, maxlen):
    out = [""]
    frontier = [""]
    for _ in range(maxlen):
        frontier = [f + a for f in frontier for a in alpha]
        out += frontier
    return out


def tie_cases(ck, tier):
    """[(context, syntax, scanner-op, prefix, subject, suffix)]"""
    rng = ck.rng
    n = 260 if tier == "quick" else 4000
    cases = []

    def add(ctx, op, syns, prefix, subjects, suffix):
        for sub in subjects:
            for syn in syns:
                p = prefix[syn] if isinstance(prefix, dict) else prefix
                s = suffix[syn] if isinstance(suffix, dict) else suffix
                cases.append((ctx, syn, op, p, sub, s))

    all3 = ("scss", "sass", "css")
    # whitespace + comments, then a string: `@charset<S>"u";`
    subs = small_subjects([" ", "\n", "/", "*", "x"], 4 if tier == "quick" else 5)
    subs += [rand_subject(rng, WS_ALPHA, 1, 8) for _ in range(n)]
    # (`@charsetx` is not the @charset rule: the subject may not start with a name character)
    subs = [s for s in subs if not re.match(r"[A-Za-z0-9_\\\-\u0080-\U0010ffff]", s)]
    add("charset-ws", "ws+string", all3, "@charset", [s + '"u"' for s in subs], SENT)
    # quoted string (BaseParser::parse_string): `@charset <S>;` (whitespace() runs first)
    subs = [q + rand_subject(rng, STR_ALPHA, 0, 7) + rng.choice([q, q, ""]) for q in "\"'" for _ in range(n // 2)]
    subs += [rand_subject(rng, STR_ALPHA, 0, 4) for _ in range(n // 4)]
    add("charset-string", "ws+string", all3, "@charset", [" " + s for s in subs], SENT)
    # interpolated string in a value: `z{y: <S>}`
    subs = [q + rand_subject(rng, STR_ALPHA, 0, 7) + rng.choice([q, q, ""]) for q in "\"'" for _ in range(n // 2)]
    add("value-string", "istring", all3, {"scss": "z{y: ", "css": "z{y: ", "sass": "z\n  y: "}, subs,
        {"scss": "}", "css": "}", "sass": "\n"})
    # variable name: `$<S>:1;` (parse_identifier, normalize = true)
    subs = small_subjects(["a", "_", "-", "\\", "1"], 3) + [rand_subject(rng, ID_ALPHA, 0, 6) for _ in range(n)]
    add("variable-name", "identn", ("scss", "sass"), "$", subs, {"scss": ":1;z{y:x}", "sass": ":1\nz\n  y: x\n"})
    # at-rule name: `@q<S> x;` (parse_interpolated_identifier)
    subs = [rand_subject(rng, ID_ALPHA, 0, 6) for _ in range(n)]
    add("at-rule-name", "iident", all3, "@", ["q" + s for s in subs], {"scss": " x;z{y:x}", "css": " x;z{y:x}", "sass": " x\nz\n  y: x\n"})
    # number literal: `z{y: <S>}`
    subs = []
    for _ in range(n * 2):
        s = rng.choice(["", "", "+", "-"]) + rng.choice(["0", "1", "9", ".", "12", ".5"]) + rand_subject(rng, NUM_ALPHA, 0, 6)
        subs.append(s)
    add("value-number", "number", all3, {"scss": "z{y: ", "css": "z{y: ", "sass": "z\n  y: "}, subs,
        {"scss": "}", "css": "}", "sass": "\n"})
    # custom property value: `z{--p:<S>;y:x}` (parse_interpolated_declaration_value(false, false, true))
    subs = small_subjects(["a", "(", ")", "[", "{", "}", '"'], 3) + [rand_subject(rng, VAL_ALPHA, 0, 8) for _ in range(n * 2)]
    add("custom-property", "cpv", all3, {"scss": "z{--p:", "css": "z{--p:", "sass": "z\n  --p:"}, subs,
        {"scss": ";y:x}", "css": ";y:x}", "sass": "\n  y: x\n"})
    # unknown at-rule value: `@q <S>;` (almost_any_value)
    subs = [rand_subject(rng, VAL_ALPHA, 1, 8) for _ in range(n * 2)]
    add("unknown-at-rule", "almostany", all3, "@q ", subs, SENT)
    # url(): `z{y: url(<S>)}` (scan_identifier("url") + try_url_contents)
    subs = [rng.choice(["url(", "url(", "URL(", "url( ", "u\\72l(", "url"]) + rand_subject(rng, URL_ALPHA, 0, 6) + rng.choice([")", ")", ""])
            for _ in range(n)]
    add("value-url", "urlsheet", all3, {"scss": "z{y: ", "css": "z{y: ", "sass": "z\n  y: "}, subs,
        {"scss": "}", "css": "}", "sass": "\n"})
    # hex escapes at the edges of the scalar ranges (\d7ff \d800 \dfff \e000 \10ffff \110000 \0 …, 1-6 digits,
    # with/without the trailing space), exhaustively, in every context that consumes an escape
    esc = g.edge_escapes()
    add("charset-string", "ws+string", all3, "@charset", [' "' + e + '"' for e in esc] + [" '" + e + "x'" for e in esc], SENT)
    add("value-string", "istring", all3, {"scss": "z{y: ", "css": "z{y: ", "sass": "z\n  y: "}, ['"' + e + '"' for e in esc] + ['"a' + e + 'f"' for e in esc],
        {"scss": "}", "css": "}", "sass": "\n"})
    add("variable-name", "identn", ("scss", "sass"), "$", ["a" + e for e in esc] + [e + "a" for e in esc], {"scss": ":1;z{y:x}", "sass": ":1\nz\n  y: x\n"})
    add("at-rule-name", "iident", all3, "@", ["q" + e for e in esc], {"scss": " x;z{y:x}", "css": " x;z{y:x}", "sass": " x\nz\n  y: x\n"})
    add("custom-property", "cpv", all3, {"scss": "z{--p:", "css": "z{--p:", "sass": "z\n  --p:"}, ["a" + e + "b" for e in esc] + ['"' + e + '"' for e in esc],
        {"scss": ";y:x}", "css": ";y:x}", "sass": "\n  y: x\n"})
    add("unknown-at-rule", "almostany", all3, "@q ", ["a" + e + "b" for e in esc] + ['"' + e + '"' for e in esc], SENT)
    add("value-url", "urlsheet", all3, {"scss": "z{y: ", "css": "z{y: ", "sass": "z\n  y: "}, ["url(a" + e + ")" for e in esc] + ["u" + e[:0] + "\\72 l(" + e + ")" for e in esc[:20]],
        {"scss": "}", "css": "}", "sass": "\n"})
    # pseudo-class argument: `z:q(<S>){y:x}` (almost_any_value on the selector, then
    # BaseParser::declaration_value in the selector parser)
    # (comments are dropped from selector text before it is re-parsed: no comment openers here)
    subs = small_subjects(["a", "(", ")", "[", "]", '"'], 3) + [rand_subject(rng, VAL_ALPHA, 0, 8) for _ in range(n)]
    subs = [s for s in subs if "//" not in s and "/*" not in s]
    add("pseudo-argument", "pseudo", ("scss", "css"), "z:q(", subs, "){y:x}")
    return cases


def run_tie(ck, pool, tier):
    cases = tie_cases(ck, tier)
    lines = []
    for ctx, syn, op, pre, sub, suf in cases:
        if op == "pseudo":
            # first the stylesheet parser's almost_any_value over the whole selector
            lines.append(f"lex scan almostany {syn} - {hexs(pre + sub + ')')} {hexs(suf[1:])}")
            # the selector parser works on the selector's text alone: `z:q(<S>)`
            lines.append(f"lex scan declvalue {syn} {hexs(pre)} {hexs(sub)} {hexs(')')}")
        else:
            lines.append(f"lex scan {op} {syn} {hexs(pre)} {hexs(sub)} {hexs(suf)}")
            lines.append("ping")
    outs = driver(lines)
    jobs = [compile_job(pre + sub + suf, syntax=syn, quiet=True) for ctx, syn, op, pre, sub, suf in cases]
    answers = []
    for off in range(0, len(jobs), 20000):
        part = g.run_many(pool, jobs[off:off + 20000], timeout=5.0)
        # keep only what the comparison needs
        answers += [{k: a.get(k) for k in ("status", "err", "panic", "why", "display", "css") if k in a} for a in part]
    span_checks = []
    for k, ((ctx, syn, op, pre, sub, suf), ans) in enumerate(zip(cases, answers)):
        src = pre + sub + suf
        m1, m2 = outs[2 * k], outs[2 * k + 1]
        if op == "pseudo":
            t = m1.split()
            if t[0] != "ok" or t[1] != t[2]:
                pred = None                      # the selector text is not what the context intends
            else:
                t = m2.split()
                if t[0] == "ok":
                    # after declaration_value the selector parser expects `)`: only the whole-subject
                    # case is predicted
                    pred = ("ok",) if t[1] == t[2] else None
                elif t[0] == "err":
                    # a selector whose text is shorter than its source (CR LF became LF) is lexed as
                    # "expanded": every span is the whole selector (lexer.rs:39)
                    # — so is one whose text was re-assembled by almost_any_value (escapes, url( ) contents,
                    # quoted strings): there only the class is compared
                    exact = "\r\n" not in sub and "\\" not in sub and "url(" not in sub.lower() and not re.search("[\"']", sub)
                    pred = ("err", t[1], int(t[2]), int(t[3])) if exact else ("err", t[1], None, None)
                else:
                    pred = None
        else:
            t = m1.split()
            if t[0] == "ok":
                pred = ("ok",) if t[1] == t[2] else None
            elif t[0] == "err":
                pred = ("err", t[1], int(t[2]), int(t[3]))
            else:
                pred = None
        check_answer(ck, jobs[k], ans, span_checks, stream="tie:" + ctx)
        if pred is None:
            ck.cov["unsupported_dropped"] += 1
            ck.hist(f"tie:{ctx}:unpredicted")
            continue
        st = ans.get("status")
        if st == "ok":
            obs = ("ok",)
        elif st == "err" and ans.get("err", {}).get("kind") == "parse":
            lo, hi = err_span(src, ans["err"])
            cls = [c for c in list(MESSAGES) if MESSAGES[c] == ans["err"].get("message")]
            mm = re.match(r'expected "(.)"\.$', ans["err"].get("message") or "", re.S)
            name = cls[0] if cls else ("char-%d" % ord(mm.group(1)) if mm else "other:" + (ans["err"].get("message") or ""))
            obs = ("err", name, lo, hi)
        else:
            obs = (st,)
        nontrivial = pred[0] == "err" or len(sub) > 0
        ck.count(("tie", ctx, syn, sub), nontrivial)
        ck.hist(f"tie:{ctx}:{pred[0]}" + (":" + pred[1] if pred[0] == "err" else ""))
        if k % 1499 == 0:
            ck.sample({"context": ctx, "syntax": syn, "source": src, "model": m1 if op != "pseudo" else m2, "grass": list(obs)})
        if pred[0] == "err" and pred[2] is None and obs[0] == "err":
            obs = (obs[0], obs[1], None, None)
        if obs != pred:
            ck.cov["model_disagreements"] += 1
            if len(ck.disagreements) < 12:
                ck.disagreements.append({"context": ctx, "syntax": syn, "source": src, "model": list(pred), "grass": list(obs),
                                         "grass_message": ans.get("err", {}).get("message")})
    return span_checks


# --------------------------------------------------------------------------------------------
# (c) DIRECT predicate on one answer
# --------------------------------------------------------------------------------------------

def check_answer(ck, job, ans, span_checks, stream):
    """P̂ for one compile: records failures in ck.failures (judged after shrinking)."""
    st = ans.get("status")
    ck.hist(f"status:{st}")
    bad = None
    if st == "ok":
        if not isinstance(ans.get("css"), str):
            bad = ("no-css", "status ok without css")
    elif st == "err":
        kind = ans.get("err", {}).get("kind")
        ck.hist(f"errkind:{kind}")
        if kind not in ("parse", "io", "utf8"):
            bad = (f"errkind:{kind}", "error value is not ParseError/IoError/FromUtf8Error")
        elif not ans.get("display"):
            bad = ("display-empty", "Display of the error rendered nothing")
        elif kind == "parse":
            span_checks.append((job, ans))
    elif st == "panic":
        bad = (panic_tag(ans), ans.get("panic"))
    elif st in ("timeout", "abort"):
        bad = (st, ans.get("why") or "")
    else:
        bad = (f"status:{st}", json.dumps(ans)[:300])
    if bad:
        ck.failures.append({"tag": bad[0], "detail": bad[1], "job": job, "stream": stream})


def file_text(job, name):
    if job.get("input") is not None and name == "stdin":
        return job["input"]
    f = (job.get("files") or {}).get(name)
    if isinstance(f, str):
        return f
    if isinstance(f, dict) and "hex" in f:
        try:
            return bytes.fromhex(f["hex"]).decode("utf-8")
        except UnicodeDecodeError:
            return None
    return None


def run_span_checks(ck, span_checks):
    """`spanInFile` (the Lean predicate of C01_err_span_in_file) on the spans grass reports."""
    lines, idx = [], []
    for k, (job, ans) in enumerate(span_checks):
        e = ans["err"]
        src = file_text(job, e.get("file"))
        if src is None or len(src) > 4000:
            continue
        lo, hi = err_span(src, e)
        if lo is None or hi is None:
            ck.failures.append({"tag": "span-outside-file", "detail": f"line/col outside the file: {e}", "job": job, "stream": "span"})
            continue
        if e.get("file_len") is not None and e["file_len"] != len(src.encode("utf-8")):
            continue
        lines.append(f"lex span {hexs(src)} {lo} {hi}")
        idx.append(k)
    outs = driver(lines) if lines else []
    for k, o in zip(idx, outs):
        ck.hist("span-check:" + o)
        if o != "ok 1":
            job, ans = span_checks[k]
            ck.failures.append({"tag": "span-outside-file", "detail": f"spanInFile fails: {o} {ans['err']}", "job": job, "stream": "span"})
    ck.cov["span_checks"] = ck.cov.get("span_checks", 0) + len(lines)


# --------------------------------------------------------------------------------------------
# SEARCH (testing)
# --------------------------------------------------------------------------------------------

# minimised past failures and the witnesses of the known findings: run first on every run
CORPUS = [
    # C01-F1..F6: found by this check, FIXED in /repo (a26e908, 4c5b152, 972d06b, 5b804c2, 5c45d4b, ce10f52):
    # regression cases, must give ok/err now
    ("\n a", {"syntax": "sass"}),                      # F1 was panic@parse/sass.rs:201
    ("\n\t \n      @while\n", {"syntax": "sass"}),      # F1
    ("@import", {"syntax": "css"}),                    # F2 was panic@parse/stylesheet.rs:1017
    ("@import ]'\n", {"syntax": "css"}),               # F2
    ("@-moz-document", {"syntax": "css"}),             # F3 was panic@parse/stylesheet.rs:1128
    ("a{@-moz-document", {"syntax": "css"}),           # F3
    ("a\n /*\n", {"syntax": "sass"}),                  # F4 was panic@parse/sass.rs:295
    ("a\n  /*  \r*/ color: red;\n\n", {"syntax": "sass"}),   # F4
    ('a{b:selector-extend("a", ">", "b")}', {"syntax": "scss"}),   # F5 was panic@selector/complex.rs:340
    ('a{b:selector-replace("a", ">", "b")}', {"syntax": "scss"}),  # F5
    ('a{b:is-superselector("a", ":is(>)")}', {"syntax": "scss"}),  # F5
    (':is(a,>){@extend a}', {"syntax": "scss"}),       # F5, through @extend
    ('a{b:simple-selectors(">")}', {"syntax": "scss"}),            # F6 was panic@builtin/functions/selector.rs:44
    ('@use "sass:selector";a{b:selector.simple-selectors("> a")}', {"syntax": "scss"}),   # F6
    # found by other checks, fixed since (13dfaab, 5015dbf): regression cases
    ('a{b:selector-replace("a.x", ".x", "b")}', {"syntax": "scss"}),                                        # X1
    ('.y{x:y} @media screen{.y{@extend .y}} @media print{.y#i{@extend .y}}', {"syntax": "scss"}),            # X2
    ("/]/*#*[", {"syntax": "sass"}),                   # D2 (fixed): looped forever
    ("a{b:clamp(1, 2px, 3em)}", {"syntax": "scss"}),   # D1 (fixed): panicked in Number::convert
    ("$x: \"\"; a#{$x}\u00e9\u00e9\u00e9[ {b: c}", {"syntax": "scss"}),   # D19 (fixed): codemap char boundary
    ("@media screen{a{@extend %p}} @media print{a{@extend %p}} %p{b:c}", {"syntax": "scss"}),  # D17 (fixed)
]

CORPUS_FILES = [
    # X3 / X4: module map views (utils/map_view.rs), fixed since (cb68e5b, e12a9ef, 7ee64b7): regression cases
    ({"_mid.scss": '@forward "a" as p-* with ($z: 7 !default);', "_a.scss": "$z: 1 !default; $x: 2 !default;",
      "main.scss": '@use "mid" with ($p-x: 1);'}, "main.scss"),
    ({"_mid.scss": '@forward "a";', "_a.scss": "$z: 1;", "main.scss": '@use "mid"; mid.$nope: 1;'}, "main.scss"),
    # C01-F7 (round 3, fixed by d9251e4): a forwarded `!default` configuration value taken from an @import-ing file's
    # variable has no span of its own; assert_configuration_is_empty unwrapped Configuration::first() == None
    ({"in.scss": '$x: 1; @import "mid"; a { b: $x; c: $y; }', "_mid.scss": '@forward "leaf" with ($x: 2 !default);',
      "_leaf.scss": "$y: 3; leaf { k: v; }"}, "in.scss"),
]


def config_projects():
    """Round 3: every combination of how a configuration value can reach a module that does or does not declare it —
    importer/user defines the variable or not x @import/@use(with) x @forward with guarded/unguarded/absent x leaf
    declares it !default / plainly / not at all (three-file projects; the crash class of C01-F7)."""
    out = []
    for top in ('$x: 1; @import "mid";', '@import "mid";', '@use "mid" with ($x: 1);', '@use "mid";', '$x: 1; @use "mid";',
                '$x: null; @import "mid";', '@use "mid" with ($x: null);', '$x: 1; $w: 2; @import "mid";', '@use "mid" with ($x: 1, $w: 2);'):
        for fw in ('@forward "leaf" with ($x: 2 !default);', '@forward "leaf" with ($x: 2);', '@forward "leaf";',
                   '@forward "leaf" with ($x: 2 !default, $w: 3 !default);', '@forward "leaf" as p-* with ($x: 2 !default);',
                   '@use "leaf" with ($x: 2);', '@forward "leaf" show $y with ($x: 2 !default);'):
            for leaf in ("$y: 3; leaf { k: v; }", "$x: 0 !default; $y: 3; leaf { k: $x; }", "$x: 0; $y: 3; leaf { k: $x; }",
                         "$x: 0 !default; $w: 0 !default; $y: $x + $w;", ""):
                out.append(({"in.scss": top + " a { b: c; }", "_mid.scss": fw, "_leaf.scss": leaf}, "in.scss"))
    return out

OPTION_SETS = [{}, {"style": "compressed"}, {"unicode": False}, {"charset": False}, {"style": "compressed", "unicode": False, "charset": False}]


def with_opts(rng, syntax=None):
    o = dict(rng.choice(OPTION_SETS))
    o["syntax"] = syntax or rng.choice(["scss", "scss", "sass", "sass", "css"])
    o["quiet"] = rng.random() < 0.7
    return o


def search_jobs(ck, tier, cases):
    rng = ck.rng
    quick = tier == "quick"
    jobs = []          # (stream, job)

    def add(stream, src, opts):
        o = dict(opts)
        o.setdefault("quiet", True)
        jobs.append((stream, compile_job(src, **o)))

    for src, o in CORPUS:
        add("corpus-of-failures", src, o)
    for files, entry in CORPUS_FILES:
        jobs.append(("corpus-of-failures", compile_job(None, files=files, entry=entry, quiet=True)))
    for files, entry in config_projects():
        jobs.append(("config-projects", compile_job(None, files=files, entry=entry, quiet=True)))
    # round 3 (seeded C01-r3m1): loop bounds at and beyond the i64 range, both directions, to/through — must be an
    # error or a (short) loop, never an arithmetic-overflow panic or an endless count
    for lo in ("0", "1", "-1", "9223372036854775806", "-9223372036854775807"):
        for hi in ("1e19", "-1e19", "9223372036854775807", "-9223372036854775808", "9223372036854775808", "-9223372036854775809",
                   "1e308", "-1e308", "math.div(1, 0)", "math.div(-1, 0)", "9223372036854775806", "-9223372036854775807"):
            for kw in ("to", "through"):
                for a, b in ((lo, hi), (hi, lo)):
                    src = f'@use "sass:math";\na {{ @for $i from {a} {kw} {b} {{ @if $i == 0 {{ b: $i; }} @else {{ @error "stop"; }} }} }}\n'
                    add("for-extreme-bounds", src, {"syntax": "scss"})
                    add("for-extreme-bounds", f'@use "sass:math"\na\n  @for $i from {a} {kw} {b}\n    @error "stop"\n', {"syntax": "sass"})
    # golden corpus with its own options and under every syntax/style/option set
    pick = cases if not quick else rng.sample(cases, 500)
    for c in pick:
        add("golden", c["input"], dict(c["options"]))
        if quick:
            add("golden-x-config", c["input"], with_opts(rng))
        else:
            for syn in ("scss", "sass", "css"):
                for os_ in OPTION_SETS:
                    add("golden-x-config", c["input"], dict(os_, syntax=syn))
    # near-miss mutations
    for _ in range(2600 if quick else 100000):
        c = rng.choice(cases)
        src = c["input"]
        if len(src) > 400:
            continue
        add("mutation", g.mutate(rng, src), with_opts(rng, c["options"].get("syntax") if rng.random() < 0.5 else None))
    for _ in range(900 if quick else 30000):
        c = rng.choice(cases)
        if len(c["input"]) > 400:
            continue
        add("mutation-indented", g.mutate(rng, g.to_sass_guess(c["input"])), with_opts(rng, "sass"))
    # token soup
    for _ in range(1500 if quick else 50000):
        add("token-soup", g.token_soup(rng), with_opts(rng))
    for _ in range(500 if quick else 20000):
        add("token-soup-mutated", g.mutate(rng, g.token_soup(rng)), with_opts(rng))
    # built-in functions with hostile arguments (evaluator)
    for _ in range(1500 if quick else 60000):
        add("builtin-calls", g.builtin_call(rng), {"syntax": "scss", "style": rng.choice([None, "compressed"])})
    # every edge escape in every position that consumes one
    for src, syn in g.escape_jobs():
        add("escape-edges", src, {"syntax": syn, "style": rng.choice([None, "compressed"])})
    # multi-line loud comments at varying columns, continuation lines led by ASCII / multi-byte white space
    for _ in range(1500 if quick else 40000):
        src, o = g.comment_layout_job(rng)
        add("comment-layout", src, o)
    # unusual Unicode, NUL
    for _ in range(500 if quick else 20000):
        c = rng.choice(cases)
        s = c["input"][:200]
        for _ in range(rng.choice([1, 2, 4])):
            k = rng.randrange(len(s) + 1)
            s = s[:k] + rng.choice(g.UNUSUAL) + s[k:]
        add("unusual-chars", s, with_opts(rng))
    # truncation at every prefix of small programs
    small = [c for c in cases if len(c["input"]) <= (90 if quick else 160)]
    for c in rng.sample(small, min(len(small), 200 if quick else 600)):
        syn = c["options"].get("syntax", "scss")
        for p in g.prefixes(c["input"]):
            add("prefix", p, {"syntax": syn})
        if not quick:
            t = g.to_sass_guess(c["input"])
            for p in g.prefixes(t):
                add("prefix-indented", p, {"syntax": "sass"})
    # through @import / @use / @forward of generated files, and non-UTF-8 bytes
    for _ in range(400 if quick else 15000):
        c = rng.choice(cases)
        syn = rng.choice(["scss", "sass", "css"])
        src = g.mutate(rng, c["input"][:300]) if rng.random() < 0.7 else c["input"][:300]
        files, entry = g.wrap_import(rng, src, syn)
        o = with_opts(rng, "scss")
        jobs.append(("via-import", compile_job(None, files=files, entry=entry, **o)))
    # the fixed non-UTF-8 family (lone continuation, invalid leads, invalid byte in the middle, sequences truncated at
    # the END of the file / before ASCII) as entry file and through @import/@use/@forward/meta.load-css, by extension
    for label, files, entry in g.non_utf8_jobs():
        jobs.append(("non-utf8-family", compile_job(None, files=files, entry=entry, quiet=True)))
    # import / module cycles (must be errors, not unbounded recursion)
    for files, entry in [({"a.scss": '@import "a";'}, "a.scss"), ({"a.scss": '@use "a";'}, "a.scss"), ({"a.scss": '@forward "a";'}, "a.scss"),
                         ({"a.scss": '@import "b";', "b.scss": '@import "a";'}, "a.scss"), ({"a.scss": '@use "b";', "b.scss": '@use "a";'}, "a.scss"),
                         ({"a.scss": 'a{@import "a";}'}, "a.scss"), ({"a.scss": '@use "b";', "b.scss": '@forward "a";'}, "a.scss"),
                         ({"a.sass": '@import "a"\n'}, "a.sass"), ({"a.scss": '@use "sass:meta" as m; a{@include m.load-css("a")}'}, "a.scss"),
                         ({"a.scss": '@import "b.css";', "b.css": '@import "a";'}, "a.scss")]:
        jobs.append(("import-cycle", compile_job(None, files=files, entry=entry, quiet=True)))
    for _ in range(300 if quick else 10000):
        c = rng.choice(cases)
        b = g.non_utf8(rng, c["input"][:200])
        ext = rng.choice(["scss", "sass", "css"])
        o = with_opts(rng)
        o.pop("syntax")
        if rng.random() < 0.5:
            jobs.append(("non-utf8-entry", compile_job(None, files={"in." + ext: {"hex": b.hex()}}, entry="in." + ext, **o)))
        else:
            jobs.append(("non-utf8-import", compile_job(None, files={"main.scss": '@import "dep";z{y:x}', "dep." + ext: {"hex": b.hex()}},
                                                        entry="main.scss", **o)))
    return jobs


def deep_jobs(tier):
    inb = [25, NESTING_BOUND] if tier == "quick" else [10, 50, 100, NESTING_BOUND]
    beyond = [1000] if tier == "quick" else [500, 1000, 2000]
    out = []
    for kind in g.DEEP_KINDS:
        syn = "sass" if kind == "sass-indent" else "scss"
        for n in inb:
            out.append((f"deep:{kind}", n, True, compile_job(g.deep(kind, n), syntax=syn, quiet=True)))
        for n in beyond:
            out.append((f"deep:{kind}", n, False, compile_job(g.deep(kind, n), syntax=syn, quiet=True)))
    return out


def job_text(job):
    if job.get("input") is not None:
        return job["input"]
    return json.dumps({"entry": job.get("entry"), "files": job.get("files")}, sort_keys=True)


def tag_of_answer(ans):
    st = ans.get("status")
    if st == "panic":
        return panic_tag(ans)
    if st in ("timeout", "abort"):
        return st
    if st == "err" and ans.get("err", {}).get("kind") not in ("parse", "io", "utf8"):
        return "errkind:%s" % ans.get("err", {}).get("kind")
    return None


_LOOP_ONLY = re.compile(r"@\s*(while|for|each|include|mixin|function)\b", re.I)


def loopy(job):
    src = job.get("input")
    if src is not None:
        return bool(_LOOPY.search(src)) and job.get("options", {}).get("syntax", "scss") != "css"
    return any(isinstance(t, str) and not n.endswith(".css") and _LOOP_ONLY.search(t) for n, t in (job.get("files") or {}).items())


def split_excluded(pool, fs):
    """A timeout/abort is outside the property when the program has loops/recursion of its own and the
    same text, parsed but not evaluated (inside `@if false`), terminates.  -> (kept, n_excluded)"""
    cand = [(f, wrap_unevaluated(f["job"])) for f in fs if loopy(f["job"])]
    cand = [(f, w) for f, w in cand if w is not None]
    wrapped = [w for _, w in cand]
    cand = [f for f, _ in cand]
    answers = pool.map(wrapped, timeout=10.0) if wrapped else []
    excluded = {id(f) for f, a in zip(cand, answers) if a.get("status") in ("ok", "err")}
    return [f for f in fs if id(f) not in excluded], len(excluded)


def shrink(pool, f):
    job = f["job"]
    if job.get("input") is None or f["tag"] in ("timeout",):
        return job
    tag = f["tag"]

    def still(t):
        j = dict(job, input=t)
        a = pool.map([j], timeout=5.0, confirm=False)[0]
        return tag_of_answer(a) == tag

    if not still(job["input"]):
        return job
    return dict(job, input=g.ddmin(job["input"], still, max_calls=250))


def judge_failures(ck, pool):
    """Group failures by tag, drop the ones outside the property, shrink one per tag, report."""
    groups = collections.OrderedDict()
    for f in ck.failures:
        groups.setdefault(f["tag"], []).append(f)
    known_tags = {k.get("match", {}).get("class") for k in known_findings("C01")}
    for tag, fs in groups.items():
        fs.sort(key=lambda f: len(job_text(f["job"])))
        if tag in ("timeout", "abort"):
            fs, nex = split_excluded(pool, fs)
            if nex:
                ck.hist(f"excluded:{tag}-in-evaluation-of-a-program-with-its-own-loops/recursion", nex)
            if not fs:
                continue
        ck.hist(f"failures:{tag}", len(fs))
        first = fs[0]
        if tag in known_tags:
            ck.impl_violation(job_text(first["job"]), {}, tags=[tag])
            for _ in fs[1:]:
                ck.cov["impl_property_failures"] += 1
            continue
        small = shrink(pool, first)
        payload = {"tag": tag, "detail": first["detail"], "job": small, "original_job": first["job"], "stream": first["stream"],
                   "count_in_this_run": len(fs),
                   "expected_by_property": "status ok or err (ParseError/IoError/FromUtf8Error) with a rendered message and a span inside the file"}
        ck.impl_violation(job_text(small), payload, tags=[tag])


def run(tier, seed):
    ck = Check("C01", tier, seed)
    ck.failures, ck.disagreements = [], []
    ck.cov["rule"] = (
        "TIE: `<prefix><subject><suffix>` inputs putting one scanner (whitespace+comments, quoted string, interpolated string, "
        "identifier, interpolated identifier, number, custom-property value, almost_any_value, url(), pseudo-class argument) to work "
        "on a subject drawn from the scanner's own alphabet (all short strings over a core alphabet + random ones), in scss/sass/css; "
        "distinct by (context, syntax, subject), non-trivial when the subject is non-empty or the model predicts an error. "
        "SEARCH (testing): failure corpus, golden corpus x syntax x style x options, token-level near-miss mutations, token soup, "
        "unusual Unicode/NUL, every prefix of small corpus programs, @import/@use/@forward of generated files over the in-memory Fs, "
        f"non-UTF-8 entry/imported bytes, 19 kinds of nesting up to {NESTING_BOUND} levels (deeper: reported, not judged).")
    ck.assumptions = [
        "SEARCH part is testing: a clean run shows no crash/hang on the inputs explored, not their absence",
        f"nesting deeper than {NESTING_BOUND} levels is outside the property's reasonable coverage (stack exhaustion aborts the process)",
        "a timeout/abort of a program that has loops or recursion of its own and whose text parses in bounded time inside `@if false` "
        "is attributed to the program, not to grass (the property covers evaluation only for bounded programs)",
        "byte spans are reconstructed from codemap's (line, column): lines split on LF, columns count characters",
    ]
    import time
    t0 = time.time()
    ck.do_prove(cores=("lex",))
    if not ck.do_build_runner():
        ck.unproved("correspondence-broken", {"why": "runner does not build against /repo", "error": getattr(ck, "build_error", "")})
        return ck.finish()
    phases = {"prove+build_s": round(time.time() - t0, 1)}
    ck.cov["phase_wall"] = phases
    pool = RunnerPool()
    cases, _ = corpus.load()

    # known-finding witnesses replayed first (stale entries are noted)
    for k in known_findings("C01"):
        w = k.get("witness")
        if not w:
            continue
        a = pool.map([compile_job(w.get("input"), files=w.get("files"), entry=w.get("entry"), **w.get("options", {}))], timeout=5.0)[0]
        if tag_of_answer(a) == k["match"].get("class"):
            ck.hist("known-finding-witness-still-fails")
        else:
            ck.notes.append(f"known finding {k['id']} is stale: its witness now gives status {a.get('status')}")

    t0 = time.time()
    span_checks = run_tie(ck, pool, tier)
    phases["tie_s"] = round(time.time() - t0, 1)
    t0 = time.time()

    sj = search_jobs(ck, tier, cases)
    CH = 20000                      # answers are judged and dropped chunk by chunk (memory)
    for off in range(0, len(sj), CH):
        part = sj[off:off + CH]
        answers = g.run_many(pool, [j for _, j in part], timeout=2.0, no_confirm=loopy)
        for (stream, job), ans in zip(part, answers):
            ck.count(("search", stream, job_text(job), job.get("options")), True)
            ck.hist("stream:" + stream)
            check_answer(ck, job, ans, span_checks, stream)
            if stream == "non-utf8-family" and ans.get("status") in ("ok", "err") and ans.get("err", {}).get("kind") != "utf8":
                # bytes that are not UTF-8 are reported as such (FromUtf8Error), never compiled
                ck.failures.append({"tag": "non-utf8-not-reported", "detail": f"status {ans.get('status')} kind {ans.get('err', {}).get('kind')}",
                                    "job": job, "stream": stream})
            if len(ck.cov["samples"]) < 8 and ans.get("status") == "err" and stream in ("mutation", "token-soup"):
                ck.sample({"stream": stream, "source": job_text(job)[:120], "options": job.get("options"), "status": "err",
                           "message": ans.get("err", {}).get("message")})
        run_span_checks(ck, span_checks)
        del span_checks[:]
        log(f"[C01] search {min(off + CH, len(sj))}/{len(sj)} failures so far: {len(ck.failures)}")
    # deep nesting: own, generous watchdog
    dj = deep_jobs(tier)
    dres = pool.map([j for *_, j in dj], timeout=30.0 if tier == "quick" else 120.0)
    beyond = {}
    for (stream, n, inbound, job), ans in zip(dj, dres):
        if inbound:
            ck.count(("deep", stream, n), True)
            ck.hist("stream:deep")
            check_answer(ck, job, ans, span_checks, f"{stream}:{n}")
        else:
            beyond.setdefault(ans.get("status"), []).append(f"{stream.split(':')[1]}@{n}")
    ck.cov["beyond_nesting_bound"] = {k: sorted(v) for k, v in beyond.items()}

    run_span_checks(ck, span_checks)
    phases["search_s"] = round(time.time() - t0, 1)
    t0 = time.time()
    judge_failures(ck, pool)
    phases["judge+shrink_s"] = round(time.time() - t0, 1)

    unknown = [v for v in ck.violations]
    if ck.cov["model_disagreements"] and not unknown:
        ck.unproved("correspondence-broken", {"correspondence": "scanner model (Grass.Lexer) vs grass on <prefix><subject><suffix> inputs",
                                              "cases": ck.disagreements})
    ck.cov["search_is_testing"] = True
    return ck.finish()


def replay(path):
    r = json.load(open(path))
    ck = Check("C01", "quick", 0)
    ck.failures, ck.disagreements = [], []
    ck.do_build_runner()
    pool = RunnerPool(1)
    job = r.get("job")
    if not job:
        print(json.dumps(r, indent=1)[:4000])
        return 0
    a = pool.map([job], timeout=20.0)[0]
    print("job   :", json.dumps(job)[:1000])
    print("grass :", a.get("status"), a.get("panic") or a.get("err") or (a.get("css") or "")[:200])
    print("recorded tag:", r.get("tag"), "| now:", tag_of_answer(a) or "property holds on this input")
    return 1 if tag_of_answer(a) else 0
