"""C02 — a result is a pure function of source, options and visible files.

(a) PROOF   GrassProofs.C02: interner laws, non-interference of the identifier/id discipline,
            offset/schedule invariance of the id counters, the two as-found leaks.
(b) TIE     the model of the code as it stands predicts, for a given history of interned names, the
            order in which real grass lists keywords() and the names of "No arguments named …"
            (insertion order), a module's own members and the variable a `with` error names (key =
            interning order), and the members of a module with @forward (upstream order).
            + static list of container iteration sites.
(c) DIRECT  the metamorphic run on real grass: obs(history · p) = obs(p) on one thread, on N
            concurrent threads, in fresh processes; P̂ (`sameObs`, `uniqueIdsOk`) evaluated by the
            Lean driver on the implementation's own output.  This part is TESTING.
"""
import json
import os
import re
import sys
import time

import corpus
import vlib
from vlib import BUILD, REPO, Check, RunnerPool, compile_job, driver, hexs, log, unhex

sys.path.insert(0, os.path.dirname(os.path.dirname(os.path.abspath(__file__))))
import translate_iter_sites  # noqa: E402

# --------------------------------------------------------------------------------------------
# programs
# --------------------------------------------------------------------------------------------

IDENT = re.compile(r"[A-Za-z_][A-Za-z0-9_-]*")
RANDOMISED = re.compile(r"\b(random|unique-id|unique_id)\s*\(")


def P(files=None, entry=None, src=None, options=None, origin="gen"):
    return {"files": files, "entry": entry, "input": src, "options": options or {}, "origin": origin}


def prog_text(p):
    if p["files"]:
        return "\n".join(f"/* {k} */ {v}" for k, v in sorted(p["files"].items()))
    return p["input"]


def prog_job(p):
    if p["files"]:
        return compile_job(files=p["files"], entry=p["entry"], **p["options"])
    return compile_job(p["input"], **p["options"])


def case_text(p, history=(), mode="seq"):
    return json.dumps({"history": list(history), "program": p["files"] or p["input"], "entry": p["entry"],
                       "options": p["options"], "mode": mode}, sort_keys=True)


def idents(text):
    seen, order = set(), []
    for m in IDENT.finditer(text):
        n = m.group(0)
        if n not in seen:
            seen.add(n)
            order.append(n)
    return order


def hist_vars(names):
    """Interns every name as an `Identifier` (normalised `_`→`-`), in the given order."""
    return "".join(f"${n}: 0;\n" for n in names)


def hist_props(names):
    """Interns every name raw (property names, visitor.rs:3060) and as an unknown unit."""
    body = "".join(f"  {n}: 1{n if not n.startswith('-') else 'u'};\n" for n in names)
    return "hq-hist {\n" + body + "}\n"


def hist_callables(names):
    return "".join(f"@function {n}-hf(${n}) {{ @return ${n}; }}\n@mixin {n}($args...) {{ x: keywords($args); }}\n"
                   for n in names)


def observe(ans):
    st = ans.get("status")
    if st == "ok":
        return ("css", ans.get("css", ""))
    if st == "err":
        return ("err", ans.get("display", ""))
    return (str(st), str(ans.get("panic") or ans.get("why") or ""))


# ---- generated programs: every construct that puts identifiers into maps/sets -----------------

POOL = ["zq", "yq", "xq", "wq", "vq", "uq", "tq", "a_q", "b-q", "Zq", "q9", "mq-long-name", "lq"]


def gen_program(rng, k=None):
    names = rng.sample(POOL, rng.randint(2, 5))
    n = names
    kinds = ["kw-fn", "kw-mixin-each", "kw-call", "kw-splat", "kw-content", "unknown-fn", "unknown-mixin",
             "unknown-builtin", "modvars-plain", "modvars-forward", "modfns-builtin", "with-unknown", "with-ok",
             "forward-with", "forward-show", "forward-hide", "forward-as", "extend-multi", "extend-placeholder",
             "import-many", "map-each", "units", "star-use", "load-css", "exists", "named-all", "missing",
             "both", "selector-fns", "at-root", "nested-props", "fn-shadow",
             "competing", "competing", "competing-use", "deep-fn", "deep-mixin"]
    kind = k or rng.choice(kinds)
    kv = ", ".join(f"${x}: {i + 1}" for i, x in enumerate(n))
    decl = "; ".join(f"${x}: {i + 1}" for i, x in enumerate(n)) + ";"
    M = "@use 'sass:meta';"
    f = None
    if kind == "kw-fn":
        f = {"e.scss": f"@function f($args...){{@return inspect(keywords($args))}} a{{b:f({kv})}}"}
    elif kind == "kw-mixin-each":
        f = {"e.scss": f"@mixin m($p, $rest...){{ @each $k, $v in keywords($rest) {{ #{{$k}}: $v }} }} a{{@include m(0, {kv})}}"}
    elif kind == "kw-call":
        f = {"e.scss": f"@function f($args...){{@return inspect(keywords($args))}} a{{b: call(get-function('f'), {kv})}}"}
    elif kind == "kw-splat":
        mp = ", ".join(f"{x.replace('_', '-')}: {i}" for i, x in enumerate(n))
        f = {"e.scss": f"@function f($args...){{@return inspect(keywords($args))}} $m: ({mp}); a{{b: f($m...)}}"}
    elif kind == "kw-content":
        ps = ", ".join(f"${x}" for x in reversed(n))
        f = {"e.scss": f"@mixin m{{ @content({kv}) }} a{{@include m using ({ps}){{ b: {' '.join('$' + x for x in n)} }}}}"}
    elif kind == "unknown-fn":
        f = {"e.scss": f"@function g(${n[0]}){{@return 1}} a{{b:g({kv})}}"}
    elif kind == "unknown-mixin":
        f = {"e.scss": f"@mixin g(${n[-1]}){{c:d}} a{{@include g({kv})}}"}
    elif kind == "unknown-builtin":
        f = {"e.scss": f"a{{b: change-color(red, {kv})}}"}
    elif kind == "modvars-plain":
        fns = " ".join(f"@function {x}-f(){{@return 1}}" for x in n)
        f = {"e.scss": f"{M} @use 'm'; a{{b:inspect(meta.module-variables('m')); c:inspect(meta.module-functions('m'))}}",
             "m.scss": decl + fns}
    elif kind == "modvars-forward":
        h = len(n) // 2
        f = {"e.scss": f"{M} @use 'm'; a{{b:inspect(meta.module-variables('m'))}}",
             "m.scss": "@forward 'n'; " + "; ".join(f"${x}: 1" for x in n[:h]) + ";",
             "n.scss": "; ".join(f"${x}: 2" for x in n[h:]) + ";"}
    elif kind == "modfns-builtin":
        mod = rng.choice(["meta", "math", "string", "list", "map", "color", "selector"])
        f = {"e.scss": f"{M} @use 'sass:{mod}' as zz; a{{b:inspect(meta.module-functions('zz'))}}"}
    elif kind == "with-unknown":
        f = {"e.scss": f"@use 'm' with ({kv}); a{{b:c}}", "m.scss": "$k: 1 !default;"}
    elif kind == "with-ok":
        f = {"e.scss": f"@use 'm' with ({kv}); a{{b: {' '.join('m.$' + x for x in n)}}}",
             "m.scss": " ".join(f"${x}: 0 !default;" for x in reversed(n))}
    elif kind == "forward-with":
        f = {"e.scss": f"@use 'f' with (${n[0]}: 9); a{{b: {' '.join('f.$' + x for x in n)}}}",
             "f.scss": "@forward 'm' with (" + ", ".join(f"${x}: {i} !default" for i, x in enumerate(n)) + ");",
             "m.scss": " ".join(f"${x}: 0 !default;" for x in reversed(n))}
    elif kind in ("forward-show", "forward-hide"):
        word = "show" if kind == "forward-show" else "hide"
        sel = n[:max(1, len(n) // 2)]
        vis = sel if word == "show" else [x for x in n if x not in sel]
        f = {"e.scss": f"@use 'm'; a{{b: {' '.join('m.$' + x for x in vis) or 'none'}}}",
             "m.scss": f"@forward 'n' {word} " + ", ".join("$" + x for x in sel) + ";",
             "n.scss": decl}
    elif kind == "forward-as":
        f = {"e.scss": f"{M} @use 'm'; a{{b: {' '.join('m.$pre-' + x for x in n)}; c: m.pre-{n[0]}-f()}}",
             "m.scss": "@forward 'n' as pre-*;", "n.scss": decl + f" @function {n[0]}-f(){{@return 1}}"}
    elif kind == "extend-multi":
        rules = " ".join(f".{x}{{p{i}:v}}" for i, x in enumerate(n))
        ext = " ".join(f"@extend .{x};" for x in rng.sample(n, len(n)))
        f = {"e.scss": f"{rules} .w1{{{ext}}} .w2{{@extend .w1; @extend .{n[0]}}} .{n[0]} .{n[1]}, .{n[-1]}.{n[0]} {{g:h}} "
                       f":not(.{n[0]}){{i:j}} .v{{@extend .w2}} .{n[1]}:is(.{n[0]}, .k){{l:m}}"}
    elif kind == "extend-placeholder":
        rules = " ".join(f"%{x}{{p{i}:v}}" for i, x in enumerate(n))
        f = {"e.scss": f"{rules} .a{{@extend %{n[0]}}} .b{{@extend %{n[1]}; @extend %{n[0]}}} .c{{@extend .a; @extend .b}} "
                       f"%{n[0]} %{n[1]}{{x:y}} @media screen{{.d{{@extend .a}}}}"}
    elif kind == "import-many":
        body = decl + " ".join(f"@function {x}-f(){{@return '{x}'}} @mixin {x}-m{{{x}: m}}" for x in n)
        f = {"e.scss": f"@import 'm'; a{{b: {' '.join(x + '-f()' for x in n)} {' '.join('$' + x for x in n)}; "
                       + " ".join(f"@include {x}-m;" for x in n) + "}", "m.scss": body}
    elif kind == "map-each":
        mp = ", ".join(f"{x}: {i}" for i, x in enumerate(n))
        f = {"e.scss": f"$m: ({mp}); a{{@each $k, $v in $m {{ #{{$k}}: $v; }} b: map-keys($m); c: inspect(map-remove($m, {n[0]})); "
                       f"d: inspect(map-merge((k: 1), $m))}}"}
    elif kind == "units":
        f = {"e.scss": f"a{{b: 1{n[0]} + 2{n[0]}; c: inspect(1{n[0]} * 1{n[1]}); d: inspect((1{n[1]} * 1{n[0]}) / 1{n[-1]}); e: unit(1{n[0]}*1{n[1]})}}"}
    elif kind == "star-use":
        f = {"e.scss": f"@use 'n' as *; @use 'o' as *; a{{b: ${n[0]} ${n[1]}}}", "n.scss": f"${n[0]}: 1;", "o.scss": f"${n[1]}: 2;"}
    elif kind == "load-css":
        mp = ", ".join(f"{x.replace('_', '-')}: {i}" for i, x in enumerate(n))
        f = {"e.scss": f"{M} @include meta.load-css('m', $with: ({mp}));",
             "m.scss": " ".join(f"${x}: 0 !default;" for x in n[1:]) + f" a{{b: ${n[1]}}}"}
    elif kind == "exists":
        f = {"e.scss": decl + f" @function {n[0]}(){{@return 1}} @mixin {n[1]}{{x:y}} a{{b: variable-exists({n[0]}) global-variable-exists({n[1]}) "
                              f"function-exists({n[0]}) mixin-exists({n[1]}) function-exists({n[1]}) variable-exists(nope)}}"}
    elif kind == "named-all":
        ps = ", ".join(f"${x}: 0" for x in reversed(n))
        f = {"e.scss": f"@function f({ps}){{@return {' '.join('$' + x for x in n)}}} a{{b: f({kv})}}"}
    elif kind == "missing":
        ps = ", ".join(f"${x}" for x in n)
        f = {"e.scss": f"@function f({ps}){{@return 1}} a{{b: f(${n[-1]}: 1)}}"}
    elif kind == "both":
        ps = ", ".join(f"${x}" for x in n)
        f = {"e.scss": f"@function f({ps}){{@return 1}} a{{b: f(1, 2, ${n[1]}: 1, ${n[0]}: 2)}}"}
    elif kind == "selector-fns":
        f = {"e.scss": f"a{{b: selector-extend('.{n[0]} .{n[1]}', '.{n[1]}', '.{n[-1]}, .k'); c: selector-replace('.{n[0]}.{n[1]}', '.{n[0]}', '.{n[-1]}'); "
                       f"d: selector-unify('.{n[0]}.{n[1]}', '.{n[-1]}'); e: is-superselector('.{n[0]}', '.{n[0]}.{n[1]}')}}"}
    elif kind == "at-root":
        f = {"e.scss": f"@media screen {{ @supports (a:b) {{ .{n[0]} {{ @at-root (without: media supports) {{ .{n[1]} {{c:d}} }} }} }} }}"}
    elif kind == "nested-props":
        f = {"e.scss": "a{" + " ".join(f"{x}: {{ {y}: 1; }}" for x, y in zip(n, reversed(n))) + "}"}
    elif kind == "fn-shadow":
        f = {"e.scss": decl + f" @function f(${n[0]}){{ ${n[1]}: 7; @return ${n[0]} ${n[1]}; }} a{{b: f(5) ${n[1]}; "
                              f"@each ${n[0]} in 1 2 {{ c: ${n[0]} }} }}"}
    elif kind in ("competing", "competing-use"):
        # the same url has a candidate in several load paths: which one wins is decided by their order only
        dirs = rng.sample(["pa", "pb", "pc"], rng.randint(2, 3))
        f = {}
        for d in dirs:
            f[f"{d}/_t.scss"] = f"$w: from-{d}; @function where() {{ @return {d} }} .{d}-{n[0]} {{ x: {d} }}"
        if rng.random() < 0.3:
            f[f"{dirs[-1]}/_only.scss"] = f"$o: only-{dirs[-1]};"
        f["e.scss"] = ("@use 't'; a{b: t.$w t.where()}" if kind == "competing-use" else "@import 't'; a{b: $w where()}") + \
                      (" @import 'only'; c{d:$o}" if any(k.endswith("_only.scss") for k in f) else "")
        return P(files=f, entry="e.scss", options={"load_paths": rng.sample(dirs, len(dirs))}, origin="gen:" + kind)
    elif kind == "deep-fn":
        d = rng.randint(150, 200)
        f = {"e.scss": f"@function r($n){{ @if $n <= 0 {{ $s: 0; @for $i from 1 through {rng.randint(800, 2000)} {{ $s: $s + $i }} @return $s }} "
                       f"@return 1 + r($n - 1) }} a{{b:r({d})}}"}
    elif kind == "deep-mixin":
        d = rng.randint(150, 200)
        f = {"e.scss": f"@mixin m($n){{ @if $n <= 0 {{ @for $i from 1 through {rng.randint(200, 500)} {{ x#{{$i}}: $i }} }} @else {{ @include m($n - 1) }} }} "
                       f"a{{@include m({d})}}"}
    return P(files=f, entry="e.scss", origin="gen:" + kind)


def variant_other_contents(p):
    """The same paths with other contents (every integer literal in the non-entry files changed,
    `from-x`/`only-x` markers renamed): what a stale cache keyed by path would hand to the next compilation."""
    f = {}
    for k, v in p["files"].items():
        f[k] = v if k == p["entry"] else re.sub(r"\b(from|only)-", r"stale-\1-", re.sub(r"(?<![\w$#.-])(\d+)\b", lambda m: str(int(m.group(1)) + 5), v))
    return f


def same_path_histories(p, rng):
    """Histories that use the SAME in-memory paths as `p`: other contents, other load-path order,
    one candidate file missing."""
    if not p["files"] or len(p["files"]) < 2:
        return []
    out = [("same-paths-other-contents", [compile_job(files=variant_other_contents(p), entry=p["entry"], **p["options"])])]
    lps = p["options"].get("load_paths") or []
    if len(lps) >= 2:
        o2 = dict(p["options"])
        o2["load_paths"] = lps[1:] + lps[:1]
        out.append(("same-files-rotated-load-paths", [compile_job(files=p["files"], entry=p["entry"], **o2)]))
        first = [k for k in p["files"] if k.startswith(lps[0] + "/")]
        if first:
            out.append(("same-paths-winner-missing", [compile_job(files={k: v for k, v in p["files"].items() if k not in first},
                                                                  entry=p["entry"], **p["options"])]))
    return out


# ---- minimal past failures / known-finding witnesses: run first on every run -------------------
# (id, history sources, program); the known-finding witnesses are read from known-findings.d/C02.json
CORPUS = [
    # repaired in /repo (adef70c, d156cce): regression cases, any difference is a violation again
    ("past:D13a1-keywords-order", ["$yq: 0; $zq: 0;"], P(src="@function f($args...){@return inspect(keywords($args))} a{b:f($zq:1,$yq:2)}", origin="corpus-list")),
    ("past:D13a2-no-arguments-named", ["$yq: 0; $zq: 0;"], P(src="@function g($a){@return 1} a{b:g($a:1,$zq:1,$yq:2)}", origin="corpus-list")),
    ("past:D13b-forward-members", [], P(files={"e.scss": "@use 'sass:meta'; @use 'm'; a{b:inspect(meta.module-variables('m'))}",
                                                "m.scss": "@forward 'n'; $zq:1; $yq:2;", "n.scss": "$xq:3; $wq:4;"}, entry="e.scss", origin="corpus-list")),
    ("past:map-keys-after-history", ["$yq: 0; $zq: 0;"], P(src="a{b: map-keys((zq: 1, yq: 2)); c: inspect((zq: 1, yq: 2))}", origin="corpus-list")),
    ("past:extend-after-history", [".w1{x:y} .yq{@extend .w1}"], P(src=".zq{a:b} .yq{c:d} .w1{@extend .zq; @extend .yq} .zq .yq{e:f}", origin="corpus-list")),
]


def _witnesses():
    out = list(CORPUS)
    root = os.path.join(os.path.dirname(__file__), "..", "..")
    entries = []
    for path in (os.path.join(root, "known-findings.json"), os.path.join(root, "known-findings.d", "C02.json")):
        try:
            entries += [k for k in json.load(open(path)).get("findings", []) if k.get("property") == "C02"]
        except (OSError, ValueError):
            pass
    for k in entries:
        w = k.get("witness")
        if not w:
            continue
        p = P(files=w["files"], entry=w["entry"], origin="witness:" + k["id"]) if "files" in w else \
            P(src=w["program"], origin="witness:" + k["id"])
        out.append((k["id"], w.get("history", []), p))
    return out


# --------------------------------------------------------------------------------------------
# classification of a difference (known-finding class tags; everything else is a violation)
# --------------------------------------------------------------------------------------------

_NO_ARGS = re.compile(r"^Error: No arguments named (.*)\.$")
_CONFIG = re.compile(r"^Error: (This variable|\$[\w-]+) was not declared with !default in the @used module\.$")


def _atoms(css):
    return sorted(a.strip() for a in re.split(r"[,;(){}\n]", css) if a.strip())


def _names(sentence):
    return sorted(x for x in re.split(r",\s*|\s+or\s+", sentence) if x)


def classify(text, a, b, has_history=True):
    """Class tags for two differing observations `a`, `b` of the program `text` (see known-findings.d/C02.json).
    Both remaining classes are dependences on the thread's HISTORY: without one no tag applies."""
    tags = []
    if a[0] != b[0] or not has_history:
        return tags
    if a[0] == "err":
        la, lb = a[1].split("\n"), b[1].split("\n")
        if _CONFIG.match(la[0]) and _CONFIG.match(lb[0]) and re.search(r"\bwith\s*\(|\$with\s*:", text):
            tags.append("D13a-config-first")
    elif a[0] == "css":
        if _atoms(a[1]) == _atoms(b[1]) and re.search(r"module-(variables|functions)\(", text):
            tags.append("D13a-module-members-order")
    return tags


# --------------------------------------------------------------------------------------------
# the check
# --------------------------------------------------------------------------------------------

class Run:
    def __init__(self, ck, pool):
        self.ck, self.pool = ck, pool
        self.pending = []          # (program, context dict, reference obs, other obs)
        self.failures = []

    def compare(self, p, ctx, ref, other):
        self.pending.append((p, ctx, ref, other))

    def flush(self):
        """P̂ `sameObs` evaluated by the Lean driver on every (reference, other) pair."""
        if not self.pending:
            return
        # identical pairs are sent once per distinct pair; the verdict is the driver's
        uniq = {}
        for p, ctx, ref, other in self.pending:
            uniq.setdefault((ref, other), None)
        keys = list(uniq)
        outs = driver([f"intern same {k[0][0] if k[0][0] in ('css', 'err') else 'err'} {hexs(k[0][0] + ':' + k[0][1])} "
                       f"{k[1][0] if k[1][0] in ('css', 'err') else 'err'} {hexs(k[1][0] + ':' + k[1][1])}" for k in keys])
        for k, o in zip(keys, outs):
            uniq[k] = o
        for n_seen, (p, ctx, ref, other) in enumerate(self.pending):
            v = uniq[(ref, other)]
            if n_seen % 1499 == 7:
                self.ck.sample({"program": prog_text(p)[:300], "mode": ctx["mode"], "history_kind": ctx.get("history_kind"),
                                "slot": ctx.get("slot"), "reference": list(ref)[1][:120], "same": v})
            self.ck.count((prog_text(p), p["options"], ctx.get("mode"), ctx.get("history"), ctx.get("slot")), True)
            self.ck.hist("mode:" + ctx["mode"])
            if v == "ok 1":
                continue
            if v != "ok 0":
                self.ck.cov["unsupported_dropped"] += 1
                continue
            hh = ctx["mode"] == "seq" or (ctx["mode"] == "witness" and bool(ctx.get("history"))) or \
                (ctx.get("_hl") is not None and ctx["_hl"][1] > 0)
            self.failures.append({"program": p, "ctx": ctx, "reference": ref, "other": other,
                                  "tags": classify(prog_text(p), ref, other, hh)})
        self.pending = []


def seq_job(history_jobs, p):
    return {"mode": "seq", "jobs": list(history_jobs) + [prog_job(p)]}


def model_tie(ck, pool, tier):
    """(b) the model of the code AS IT STANDS predicts the order real grass produces after generated
    histories: insertion order for keywords() / "No arguments named" (IndexMap since adef70c), key
    (= interning) order for a module's own members and for the variable a `with` error names."""
    rng = ck.rng
    n_cases = 200 if tier == "quick" else 2400
    names_pool = [f"k{c}q{i}" for c in "abcdefg" for i in range(3)]
    cases, jobs = [], []
    for i in range(n_cases):
        kind = rng.choice(["keywords", "unknown", "members", "cfgfirst"])
        call = rng.sample(names_pool, rng.randint(2, 5))
        nh = rng.choice([0, 1, 1, 2])
        hist = [rng.sample(call + rng.sample(names_pool, 2), rng.randint(1, len(call))) for _ in range(nh)]
        decl = []
        if kind == "keywords":
            job = compile_job("@function f($args...){@return inspect(keywords($args))} a{b:f(" +
                              ", ".join(f"${x}: 1" for x in call) + ")}")
        elif kind == "unknown":
            decl = (rng.sample(call, rng.randint(0, len(call) - 2)) if len(call) > 2 else []) + \
                rng.sample([x for x in names_pool if x not in call], 1)
            job = compile_job("@function g(" + ", ".join(f"${x}: 0" for x in decl) + "){@return 1} a{b:g(" +
                              ", ".join(f"${x}: 1" for x in call) + ")}")
        elif kind == "members":
            job = compile_job(files={"e.scss": "@use 'sass:meta'; @use 'm'; a{b:inspect(meta.module-variables('m'))}",
                                     "m.scss": " ".join(f"${x}: 1;" for x in call)}, entry="e.scss")
        else:
            job = compile_job(files={"e.scss": "@use 'm' with (" + ", ".join(f"${x}: 1" for x in call) + "); a{b:c}",
                                     "m.scss": "$unrelated: 1 !default;"}, entry="e.scss")
        cases.append((kind, hist, decl, call, job))
        jobs.append({"mode": "seq", "jobs": [compile_job(hist_vars(h)) for h in hist] + [job]})
    answers = pool.map(jobs, timeout=30)
    enc = lambda l: ",".join(hexs(x) for x in l) if l else "-"
    lines = []
    for kind, hist, decl, call, job in cases:
        flat = [x for h in hist for x in h]
        if kind in ("keywords", "members"):
            lines += [f"intern keywords 1 {enc(flat)} {enc(call)}", f"intern keywords 0 {enc(flat)} {enc(call)}"]
        elif kind == "unknown":
            lines += [f"intern unknown 1 {enc(flat)} {enc(decl)} {enc(call)}", f"intern unknown 0 {enc(flat)} {enc(decl)} {enc(call)}"]
        else:
            lines += [f"intern cfgfirst 1 {enc(flat)} {enc(call)}", f"intern cfgfirst 0 {enc(flat)} {enc(call)}"]
    outs = driver(lines)
    dec = lambda o: [unhex(x) for x in o[3:].split(",")] if o.startswith("ok ") and o != "ok -" else []
    NOW_BY_KEY = {"keywords": False, "unknown": False, "members": True, "cfgfirst": True}     # the code as it stands
    for i, ((kind, hist, decl, call, job), ans) in enumerate(zip(cases, answers)):
        by_key, insertion = dec(outs[2 * i]), dec(outs[2 * i + 1])
        if not outs[2 * i].startswith("ok"):
            ck.cov["unsupported_dropped"] += 1
            continue
        expect = by_key if NOW_BY_KEY[kind] else insertion
        last = ans["results"][-1] if ans.get("status") == "ok" and ans.get("results") else {}
        o = observe(last)
        got = None
        if kind in ("keywords", "members"):
            m = re.search(r"b: \((.*)\);", o[1]) if o[0] == "css" else None
            got = [kv.split(":")[0].strip().strip('"') for kv in m.group(1).split(",")] if m else None
        elif kind == "unknown":
            m = re.match(r"Error: No arguments? named (.*)\.\n", o[1]) if o[0] == "err" else None
            got = [x.lstrip("$") for x in re.split(r",\s*|\s+or\s+", m.group(1))] if m else None
        else:
            col = (last.get("err") or {}).get("begin_col")
            src = job["files"]["e.scss"]
            m = re.match(r"\$([\w-]+)", src[col:]) if isinstance(col, int) and o[0] == "err" and _CONFIG.match(o[1].split("\n")[0]) else None
            got = [m.group(1)] if m else None
        ck.count(("tie", kind, hist, decl, call), nontrivial=bool(hist) and by_key != insertion)
        ck.hist("tie:" + kind)
        ck.hist("tie:history-matters-for-key-order" if by_key != insertion else "tie:orders-coincide")
        if i < 4:
            ck.sample({"tie": kind, "history": hist, "declared": decl, "call": call, "grass": got,
                       "model_now": expect, "model_key_order": by_key, "model_insertion_order": insertion})
        if got != expect:
            ck.cov["model_disagreements"] += 1
            if len(ck.disagreements) < 3:
                ck.disagreements.append({"kind": kind, "source": job.get("input") or job.get("files"), "history": hist,
                                         "model_observation(now)": expect, "impl_observation": got if got is not None else list(o)})


def hashed_tie(ck, pool, tier):
    """(b) members of a module with @forward: since d156cce the merged view keeps upstream order, so every
    run lists them alike — forwarded module first, then the module's own (model: insertion order)."""
    w = [x for x in _witnesses() if x[0] == "past:D13b-forward-members"]
    if not w:
        return
    _, _, p = w[0]
    runs = 20 if tier == "quick" else 200
    ans = pool.map([prog_job(p)] * runs, timeout=20)
    names = ["xq", "wq", "zq", "yq"]                       # upstream order: n.scss ($xq, $wq), then m.scss ($zq, $yq)
    model = driver([f"intern keywords 0 - {','.join(hexs(x) for x in names)}"])[0]
    expect = [unhex(x) for x in model[3:].split(",")] if model.startswith("ok ") else None
    orders = set()
    for a in ans:
        o = observe(a)
        m = re.search(r"b: \((.*)\);", o[1]) if o[0] == "css" else None
        got = [kv.split(":")[0].strip().strip('"') for kv in m.group(1).split(",")] if m else None
        orders.add(tuple(got or ()))
        ck.count(("merged-tie", got), True)
        if got != expect:
            ck.cov["model_disagreements"] += 1
            if len(ck.disagreements) < 3:
                ck.disagreements.append({"source": prog_text(p), "model_observation(now)": expect, "impl_observation": got or list(o)})
    ck.hist("merged-tie:distinct-orders", len(orders))
    ck.cov["hash_order_variants_seen"] = len(orders)


def unique_ids(ck, pool, tier):
    """unique-id(): every result a valid identifier, pairwise distinct within a compilation and
    across concurrently compiling threads."""
    k = 40
    src = "a{" + "".join(f"p{i}: unique-id();" for i in range(k)) + "}"
    job = compile_job(src)
    threads = [4] if tier == "quick" else [2, 4, 16]
    jobs = [job] * 5 + [{"mode": "par", "lists": [[job, job]] * n} for n in threads]
    ans = pool.map(jobs, timeout=60)
    groups = []
    for a in ans[:5]:
        groups.append([a])
    for a in ans[5:]:
        groups.append([x for l in a.get("results", []) for x in l])
    lines, metas = [], []
    for g in groups:
        all_ids, per = [], []
        for a in g:
            ids = re.findall(r"p\d+: ([^;]*);", a.get("css", "")) if a.get("status") == "ok" else None
            per.append(ids)
            if ids:
                all_ids += ids
        for ids in per:
            lines.append("intern uids " + (",".join(hexs(x) for x in ids) if ids else "-"))
            metas.append(("one-compilation", ids))
        if len(g) > 1:
            lines.append("intern uids " + (",".join(hexs(x) for x in all_ids) if all_ids else "-"))
            metas.append((f"across-{len(g)}-compilations-on-{len(g) // 2}-threads", all_ids))
    outs = driver(lines)
    for (what, ids), o in zip(metas, outs):
        ck.count(("uids", what, len(ids or [])), True)
        ck.hist("unique-id:" + what.split("-on-")[0])
        if ids is None or len(ids) != (k if what == "one-compilation" else len(ids)) or o != "ok 1":
            ck.impl_violation(None, {"what": "unique-id() results not valid/distinct", "scope": what, "ids": ids,
                                     "verdict": o, "source": src}, tags=[])


# --------------------------------------------------------------------------------------------
# unique-id() drawn from many evaluation contexts of ONE compilation
# --------------------------------------------------------------------------------------------

class UidGen:
    """One program = one compilation that calls unique-id() from many evaluation contexts, in random
    order.  Every id drawn reaches the CSS at a place the collector recognises:
        `u: <id> <id> …;`      declaration values (space separated)
        `pn-<id>: 1;`          interpolation in a property name
        `.s-<id>`              interpolation in a selector
    The number of draws that reach the output is known statically (`program()` returns it): loops have
    literal bounds and every callable a known yield per call."""

    MAXY = 6            # a callable that yields more ids than this per call is not nested into another one

    def __init__(self, rng):
        self.rng = rng
        self.k = 0
        self.files = {}
        self.kinds = {}

    def fresh(self, p):
        self.k += 1
        return f"{p}{self.k}"

    def hit(self, k):
        self.kinds[k] = self.kinds.get(k, 0) + 1

    @staticmethod
    def scope():
        return {"fns": [], "mix": [], "cmix": [], "ctx": "top"}

    # ---- expressions: (text, ids in the printed value) -----------------------------------
    def expr(self, sc):
        r = self.rng
        opts = ["direct", "direct", "interp-str", "lazy-if", "nth"]
        if sc["fns"]:
            opts += ["fn", "fn", "fn", "fn"]
            if any(f.get("callable") for f in sc["fns"]):
                opts += ["meta-call"]
        c = r.choice(opts)
        if c == "direct":
            self.hit("expr:direct@" + sc["ctx"])
            return "unique-id()", 1
        if c == "interp-str":
            self.hit("expr:interpolated-string@" + sc["ctx"])
            return 'unquote("#{unique-id()}")', 1
        if c == "lazy-if":
            self.hit("expr:if()")
            return f"if({r.choice(['true', 'false', '1 < 2'])}, unique-id(), unique-id())", 1
        if c == "nth":
            self.hit("expr:nth-of-list")
            return f"nth(unique-id() unique-id() unique-id(), {r.randint(1, 3)})", 1
        if c == "fn":
            f = r.choice(sc["fns"])
            self.hit("expr:call:" + f["kind"] + "@" + sc["ctx"])
            return f["call"](), f["ids_of"]
        f = r.choice([f for f in sc["fns"] if f.get("callable")])
        self.hit("expr:call(get-function)@" + sc["ctx"])
        return f"call(get-function('{f['callable']}'))", f["ids_of"]

    # ---- statements inside a style rule / mixin body / @content block ---------------------
    def body(self, sc, depth, n=None):
        out, ids = [], 0
        for _ in range(n or self.rng.randint(1, 3)):
            t, k = self.stmt(sc, depth)
            out.append(t)
            ids += k
        return " ".join(out), ids

    def stmt(self, sc, depth):
        r = self.rng
        opts = ["decl", "decl", "decl2", "propname", "var"]
        if sc["mix"]:
            opts += ["include", "include", "include"]
        if sc["cmix"]:
            opts += ["content", "content", "content"]
        if depth < 2:
            opts += ["each", "for", "while", "if", "nested-sel", "nested-plain", "media", "at-root"]
        c = r.choice(opts)
        if c == "decl":
            e, k = self.expr(sc)
            return f"u: {e};", k
        if c == "decl2":
            e1, k1 = self.expr(sc)
            e2, k2 = self.expr(sc)
            self.hit("stmt:two-in-one-declaration")
            return f"u: {e1} {e2};", k1 + k2
        if c == "propname":
            self.hit("stmt:interpolated-property-name@" + sc["ctx"])
            return "pn-#{unique-id()}: 1;", 1
        if c == "var":
            v = self.fresh("v")
            e, k = self.expr(sc)
            self.hit("stmt:local-variable@" + sc["ctx"])
            return f"${v}: {e}; u: ${v};", k
        if c == "include":
            m = r.choice(sc["mix"])
            self.hit("stmt:include:" + m["kind"] + "@" + sc["ctx"])
            return m["include"](), m["ids_of"]
        if c == "content":
            m = r.choice(sc["cmix"])
            b, k = self.body(dict(sc, ctx="content"), depth + 1)
            self.hit("stmt:include-with-content:" + m["kind"] + "@" + sc["ctx"])
            if m["using"]:
                x = self.fresh("x")
                return f"@include {m['name']} using (${x}) {{ u: ${x}; {b} }}", m["own"] + m["mult"] * (1 + k)
            return f"@include {m['name']} {{ {b} }}", m["own"] + m["mult"] * k
        if c == "each":
            n = r.randint(2, 4)
            b, k = self.body(dict(sc, ctx="each"), depth + 1)
            self.hit("stmt:@each@" + sc["ctx"])
            return f"@each ${self.fresh('e')} in {' '.join('abcd'[:n])} {{ {b} }}", n * k
        if c == "for":
            n = r.randint(2, 4)
            b, k = self.body(dict(sc, ctx="for"), depth + 1)
            self.hit("stmt:@for@" + sc["ctx"])
            return f"@for ${self.fresh('i')} from 1 through {n} {{ {b} }}", n * k
        if c == "while":
            n = r.randint(2, 3)
            w = self.fresh("w")
            b, k = self.body(dict(sc, ctx="while"), depth + 1)
            self.hit("stmt:@while@" + sc["ctx"])
            return f"${w}: 0; @while ${w} < {n} {{ {b} ${w}: ${w} + 1; }}", n * k
        if c == "if":
            b1, k1 = self.body(dict(sc, ctx="if"), depth + 1)
            b2, k2 = self.body(dict(sc, ctx="if"), depth + 1)
            t = r.random() < 0.5
            self.hit("stmt:@if/@else")
            return f"@if {'1 < 2' if t else '2 < 1'} {{ {b1} }} @else {{ {b2} }}", k1 if t else k2
        if c == "nested-sel":
            b, k = self.body(sc, depth + 1)
            self.hit("stmt:interpolated-selector@" + sc["ctx"])
            return f".s-#{{unique-id()}} {{ z: 1; {b} }}", 1 + k
        if c == "nested-plain":
            b, k = self.body(sc, depth + 1)
            return f"& .{self.fresh('n')} {{ {b} }}", k
        if c == "media":
            b, k = self.body(sc, depth + 1)
            self.hit("stmt:@media")
            return f"@media screen {{ {b} }}", k
        b, k = self.body(sc, depth + 1)
        self.hit("stmt:@at-root")
        return f"@at-root .s-#{{unique-id()}} {{ z: 1; {b} }}", 1 + k

    # ---- declarations of callables --------------------------------------------------------
    def decl(self, sc):
        r = self.rng
        small_f = [f for f in sc["fns"] if f["ids_of"] <= self.MAXY]
        small_m = [m for m in sc["mix"] if m["ids_of"] <= self.MAXY]
        small_c = [m for m in sc["cmix"] if m["mult"] <= 3 and m["own"] <= self.MAXY]
        kinds = ["fn-1", "fn-1", "fn-loop", "fn-rec", "fn-if", "fn-var", "mix-1", "mix-var", "mix-default", "mix-loop",
                 "mix-body", "mix-sel", "cmix-plain", "cmix-own", "cmix-using"]
        if small_f:
            kinds += ["fn-nest", "fn-nest", "mix-fn"]
        if small_m:
            kinds += ["mix-nest"]
        if small_c:
            kinds += ["cmix-nest"]
        c = r.choice(kinds)
        self.hit("decl:" + c)
        if c.startswith("fn"):
            f = self.fresh("uf")
            arg = ""
            if c == "fn-1":
                txt, ids = f"@function {f}() {{ @return unique-id(); }}", 1
            elif c == "fn-var":
                txt, ids = f"@function {f}() {{ $r: unique-id(); $q: unique-id(); @return $q $r; }}", 2
            elif c == "fn-loop":
                ids = r.randint(2, 4)
                arg = str(ids)
                txt = f"@function {f}($k) {{ $r: (); @for $i from 1 through $k {{ $r: append($r, unique-id(), space); }} @return $r; }}"
            elif c == "fn-rec":
                ids = r.randint(1, 4)
                arg = str(ids)
                txt = f"@function {f}($d) {{ @if $d <= 1 {{ @return unique-id(); }} @return unique-id() {f}($d - 1); }}"
            elif c == "fn-if":
                txt, ids = f"@function {f}() {{ @if 1 < 2 {{ @return unique-id(); }} @else {{ @return unique-id() unique-id(); }} }}", 1
            else:
                g = r.choice(small_f)
                txt, ids = f"@function {f}() {{ $a: {g['call']()}; @return unique-id() $a {g['call']()}; }}", 1 + 2 * g["ids_of"]
            ent = {"kind": c, "ids_of": ids, "name": f, "call": (lambda name, arg: (lambda ns="": f"{ns}{name}({arg})"))(f, arg)}
            if not arg:
                ent["callable"] = f
            sc["fns"].append(ent)
            return txt
        if c.startswith("mix"):
            m = self.fresh("um")
            arg = ""
            if c == "mix-1":
                txt, ids = f"@mixin {m} {{ u: unique-id(); }}", 1
            elif c == "mix-var":
                txt, ids = f"@mixin {m} {{ $name: unique-id(); u: $name; }}", 1
            elif c == "mix-default":
                txt, ids = f"@mixin {m}($a: unique-id(), $b: unique-id()) {{ u: $b $a; }}", 2
            elif c == "mix-loop":
                ids = r.randint(2, 4)
                arg = f"({ids})"
                txt = f"@mixin {m}($k) {{ @for $i from 1 through $k {{ u: unique-id(); }} }}"
            elif c == "mix-body":
                b, ids = self.body(dict(sc, ctx="mixin"), 1)
                txt = f"@mixin {m} {{ {b} }}"
            elif c == "mix-sel":
                txt, ids = f"@mixin {m} {{ .s-#{{unique-id()}} {{ z: 1; u: unique-id(); pn-#{{unique-id()}}: 1; }} }}", 3
            elif c == "mix-fn":
                g = r.choice(small_f)
                txt, ids = f"@mixin {m} {{ u: {g['call']()}; u: unique-id(); }}", g["ids_of"] + 1
            else:
                g = r.choice(small_m)
                txt, ids = f"@mixin {m} {{ {g['include']()} u: unique-id(); {g['include']()} }}", 2 * g["ids_of"] + 1
            sc["mix"].append({"kind": c, "ids_of": ids, "name": m,
                              "include": (lambda name, arg: (lambda ns="": f"@include {ns}{name}{arg};"))(m, arg)})
            return txt
        m = self.fresh("uc")
        if c == "cmix-plain":
            mult = r.randint(2, 3)
            txt, own, using = f"@mixin {m} {{ {' '.join(['@content;'] * mult)} }}", 0, False
        elif c == "cmix-own":
            mult, own, using = 2, 2, False
            txt = f"@mixin {m} {{ u: unique-id(); @content; u: unique-id(); @content; }}"
        elif c == "cmix-using":
            mult, own, using = 2, 0, True
            txt = f"@mixin {m} {{ @content(unique-id()); @content(unique-id()); }}"
        else:
            g = r.choice(small_c)
            if g["using"]:
                mult, own, using = 2 * g["mult"], g["own"] + g["mult"], False
                txt = f"@mixin {m} {{ @include {g['name']} using ($y) {{ u: $y; @content; @content; }} }}"
            else:
                mult, own, using = g["mult"], g["own"] + g["mult"], False
                txt = f"@mixin {m} {{ @include {g['name']} {{ @content; u: unique-id(); }} }}"
        sc["cmix"].append({"kind": c, "name": m, "mult": mult, "own": own, "using": using})
        return txt

    # ---- a file: top-level items in random order ------------------------------------------
    def items(self, sc, n_items, tag, nested_files=True):
        r = self.rng
        out, ids, pending = [], 0, []
        for _ in range(n_items):
            opts = ["decl", "decl", "rule", "rule", "global", "global", "sel-rule", "top-each"]
            if nested_files:
                opts += ["import", "load-css"]
            c = r.choice(opts)
            if c == "decl":
                out.append(self.decl(sc))
            elif c == "rule":
                b, k = self.body(dict(sc, ctx="rule"), 0, r.randint(1, 4))
                out.append(f"{self.fresh(tag + 'r')} {{ {b} }}")
                ids += k
            elif c == "global":
                g = self.fresh("g")
                e, k = self.expr(dict(sc, ctx="top-level-variable"))
                out.append(f"${g}: {e};")
                pending.append(g)
                ids += k
                self.hit("item:top-level-variable")
            elif c == "sel-rule":
                b, k = self.body(dict(sc, ctx="rule"), 1, r.randint(1, 2))
                out.append(f".s-#{{unique-id()}} {{ z: 1; {b} }}")
                ids += 1 + k
                self.hit("item:interpolated-selector-top-level")
            elif c == "top-each":
                n = r.randint(2, 3)
                b, k = self.body(dict(sc, ctx="rule-in-top-level-loop"), 1, r.randint(1, 2))
                out.append(f"@each ${self.fresh('t')} in {' '.join('xyz'[:n])} {{ .s-#{{unique-id()}} {{ z: 1; {b} }} }}")
                ids += n * (1 + k)
                self.hit("item:top-level-@each")
            elif c == "import":
                name = self.fresh("imp")
                txt, k = self.items(sc, r.randint(1, 4), name, nested_files=False)     # same scope: @import shares the environment
                self.files[f"_{name}.scss"] = txt
                out.append(f"@import '{name}';")
                ids += k
                self.hit("item:@import")
            else:
                name = self.fresh("lc")
                txt, k = self.items(self.scope(), r.randint(1, 4), name, nested_files=False)
                self.files[f"_{name}.scss"] = txt
                out.append(f"@include meta.load-css('{name}');" if r.random() < 0.5 else
                           f"{self.fresh('lr')} {{ @include meta.load-css('{name}'); }}")
                ids += k
                self.hit("item:meta.load-css")
            if pending and r.random() < 0.4:
                out.append(f"{self.fresh(tag + 'p')} {{ " + " ".join(f"u: ${g};" for g in pending) + " }")
                pending = []
        if pending:
            out.append(f"{self.fresh(tag + 'p')} {{ " + " ".join(f"u: ${g};" for g in pending) + " }")
        return "\n".join(out), ids

    def module(self, sc_entry, star):
        """A module with its own scope; its CSS is emitted at the @use; its functions, mixins and one
        variable are used from the entry file under `name.` (or bare with `as *`)."""
        r = self.rng
        name = self.fresh("mod")
        sc = self.scope()
        pre, ids, exported = "", 0, []
        if r.random() < 0.35:
            inner = self.fresh("fwd")
            isc = self.scope()
            itxt, k = self.items(isc, r.randint(1, 3), inner, nested_files=False)
            self.files[f"_{inner}.scss"] = itxt
            pre = f"@forward '{inner}';\n"
            ids += k
            exported.append(isc)
            self.hit("module:@forward")
        txt, k = self.items(sc, r.randint(1, 4), name, nested_files=False)
        ids += k
        v = None
        if r.random() < 0.6:
            v = self.fresh("mv")
            txt = f"${v}: unique-id();\n" + txt
            self.hit("module:top-level-variable-read-from-entry")
        self.files[f"_{name}.scss"] = pre + txt
        ns = "" if star else name + "."
        for s in exported + [sc]:
            for f in s["fns"]:
                e = dict(f, kind="module-" + f["kind"], call=(lambda c, ns: (lambda _ns="": c(ns)))(f["call"], ns))
                e.pop("callable", None)
                sc_entry["fns"].append(e)
            for m in s["mix"]:
                sc_entry["mix"].append(dict(m, kind="module-" + m["kind"],
                                            include=(lambda c, ns: (lambda _ns="": c(ns)))(m["include"], ns)))
            for m in s["cmix"]:
                sc_entry["cmix"].append(dict(m, kind="module-" + m["kind"], name=ns + m["name"]))
        self.hit("module:@use" + (" as *" if star else ""))
        after = ""
        if v:
            after = f"{self.fresh('mvr')} {{ u: {ns}${v}; }}"
            ids += 1
        return f"@use '{name}'" + (" as *;" if star else ";"), after, ids

    def program(self):
        r = self.rng
        sc = self.scope()
        head, after, ids = ['@use "sass:meta";'], [], 0
        if r.random() < 0.3:
            g = self.fresh("g")
            head.insert(0, f"${g}: unique-id();")
            after.append(f"{self.fresh('pre')} {{ u: ${g}; }}")
            ids += 1
            self.hit("item:top-level-variable-before-@use")
        for _ in range(r.choice([0, 1, 1, 2])):
            u, a, k = self.module(sc, r.random() < 0.3)
            head.append(u)
            if a:
                after.append(a)
            ids += k
        txt, k = self.items(sc, r.randint(4, 9), "e")
        ids += k
        parts = head + after + [txt]
        while ids < 8:
            b, k = self.body(dict(sc, ctx="rule"), 0, 3)
            parts.append(f"{self.fresh('pad')} {{ {b} }}")
            ids += k
        self.files["e.scss"] = "\n".join(parts)
        return self.files, ids


_U_LINE = re.compile(r"^\s*u: (.*);$")
_PN_LINE = re.compile(r"^\s*pn-(.*): 1;$")
_SEL = re.compile(r"\.s-([^\s,{]+)")


def collect_ids(css):
    """Every id the compilation printed.  Declaration values and property names are printed exactly
    once each; a selector is printed again for every nested rule / bubbled @media, so the ids met in
    selectors are taken once each (two selector draws that collide make the total fall short of the
    statically known number of draws, which is checked separately)."""
    out, sel, seen = [], [], set()
    for line in css.split("\n"):
        m = _U_LINE.match(line)
        if m:
            out += m.group(1).split()
            continue
        m = _PN_LINE.match(line)
        if m:
            out.append(m.group(1))
            continue
        s = line.rstrip()
        if s.endswith("{") or s.endswith(","):
            for x in _SEL.findall(s):
                if x not in seen:
                    seen.add(x)
                    sel.append(x)
    return out + sel


# the seeded change C02-r3m2 in its smallest form + hand-written mixes; run first on every run
UID_CORPUS = [
    ("uid:top-level-then-function-twice",
     {"e.scss": "$page: unique-id();\n@function uid() { @return unique-id(); }\na { u: $page; u: uid(); u: uid(); u: uid() uid(); u: unique-id(); "
                "u: uid(); u: unique-id() uid(); }"}, 9),
    ("uid:top-level-then-mixin-and-content-twice",
     {"e.scss": "$page: unique-id();\n@mixin animated { $name: unique-id(); u: $name; }\n@mixin twice { @content; @content; }\n"
                "ids { u: $page; @include animated; @include animated; @include twice { u: unique-id(); } u: unique-id(); "
                "@include twice { @include animated; } pn-#{unique-id()}: 1; }"}, 9),
    ("uid:import-and-use-after-top-level",
     {"e.scss": "$g: unique-id();\n@use 'm';\n@import 'i';\na { u: $g m.f() m.f() m.$v; @include m.mx; @include m.mx; u: fi() fi(); "
                "@each $x in a b c { u: fi(); .s-#{unique-id()} { z: 1; u: m.f(); } } }",
      "_m.scss": "$v: unique-id();\n@function f() { @return unique-id(); }\n@mixin mx { u: unique-id() f(); }\nmr { u: f() unique-id(); }",
      "_i.scss": "$h: unique-id();\n@function fi() { @return unique-id(); }\nir { u: $h fi() unique-id(); }"}, 24),
]


def _uid_python_verdict(ids):
    """Steering only (shrinking): the verdict reported is always the Lean driver's."""
    return len(set(ids)) == len(ids) and all(re.fullmatch(r"(-?[A-Za-z_\u0080-\U0010ffff]|--)[A-Za-z0-9_\u0080-\U0010ffff-]*", x) for x in ids)


def _uid_shrink(pool, files, budget=80):
    """Greedy line removal over every file while the compilation still succeeds and still prints
    ids that are not valid/distinct (twice in a row: the draws are random)."""
    def fails(fs):
        rs = pool.map([compile_job(files=fs, entry="e.scss")] * 2, timeout=30)
        for a in rs:
            got = collect_ids(a.get("css", "")) if a.get("status") == "ok" else None
            # a call of a function whose declaration was removed is printed as plain CSS `name()`: not a smaller witness
            if not got or any("(" in x for x in got) or _uid_python_verdict(got):
                return False
        return True
    cur = {k: v.split("\n") for k, v in files.items()}
    progress = True
    while progress and budget > 0:
        progress = False
        for k in sorted(cur, key=lambda k: -len(cur[k])):
            i = 0
            while i < len(cur[k]) and budget > 0:
                cand = {kk: (vv[:i] + vv[i + 1:] if kk == k else vv) for kk, vv in cur.items()}
                budget -= 1
                if fails({kk: "\n".join(vv) for kk, vv in cand.items()}):
                    cur, progress = cand, True
                else:
                    i += 1
    return {k: "\n".join(v) for k, v in cur.items()}


def unique_id_contexts(ck, pool, tier):
    """(c) DIRECT, the clause “each unique-id() result within one compilation is a distinct valid
    identifier”: generated programs draw ids at top level, in function / mixin / @content bodies invoked
    repeatedly, in loops, in imported files, in modules (@use, @forward, meta.load-css), in interpolation —
    declared and invoked in random order; all ids of ONE compilation are collected from the CSS and the
    Lean driver evaluates `uniqueIdsOk` (the predicate of C02_uniqueIdCounter_ok / C02_uniqueId_valid_ident)
    on them.  The number of ids printed must equal the number of draws known from the generator."""
    rng = ck.rng
    n = 400 if tier == "quick" else 6000
    progs = [(name, files, ids, {"corpus": 1}) for name, files, ids in UID_CORPUS]
    while len(progs) < n + len(UID_CORPUS):
        g = UidGen(rng)
        files, ids = g.program()
        if ids > 160 or sum(len(v) for v in files.values()) > 12000:
            continue
        progs.append((f"gen{len(progs)}", files, ids, g.kinds))
    answers = pool.map([compile_job(files=f, entry="e.scss") for _, f, _, _ in progs], timeout=60)
    lines, metas = [], []
    total = 0
    for (name, files, ids, kinds), a in zip(progs, answers):
        got = collect_ids(a.get("css", "")) if a.get("status") == "ok" else None
        metas.append(got)
        lines.append("intern uidwhy " + (",".join(hexs(x) for x in got) if got else "-"))
    outs = driver(lines)
    bad = []
    for (name, files, ids, kinds), a, got, o in zip(progs, answers, metas, outs):
        ck.count(("uid-contexts", json.dumps(files, sort_keys=True)), True)
        for k, v in kinds.items():
            ck.hist("uidctx:" + k, v)
        ck.hist("uidctx:ids-per-program:" + ("8-15" if ids < 16 else "16-39" if ids < 40 else "40-79" if ids < 80 else "80-160"))
        ck.hist("uidctx:files-per-program:" + str(min(len(files), 5)))
        total += ids
        # (b) tie of the draw model: every id grass printed has the shape `uniqueIdDraw` produces
        shape_ok = o.split()[-1] == "1" if o.startswith("ok ") and len(o.split()) == 7 else None
        ck.hist("uidctx:draw-shape-" + {True: "as-modelled", False: "differs", None: "n/a"}[shape_ok])
        if shape_ok is False and got:
            ck.cov["model_disagreements"] += 1
            if len(ck.disagreements) < 3:
                ck.disagreements.append({"kind": "unique-id-draw-shape", "source": files,
                                         "model_observation(now)": "'id-' + 12 characters of rand's Alphanumeric charset (Grass.Interner.uniqueIdDraw)",
                                         "impl_observation": got[:4]})
        if got is not None and len(got) == ids and o.startswith("ok 1"):
            continue
        bad.append((sum(len(v) for v in files.values()), name, files, ids, a, got, o))
    ck.cov["unique_id_context_programs"] = len(progs)
    ck.cov["unique_id_context_ids"] = total
    if len(progs) > 5:
        name, files, ids, kinds = progs[5]
        ck.sample({"unique-id contexts": files, "ids_expected": ids, "ids_printed": (metas[5] or [])[:6], "verdict": outs[5]})
    bad.sort(key=lambda b: b[0])
    for n_rep, (_, name, files, ids, a, got, o) in enumerate(bad):
        if n_rep >= 5:
            ck.cov["impl_property_failures"] += 1
            continue
        shrunk = None
        if got is not None and not o.startswith("ok 1") and n_rep < 2:
            shrunk = _uid_shrink(pool, files)
            a2 = pool.map([compile_job(files=shrunk, entry="e.scss")], timeout=30)[0]
            got2 = collect_ids(a2.get("css", "")) if a2.get("status") == "ok" else None
            o2 = driver(["intern uidwhy " + (",".join(hexs(x) for x in got2) if got2 else "-")])[0]
            if got2 and not o2.startswith("ok 1"):
                files, got, o, a = shrunk, got2, o2, a2
            else:
                shrunk = None
        what = ("compilation failed" if got is None else
                "unique-id() results of ONE compilation are not all valid identifiers / pairwise distinct" if not o.startswith("ok 1") else
                f"{len(got)} ids printed, {ids} drawn")
        ck.impl_violation(None, {"what": what, "program": name, "source": files, "entry": "e.scss", "shrunk": shrunk is not None,
                                 "ids_drawn_per_generator": None if shrunk is not None else ids, "ids_printed": got,
                                 "lean_verdict(ok valid distinct first-invalid first-repeated)": o,
                                 "status": a.get("status"), "error": a.get("display"),
                                 "expected_by_property": "every unique-id() result of one compilation is a valid CSS identifier and no two are equal",
                                 "kind_of_replay": "unique-id-contexts"}, tags=[])


def _dec(text):
    """Decimal text → (mantissa, scale), or None."""
    m = re.fullmatch(r"(-?)(\d*)(?:\.(\d+))?", text.strip())
    if not m or (not m.group(2) and not m.group(3)):
        return None
    frac = m.group(3) or ""
    return int(m.group(1) + (m.group(2) or "0") + frac), len(frac)


def random_tie(ck, pool, tier):
    """random($limit) (builtin/functions/math.rs:89): the model's argument validation (`randomSpec`) against
    grass, and P̂ `randomOk` — [0,1) without a limit, exactly 1 for limit 1, an integer in 1..limit otherwise,
    the right error class for a non-number / non-integer / non-positive limit — evaluated by the Lean driver
    on every value grass printed."""
    rng = ck.rng
    n_sheets = 40 if tier == "quick" else 600
    cases = []                                       # (arg text, arg token, job index, slot | None)
    jobs = []
    for _ in range(n_sheets):
        args = []
        for _ in range(16):
            c = rng.choice(["absent", "null", "one", "small", "small", "big", "unit", "two"])
            a = {"absent": "", "null": "null", "one": rng.choice(["1", "1.0"]), "two": "2",
                 "small": str(rng.randint(2, 12)), "big": str(rng.choice([100, 1000, 65536, 10 ** 6, 2 ** 31, 10 ** 9 + 7])),
                 "unit": f"{rng.randint(2, 9)}{rng.choice(['px', 'em', '%'])}"}[c]
            args.append(a)
        for k, a in enumerate(args):
            d = _dec(re.sub(r"[a-z%]+$", "", a)) if a not in ("", "null") else None
            cases.append((a, "absent" if d is None else f"num:{d[0]}:{d[1]}", len(jobs), k))
        jobs.append(compile_job("a{" + "".join(f"r{k}: random({a});" for k, a in enumerate(args)) + "}"))
    bad_args = ["0", "-1", "-3", "-1000000", "1.5", "2.25", "-0.5", "0.999", "0.5", "1.001", "7.5px", "'a'", "red", "(1 2)", "true",
                "a", "\"3\"", "(a: 1)", "0px", "-2em"]
    for a in bad_args * (1 if tier == "quick" else 3):
        d = _dec(re.sub(r"[a-z%]+$", "", a))
        cases.append((a, f"num:{d[0]}:{d[1]}" if d else "nan", len(jobs), None))
        jobs.append(compile_job(f"a{{r0: random({a});}}"))
    answers = pool.map(jobs, timeout=30)
    lines, keep = [], []
    for a, tok, j, slot in cases:
        ans = answers[j]
        o = observe(ans)
        if o[0] == "css":
            m = re.search(rf"\br{slot or 0}: ([^;]*);", o[1])
            d = _dec(m.group(1)) if m else None
            obs = f"val:{d[0]}:{d[1]}" if d else None
            shown = m.group(1) if m else o[1][:80]
        elif o[0] == "err":
            msg = o[1].split("\n")[0]
            obs = "err:" + ("number" if "is not a number" in msg else "int" if "is not an int" in msg else
                            "positive" if "Must be greater than 0" in msg else "other")
            shown = msg
        else:
            obs, shown = None, str(o)[:80]
        if obs is None:
            ck.cov["unsupported_dropped"] += 1
            continue
        lines.append(f"intern random {tok} {obs}")
        keep.append((a, tok, obs, shown))
    outs = driver(lines)
    for (a, tok, obs, shown), o in zip(keep, outs):
        parts = o.split()
        ck.count(("random", a, obs), True)
        ck.hist("random:model-class:" + (parts[2] if len(parts) > 2 else "?"))
        if o.startswith("ok 1"):
            continue
        if len(parts) < 3 or parts[0] != "ok":
            ck.cov["unsupported_dropped"] += 1
            continue
        if obs.startswith("val:") and parts[2] in ("unit01", "exactly1", "oneTo"):
            ck.impl_violation(None, {"what": "random() result outside the specified range", "source": f"a{{r0: random({a});}}", "argument": a,
                                     "printed": shown, "model_class": parts[2], "lean_verdict": o, "kind_of_replay": "random",
                                     "expected_by_property": "no limit: 0 <= r < 1; limit 1: 1; integer limit n >= 1: an integer 1..n"}, tags=[])
        else:
            ck.cov["model_disagreements"] += 1
            if len(ck.disagreements) < 3:
                ck.disagreements.append({"kind": "random-argument-validation", "source": f"a{{r0: random({a});}}",
                                         "model_observation(now)": parts[2], "impl_observation": shown})


def concurrency_stress(ck, R, pool, programs, refs, usable, tier):
    """Deeply recursive programs (call depth 150-200, dwelling at the bottom) compiled on 8 and 16
    threads at once: any process-wide resource shared between compilations shows here."""
    rng = ck.rng
    deep = [i for i in usable if programs[i]["origin"] in ("gen:deep-fn", "gen:deep-mixin")]
    if len(deep) < 4:
        return
    rounds = 3 if tier == "quick" else 12
    jobs, meta = [], []
    for n_threads in (8, 16):
        for _ in range(rounds):
            lists = [[rng.choice(deep) for _ in range(3)] for _ in range(n_threads)]
            jobs.append({"mode": "par", "lists": [[prog_job(programs[i]) for i in l] for l in lists]})
            meta.append((n_threads, lists))
    res = pool.map(jobs, timeout=300)
    for (n_threads, lists), r in zip(meta, res):
        for t, l in enumerate(lists):
            rl = r["results"][t] if r.get("status") == "ok" and t < len(r.get("results", [])) else None
            for k, i in enumerate(l):
                o = observe(rl[k]) if rl is not None and k < len(rl) else ("lost:" + str(r.get("status")), "")
                R.compare(programs[i], {"mode": f"deep-par{n_threads}", "slot": [t, k], "_hl": (l, k)}, refs[i], o)
    R.flush()


def cli_processes(ck, R, pool, programs, usable, tier):
    """Fresh OS processes through the command-line binary (`Options::load_paths`, fresh hash seeds):
    programs whose imports have competing candidates in >= 2 load paths, run N times each; every run
    must equal the first, and the first must equal the library's answer (runner, std Fs, same paths)."""
    import concurrent.futures
    import shutil
    import subprocess
    ok, err = vlib.build_cli()
    if not ok or not os.path.exists(vlib.GRASS_BIN):
        ck.notes.append("grass binary does not build: fresh-process runs through the CLI skipped (see C20)")
        ck.hist("cli-process:skipped-no-binary")
        return
    rng = ck.rng
    cand = [i for i in usable if programs[i]["origin"].startswith("gen:competing")]
    # load paths given in non-alphabetical order first: a sorted/de-duplicated search order must show
    cand.sort(key=lambda i: programs[i]["options"]["load_paths"] == sorted(programs[i]["options"]["load_paths"]))
    cand = cand[:5] if tier == "quick" else cand[:24]
    n_runs = 20 if tier == "quick" else 50
    root = os.path.join(BUILD, f"c02-{os.getpid()}-{ck.seed}")
    shutil.rmtree(root, ignore_errors=True)
    try:
        runs, lib_jobs = [], []
        for i in cand:
            p = programs[i]
            d = os.path.join(root, f"p{i}")
            for k, v in p["files"].items():
                os.makedirs(os.path.dirname(os.path.join(d, k)), exist_ok=True)
                with open(os.path.join(d, k), "w") as f:
                    f.write(v)
            lps = [os.path.join(d, x) for x in p["options"]["load_paths"]]
            argv = [a for lp in lps for a in ("-I", lp)] + [os.path.join(d, p["entry"])]
            runs += [(i, argv)] * n_runs
            lib_jobs.append({"mode": "compile", "entry": os.path.join(d, p["entry"]), "fs": "std", "logger": "null",
                             "options": {"load_paths": lps, "load_paths_api": "singular"}})   # the binary uses `load_paths` (plural)

        # process-level perturbation: every run gets another environment block (size, variables the std
        # runtime / allocator / locale code may read) and another argv[0] (length), on top of the fresh
        # hash seeds and address-space layout every new process has anyway
        exes = []
        for k, nm in enumerate(["g", "grass-run", "grass-" + "x" * 40, "grass-" + "y" * 180]):
            lp = os.path.join(root, nm)
            try:
                os.symlink(vlib.GRASS_BIN, lp)
                exes.append(lp)
            except OSError:
                pass
        exes = exes or [vlib.GRASS_BIN]

        def perturbed_env(k):
            env = dict(os.environ)
            env["C02_PAD_" + "k" * (k % 9)] = "v" * ((k * 613) % 6000)
            env["RUST_BACKTRACE"] = ["0", "1", "full"][k % 3]
            env["LANG"] = env["LC_ALL"] = ["C", "en_US.UTF-8", "de_DE.UTF-8", "tr_TR.UTF-8"][k % 4]
            env["TZ"] = ["UTC", "Asia/Tokyo", "America/New_York"][k % 3]
            env["MALLOC_PERTURB_"] = str(k % 255)
            env["NO_COLOR"] = str(k % 2)
            if k % 5 == 0:
                env.pop("HOME", None)
            return env

        def one(ka):
            k, a = ka
            try:
                r = subprocess.run([exes[k % len(exes)]] + a[1], stdout=subprocess.PIPE, stderr=subprocess.PIPE, timeout=120, cwd=root,
                                   env=perturbed_env(k))
                return ("css", r.stdout.decode("utf-8", "replace")) if r.returncode == 0 else \
                    ("err", re.sub(r"\n$", "", r.stderr.decode("utf-8", "replace"), count=1))
            except subprocess.TimeoutExpired:
                return ("timeout", "")
        with concurrent.futures.ThreadPoolExecutor(max_workers=16) as ex:
            outs = list(ex.map(one, list(enumerate(runs))))
        libs = [observe(a) for a in pool.map(lib_jobs, timeout=30)]
        first = {}
        for (i, argv), o in zip(runs, outs):
            if i not in first:
                first[i] = o
                R.compare(programs[i], {"mode": "cli-vs-library", "argv": argv}, libs[cand.index(i)], o)
            else:
                R.compare(programs[i], {"mode": "cli-process", "argv": argv}, first[i], o)
        ck.cov["cli_fresh_processes"] = len(runs)
        ck.hist("cli-process:perturbed-env-and-argv0", len(runs))
        R.flush()
    finally:
        shutil.rmtree(root, ignore_errors=True)


def load_programs(ck, tier):
    cs, skipped = corpus.load()
    rng = ck.rng
    progs = []
    for c in cs:
        progs.append(P(src=c["input"], options=dict(c["options"]), origin="corpus:" + c["file"] + ":" + c["name"]))
    interesting = [p for p in progs if re.search(r"keywords\(|@use|@forward|@extend|module-|\$[\w-]+\s*:[^;{}]*\)|@include|@function",
                                                 p["input"])]
    if tier == "quick":
        rest = [p for p in progs if p not in interesting]
        chosen = rng.sample(interesting, min(280, len(interesting))) + rng.sample(rest, 120)
    else:
        chosen = progs
    n_gen = 160 if tier == "quick" else 3000
    gens = [gen_program(rng) for _ in range(n_gen)]
    forced = {"deep-fn": 12, "deep-mixin": 12, "competing": 10, "competing-use": 6}
    for k, n in forced.items():
        gens += [gen_program(rng, k) for _ in range(n if tier == "quick" else 4 * n)]
    return chosen, gens, len(cs), skipped


def run(tier, seed):
    ck = Check("C02", tier, seed)
    ck.disagreements = []
    ck.cov["rule"] = (
        "metamorphic cases (program, context): program = golden-corpus input or generated multi-file program over "
        "keyword arguments / keywords() / module members / @use-with / @forward show,hide,as / @extend / @import / maps / "
        "unknown units with names drawn from a 13-name pool; context = one of: history of 1-3 prior compilations on the "
        "same thread (the program's own identifiers interned as variables in reversed order, as property names and units "
        "in shuffled order, as function/mixin names in sorted order; other corpus programs; the program itself), slot in "
        "one of N threads compiling shuffled programs concurrently, fresh runner process; histories over the SAME in-memory paths "
        "(other contents, rotated load paths, winning candidate missing) for multi-file programs; deeply recursive programs on "
        "8/16 threads at once; programs with competing candidates in >=2 load paths run 20x through the CLI binary (fresh OS processes). A case is distinct by (program "
        "text, options, mode, history/slot); all are non-trivial (a compilation really preceded or ran beside it). "
        "Tie cases: random histories x keyword-argument calls, non-trivial when the as-found and specified orders differ.")
    ck.assumptions = [
        "TESTING, not proof, for the whole compiler: the theorems cover the identifier/id discipline of Grass/Interner.lean only",
        "a fresh thread of the runner process has an empty interner (thread_local) and fresh std RandomState keys",
        "observations: CSS text or Display of the error, byte for byte; programs calling random()/unique-id() are excluded "
        "from equality and checked for valid, pairwise distinct ids instead",
        "real scheduler / memory model / allocator state are outside the model (threads are started together behind a barrier)"]
    # static tie: Grass/Generated/GlobalState.lean regenerated from the Rust source BEFORE the proof step
    # (C02_survivors_modelled is `decide` over that table)
    try:
        gitems, gchanged, gnew, ggone = translate_iter_sites.generate_globals(REPO)
        ck.cov["global_state"] = {"items": [f"{g['file']}:{g['line']} {g['name']} [{g['cls']}]" for g in gitems],
                                  "table_changed": gchanged, "new": gnew, "gone": ggone}
        for g in gitems:
            ck.hist("global-state:" + g["cls"])
        if gnew:
            ck.notes.append(f"{len(gnew)} static/thread_local item(s) not in tools/data/c02_global_state.json: " + " | ".join(gnew[:10]))
    except Exception as e:                                 # noqa: BLE001 — the proof step then runs on the committed table
        ck.cov["global_state"] = {"error": repr(e)}
        ck.cov["translator_ok"] = False
    ck.do_prove(cores=("intern",))
    if not ck.do_build_runner():
        ck.unproved("correspondence-broken", {"why": "runner does not build against /repo", "error": getattr(ck, "build_error", "")})
        return ck.finish()

    # static tie: container iteration sites
    sites, new, gone, n_exp = translate_iter_sites.compare(REPO)
    ck.cov["iteration_sites"] = {"count": len(sites), "expected": n_exp, "new": new, "gone": gone,
                                 "iterating": [f"{s['file']}:{s['line']} [{s['fn']}] {s['text'][:100]}" for s in sites if s["kind"] == "iter"]}
    ck.cov["translator_ok"] = new is not None and "error" not in ck.cov.get("global_state", {})
    if new:
        ck.notes.append(f"{len(new)} container declaration/iteration site(s) not in tools/data/c02_iter_sites.json — look at them: " + " | ".join(new[:10]))
    if gone:
        ck.notes.append(f"{len(gone)} expected site(s) no longer present (list may need regenerating: python3 tools/translate_iter_sites.py --write-expected)")

    pool = RunnerPool()
    R = Run(ck, pool)
    rng = ck.rng
    t0 = time.time()

    # ---- witnesses of the known findings first ------------------------------------------------
    for kid, hist, p in _witnesses():
        ref = observe(pool.map([prog_job(p)], timeout=20)[0])
        if hist:
            r = pool.map([seq_job([compile_job(h) for h in hist], p)], timeout=30)[0]
            others = [observe(r["results"][-1])] if r.get("status") == "ok" else []
        else:
            others = [observe(a) for a in pool.map([prog_job(p)] * 12, timeout=20)]
        differs = False
        for o in others:
            R.compare(p, {"mode": "witness", "history": hist, "witness_of": kid}, ref, o)
            differs = differs or o != ref
        if not differs and not kid.startswith("past:"):
            ck.notes.append(f"known finding {kid}: witness no longer fails on this tree (entry is stale)")
    R.flush()

    # ---- (b) model tie ------------------------------------------------------------------------
    model_tie(ck, pool, tier)
    hashed_tie(ck, pool, tier)
    unique_ids(ck, pool, tier)
    unique_id_contexts(ck, pool, tier)
    random_tie(ck, pool, tier)
    log(f"[C02] tie + unique-id + random done in {time.time() - t0:.1f}s")

    # ---- (c) metamorphic run ------------------------------------------------------------------
    chosen, gens, n_corpus, skipped = load_programs(ck, tier)
    programs = chosen + gens
    ck.cov["corpus_programs"] = n_corpus
    refs_ans = pool.map([prog_job(p) for p in programs], timeout=20)
    refs = [observe(a) for a in refs_ans]
    usable = []
    for i, (p, o) in enumerate(zip(programs, refs)):
        if o[0] not in ("css", "err"):
            ck.hist("excluded:fresh-status-" + o[0])
            continue
        if RANDOMISED.search(prog_text(p)):
            ck.hist("excluded:random()/unique-id()")
            continue
        usable.append(i)
        ck.hist("program:" + p["origin"].split(":")[0] + (":" + p["origin"].split(":")[1] if p["origin"].startswith("gen") else ""))
        ck.hist("ref:" + o[0])
    log(f"[C02] {len(programs)} programs, {len(usable)} usable, refs in {time.time() - t0:.1f}s")

    # one thread, histories
    jobs, meta = [], []
    corpus_jobs = [prog_job(p) for p in chosen]
    for i in usable:
        p = programs[i]
        ids = idents(prog_text(p))
        hs = [("rev-vars", [hist_vars(list(reversed(ids)))]),
              ("shuf-props+sorted-callables", [hist_props(rng.sample(ids, len(ids))), hist_callables(sorted(ids))]),
              ("corpus3", None)]
        if tier == "thorough":
            hs.append(("self", None))
            hs.append(("sorted-vars", [hist_vars(sorted(ids))]))
            hs.append(("shuf-vars", [hist_vars(rng.sample(ids, len(ids)))]))
        same = same_path_histories(p, rng)
        if tier == "quick" and len(same) > 2:
            same = same[:1] + rng.sample(same[1:], 1)
        for name, hj in same:
            jobs.append(seq_job(hj, p))
            meta.append((i, name, [j.get("files") for j in hj], hj))
        for name, srcs in hs:
            if name == "corpus3":
                hj = [rng.choice(corpus_jobs) for _ in range(3)]
                srcs_rec = [j.get("input") for j in hj]
            elif name == "self":
                hj = [prog_job(p)]
                srcs_rec = ["<the program itself>"]
            else:
                hj = [compile_job(s) for s in srcs]
                srcs_rec = srcs
            jobs.append(seq_job(hj, p))
            meta.append((i, name, srcs_rec, hj))
    res = pool.map(jobs, timeout=40)
    for (i, name, srcs_rec, hj), r in zip(meta, res):
        if r.get("status") != "ok" or not r.get("results"):
            ck.hist("seq-job-lost:" + str(r.get("status")))
            R.compare(programs[i], {"mode": "seq", "history_kind": name, "history": srcs_rec}, refs[i],
                      (str(r.get("status")), "the thread running history+program did not return"))
            continue
        R.compare(programs[i], {"mode": "seq", "history_kind": name, "history": srcs_rec, "_hj": hj}, refs[i], observe(r["results"][-1]))
    R.flush()
    log(f"[C02] seq histories done in {time.time() - t0:.1f}s ({len(jobs)} jobs)")

    # N threads started together
    for n_threads in ([4, 8] if tier == "quick" else [2, 4, 8, 16]):
        order = list(usable)
        if n_threads == 8:          # multi-file programs only: they all use the same file / module names (e.scss, m.scss, n.scss, _t.scss)
            order = [i for i in usable if programs[i]["files"] and len(programs[i]["files"]) > 1]
            ck.hist("par8:programs-sharing-file-names", len(order))
        rng.shuffle(order)
        per_list = 8
        jobs, meta = [], []
        step = n_threads * per_list
        for off in range(0, len(order), step):
            chunk = order[off:off + step]
            lists = [chunk[t::n_threads] for t in range(n_threads)]
            lists = [l for l in lists if l]
            jobs.append({"mode": "par", "lists": [[prog_job(programs[i]) for i in l] for l in lists]})
            meta.append(lists)
        res = pool.map(jobs, timeout=120)
        for lists, r in zip(meta, res):
            if r.get("status") != "ok":
                ck.hist("par-job-lost:" + str(r.get("status")))
                for l in lists:
                    for i in l:
                        R.compare(programs[i], {"mode": f"par{n_threads}", "slot": "lost"}, refs[i],
                                  (str(r.get("status")), "the concurrent job did not return"))
                continue
            for t, (l, rl) in enumerate(zip(lists, r["results"])):
                for k, i in enumerate(l):
                    o = observe(rl[k]) if k < len(rl) else ("lost", "")
                    R.compare(programs[i], {"mode": f"par{n_threads}", "slot": [t, k], "_hl": (l, k)}, refs[i], o)
        R.flush()
        log(f"[C02] par{n_threads} done in {time.time() - t0:.1f}s")

    concurrency_stress(ck, R, pool, programs, refs, usable, tier)
    log(f"[C02] deep recursion on 8/16 threads done in {time.time() - t0:.1f}s")
    cli_processes(ck, R, pool, programs, usable, tier)
    log(f"[C02] fresh processes through the CLI done in {time.time() - t0:.1f}s")

    # fresh processes (fresh hash seeds, counters at 0, empty interners).  One runner process per
    # round; inside it 16 threads started together, each compiling a slice of the programs (the slice
    # boundaries rotate with the round, so every program is also observed as the first compilation
    # of a fresh thread of a fresh process in some rounds).
    n_proc = 20 if tier == "quick" else 200
    gen_only = [i for i in usable if programs[i]["origin"].startswith("gen")]
    others = [i for i in usable if not programs[i]["origin"].startswith("gen")]
    subset = usable if tier == "thorough" else gen_only + rng.sample(others, min(150, len(others)))

    def one_process(arg):
        rnd, sub = arg
        k = max(1, (len(sub) + 15) // 16)
        rot = sub[(rnd * 3) % max(1, len(sub)):] + sub[:(rnd * 3) % max(1, len(sub))]
        lists = [rot[o:o + k] for o in range(0, len(rot), k)]
        a = RunnerPool(1).map([{"mode": "par", "lists": [[prog_job(programs[i]) for i in l] for l in lists]}], timeout=600)[0]
        out = []
        for t, l in enumerate(lists):
            rl = a["results"][t] if a.get("status") == "ok" and t < len(a.get("results", [])) else None
            for j, i in enumerate(l):
                ans = rl[j] if rl is not None and j < len(rl) else {"status": "lost:" + str(a.get("status"))}
                out.append((i, [t, j], (l, j), ans))
        return out

    import concurrent.futures
    procs = 0
    rounds = [(rnd, subset if (tier == "quick" or rnd < 20) else gen_only) for rnd in range(n_proc)]
    with concurrent.futures.ThreadPoolExecutor(max_workers=8) as ex:
        for (rnd, sub), out in zip(rounds, ex.map(one_process, rounds)):
            procs += 1
            for i, slot, hl, a in out:
                R.compare(programs[i], {"mode": "process", "slot": [rnd] + slot, "_hl": hl}, refs[i], observe(a))
            if rnd % 10 == 9:
                R.flush()
    R.flush()
    ck.cov["fresh_processes"] = procs
    log(f"[C02] {procs} fresh processes done in {time.time() - t0:.1f}s")

    # ---- verdicts -----------------------------------------------------------------------------
    fails = R.failures
    fails.sort(key=lambda f: (len(prog_text(f["program"])), len(json.dumps(f["ctx"].get("history") or ""))))
    reported = 0
    seen_groups = set()
    for f in fails:
        g = tuple(f["tags"])
        if g and g in seen_groups:               # same known class again: counted, not re-matched (match_known re-reads the json files)
            ck.cov["impl_property_failures"] += 1
            for t in g:
                ck.hist("known-class:" + t)
            continue
        if not g and reported >= 50:
            ck.cov["impl_property_failures"] += 1
            ck.hist("unclassified-difference:" + f["ctx"]["mode"])
            continue
        seen_groups.add(g)
        p, ctx = f["program"], dict(f["ctx"])
        hj = ctx.pop("_hj", None)
        hl = ctx.pop("_hl", None)
        if hl is not None:                       # earlier compilations of the same thread (par / process modes)
            hj = [prog_job(programs[x]) for x in hl[0][:hl[1]]]
            ctx["history"] = [programs[x]["origin"] for x in hl[0][:hl[1]]]
        for t in f["tags"]:
            ck.hist("known-class:" + t)
        if not f["tags"]:
            ck.hist("unclassified-difference:" + ctx["mode"])
            if reported < 5 and hj and len(hj) > 1:
                for j in hj:                                    # shrink: a single prior compilation suffices?
                    r = pool.map([{"mode": "seq", "jobs": [j, prog_job(p)]}], timeout=40)[0]
                    if r.get("status") == "ok" and observe(r["results"][-1]) != f["reference"]:
                        ctx["history"] = [j.get("input") or j.get("files")]
                        ctx["shrunk"] = True
                        hj = [j]
                        break
        payload = {"source": p["files"] or p["input"], "entry": p["entry"], "options": p["options"], "origin": p["origin"],
                   "context": ctx, "history_jobs": hj, "reference_observation": list(f["reference"]), "other_observation": list(f["other"]),
                   "expected_by_property": "byte-identical CSS / error text whatever ran before, beside, or in which process",
                   "tags": f["tags"]}
        if ck.impl_violation(case_text(p, ctx.get("history") or (), ctx["mode"]), payload, tags=f["tags"]):
            reported += 1
    ck.cov["known_class_differences"] = sum(1 for f in fails if f["tags"])
    if ck.cov["model_disagreements"] and not reported:
        ck.unproved("correspondence-broken", {
            "correspondence": "order of keywords()/'No arguments named' after a history (model: Grass.Interner, byKey = true) vs grass; "
                              "members listed by module-variables through @forward vs the model's member set",
            "cases": ck.disagreements})
    return ck.finish()


def replay(path):
    r = json.load(open(path))
    ck = Check("C02", "quick", 0)
    ck.do_build_runner()
    pool = RunnerPool(1)
    src = r.get("source")
    if src is None:
        print(json.dumps(r, indent=1))
        return 0
    if r.get("kind_of_replay") == "unique-id-contexts":
        rc = 0
        for attempt in range(3):                          # the draws are random: three compilations
            a = pool.map([compile_job(files=src, entry=r.get("entry") or "e.scss")], timeout=60)[0]
            got = collect_ids(a.get("css", "")) if a.get("status") == "ok" else None
            o = driver(["intern uidwhy " + (",".join(hexs(x) for x in got) if got else "-")])[0]
            print(f"compilation {attempt + 1}: status={a.get('status')} ids printed={len(got or [])} drawn={r.get('ids_drawn_per_generator')} "
                  f"P̂ uniqueIdsOk (Lean driver: ok valid distinct first-invalid first-repeated): {o}")
            if got is None or not o.startswith("ok 1") or (r.get("ids_drawn_per_generator") not in (None, len(got))):
                rc = 1
                print("  ids:", got)
        return rc
    if r.get("kind_of_replay") == "random":
        print(json.dumps(r, indent=1))
        a = pool.map([compile_job(src)], timeout=30)[0]
        print("now:", observe(a))
        return 1
    p = P(files=src, entry=r.get("entry"), options=r.get("options")) if isinstance(src, dict) else P(src=src, options=r.get("options"))
    ref = observe(pool.map([prog_job(p)], timeout=20)[0])
    print("program :", json.dumps(src)[:2000])
    print("fresh   :", ref)
    ctx = r.get("context", {})
    hj = r.get("history_jobs") or []
    res = pool.map([seq_job(hj, p)], timeout=60)[0]
    other = observe(res["results"][-1]) if res.get("status") == "ok" else (str(res.get("status")), "")
    print(f"after {len(hj)} prior compilation(s) on the same thread:", other)
    same = driver([f"intern same err {hexs(ref[0] + ':' + ref[1])} err {hexs(other[0] + ':' + other[1])}"])[0]
    print("P̂ sameObs (Lean driver):", same, "| recorded other observation:", r.get("other_observation"))
    print("class tags now:", classify(prog_text(p), ref, other, bool(hj)) if ref != other else "(no difference)")
    return 0 if same == "ok 1" else 1
